#!/bin/bash
# MANIFEST.setup_cmd: offline build of the harness workspace and of the real CLI binaries
# from /repo's working tree with the instrumentation guard on.  Everything lands in /verif/target.
set -e
cd "$(dirname "$0")"
export CARGO_NET_OFFLINE=true
mkdir -p target evidence scratch replay
# CLI (veryl + veryl-ls), repo's own optimised no-LTO profile
( cd /repo && RUSTFLAGS="--cfg veryl_verif" cargo build --offline --profile release-verylup \
    -p veryl -p veryl-ls --target-dir /verif/target/cli -j $(nproc) ) > target/setup_cli.log 2>&1 &
CLI_PID=$!
# harness (path deps on /repo/crates/*, Cargo.lock copied from /repo)
( cd harness && cargo build --offline --release --workspace -j $(nproc) ) > target/setup_harness.log 2>&1 || { tail -50 target/setup_harness.log; exit 1; }
wait $CLI_PID || { tail -50 target/setup_cli.log; exit 1; }
echo "setup done"
