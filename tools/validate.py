#!/opt/veriftools/pyvenv/bin/python
"""Validate MANIFEST.json and every evidence/*.json against the schemas in /root/.vp."""
import glob, json, sys, jsonschema
ok = True
ms = json.load(open('/root/.vp/MANIFEST.schema.json')); es = json.load(open('/root/.vp/EVIDENCE.schema.json'))
try:
    jsonschema.validate(json.load(open('/verif/MANIFEST.json')), ms); print('MANIFEST ok')
except Exception as e:
    ok = False; print('MANIFEST INVALID', str(e)[:300])
for p in sorted(glob.glob('/verif/evidence/*.json')):
    try:
        jsonschema.validate(json.load(open(p)), es)
    except Exception as e:
        ok = False; print(p, 'INVALID', str(e)[:300])
print('evidence files:', len(glob.glob('/verif/evidence/*.json')))
sys.exit(0 if ok else 1)
