#!/bin/bash
# Evaluate one seeded breaking change against the checks:
#   tools/run_seeded.sh <seeded-id> <check id> [<check id> ...]
# applies seeded/<id>/patch.diff to /repo's working tree, runs the quick tier of the named checks
# (./check rebuilds what it needs from the working tree), records exit codes + VIOLATION lines in
# seeded/<id>/result.json, and ALWAYS restores /repo (git checkout -- . && git clean for files the patch added).
set -u
ID=$1; shift
DIR=/verif/seeded/$ID
[ -f "$DIR/patch.diff" ] || { echo "no $DIR/patch.diff"; exit 2; }
cd /repo
if ! git diff --quiet || ! git diff --cached --quiet; then echo "/repo working tree not clean"; exit 2; fi
git apply --check "$DIR/patch.diff" || { echo "patch does not apply"; exit 2; }
git apply "$DIR/patch.diff"
ADDED=$(git status --porcelain | awk '$1=="??"{print $2}')
restore() { cd /repo && git checkout -- . && for f in $ADDED; do rm -rf "/repo/$f"; done; }
trap restore EXIT
cd /verif
OUT="["
for C in "$@"; do
  LOG=$DIR/run_$C.log
  timeout ${SEEDED_TIMEOUT:-5400} ./check $C --tier quick > "$LOG" 2>&1
  RC=$?
  NV=$(grep -c '^VIOLATION' "$LOG")
  FIRST=$(grep -A1 '^VIOLATION' "$LOG" | grep 'what:' | head -1 | cut -c1-300 | python3 -c 'import json,sys; print(json.dumps(sys.stdin.read().rstrip("\n")))')
  OUT="$OUT{\"check\":\"$C\",\"exit\":$RC,\"violation_lines\":$NV,\"first\":${FIRST:-\"\"}},"
  echo "$ID $C exit=$RC violations=$NV"
done
OUT="${OUT%,}]"
echo "$OUT" > $DIR/result.json
