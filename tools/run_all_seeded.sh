#!/bin/bash
# evaluation pass 4: the wave-3 changes that the first evaluation missed, after strengthening
cd /verif
run() { tools/run_seeded.sh "$@"; }
run C03-vsplit-stability-guard-last-pos C03
run C35-write-u64-keeps-stale-mask C35
run C15-read-before-assign-not-per-bit C15
run C13-anchored-column-bytes-not-chars C13 C28
run C06-sv-member-dedup-by-leaf-name C06
run C24-mixin-interface-resolve-order C24
run C07-on-remove-keeps-document-map-entry C07
echo ALLDONE
