#!/bin/bash
# evaluation pass 6: third-batch misses after strengthening
cd /verif
run() { tools/run_seeded.sh "$@"; }
run C16-ternary-branches-not-checked-against-each-other C16
run C22-unsigned-keyword-translated-as-signed C22
run C09-block-comment-regex-double-star-close C09
echo ALLDONE
