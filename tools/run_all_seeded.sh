#!/bin/bash
cd /verif
run() { tools/run_seeded.sh "$@"; }
run C29-save-skip-keeps-staging C29
run C30-atomic-write-fast-path-new-file C30 C05
run C25-collision-scan-skipped-for-source-target C25
run C05-nonatomic-first-write-of-output C05
run C04-restored-file-dependents-not-refreshed C04
run C19-ao22-constfold-wrong-leg C19 C20
run C08-aligner-inst-list-reference-line C08
run C02-jit-lshr-count-equals-width C02 C18
run C01-case-later-label-4state-plain-case C01
run C14-ssa-root-sources-dedup C14
run C17-lshr-u64-clamp-63 C17 C18
run C12-comment-column-second-on-line C12 C13
echo ALLDONE
