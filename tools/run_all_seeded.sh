#!/bin/bash
# evaluation pass 5: third batch of seeded changes (C09 C16 C18 C20 C22 C27 C33 C34)
cd /verif
run() { tools/run_seeded.sh "$@"; }
run C20-dqff-fold-skips-ff-d-pin C20 C19
run C22-unsigned-keyword-translated-as-signed C22
run C09-block-comment-regex-double-star-close C09
run C16-ternary-branches-not-checked-against-each-other C16
run C18-wide-mul-zero-word-skips-carry C18 C02
run C27-check-mode-skips-dependency-outputs C27
run C33-notready-fallback-single-comb-pass C33
run C34-dut-reuse-nested-derived-clock-not-relocated C34 C34b
echo ALLDONE
