#!/bin/bash
# Orchestrator's confirmation of a seeded change whose demonstration is a shell script driving
# the real CLI:   tools/confirm_demo_sh.sh <seeded-id> <scratch worktree of /repo>
# 1. demo.sh with the CLI built from the unchanged /repo tree (/verif/target/cli) must exit 0
# 2. patch applied in the scratch worktree, `cargo build -p veryl`, demo.sh must exit 1
set -u
ID=$1; WT=$2
S=/verif/seeded/$ID
V=/verif/target/cli/release-verylup/veryl
cd "$WT" || exit 2
git checkout -q -- .
{
echo "== $(date -u) confirm $ID (demo.sh, real CLI)"
echo "-- unchanged tree binary $V:"
bash $S/demo.sh $V 2>&1 | tail -4; echo "demo exit=${PIPESTATUS[0]}"
git apply $S/patch.diff && echo "-- patch applied in $WT; cargo build --offline -p veryl"
CARGO_NET_OFFLINE=true cargo build --offline -p veryl 2>&1 | tail -2
echo "-- with change:"
bash $S/demo.sh $WT/target/debug/veryl 2>&1 | tail -4; echo "demo exit=${PIPESTATUS[0]}"
git checkout -q -- .
echo "== done $(date -u)"
} > $S/confirm.log 2>&1
tail -14 $S/confirm.log
