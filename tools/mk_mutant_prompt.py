#!/usr/bin/env python3
"""Print the prompt for a fresh mutation sub-agent: property text only + its worktree path."""
import json, sys
pid, wt = sys.argv[1], sys.argv[2]
props = {json.loads(l)["id"]: json.loads(l) for l in open("/verif/properties.jsonl")}
p = props[pid]
t = open("/verif/tools/mutant_prompt.md").read()
anch = p["anchors"]
anchors = "files: " + ", ".join(anch.get("files", [])) + "; mechanisms: " + "; ".join(f"{m['name']} ({m['where']})" for m in anch.get("mechanism", []))
print(t.replace("{WT}", wt).replace("{ID}", pid).replace("{TITLE}", p["title"]).replace("{STATEMENT}", p["statement"])
       .replace("{QUANT}", p["quantifier"]["text"]).replace("{WHY}", p["why_tests_cant"]).replace("{ANCHORS}", anchors))
