#!/bin/bash
# Orchestrator's own confirmation of a seeded change, in the scratch worktree it was written in:
#   tools/confirm_mutant.sh <seeded-id> <worktree> "<cargo -p args>" <test filter>
# 1. patch + demo applied  -> the demo test must FAIL
# 2. demo only (patch reverted) -> the demo test must PASS
# Writes seeded/<id>/confirm.log and leaves the worktree clean.
set -u
ID=$1; WT=$2; PKGS=$3; FILTER=$4
DIR=/verif/seeded/$ID
LOG=$DIR/confirm.log
cd "$WT" || exit 2
git checkout -q -- . ; git clean -fdq -e _mutant -e target
export CARGO_NET_OFFLINE=true
{
echo "== $(date -u) confirm $ID in $WT"
git apply "$DIR/patch.diff" && git apply "$DIR/demo_test.diff" || { echo "APPLY FAILED"; exit 2; }
echo "-- with change + demo: cargo nextest run --offline -j 6 --no-fail-fast $PKGS $FILTER"
cargo nextest run --offline -j 6 --no-fail-fast $PKGS $FILTER 2>&1 | grep -E "^\s+(FAIL|PASS|Summary)|error\[|^error" | sort -u | head -20
git apply -R "$DIR/patch.diff"
echo "-- demo only (change reverted):"
cargo nextest run --offline -j 6 --no-fail-fast $PKGS $FILTER 2>&1 | grep -E "^\s+(FAIL|PASS|Summary)|error\[|^error" | sort -u | head -20
git checkout -q -- . ; git clean -fdq -e _mutant -e target
echo "== done $(date -u)"
} > "$LOG" 2>&1
tail -12 "$LOG"
