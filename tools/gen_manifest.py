#!/usr/bin/env python3
"""Regenerate MANIFEST.json from checks.d/*.json, not_applicable.json and hooks.json."""
import glob
import json
import os

VERIF = os.path.dirname(os.path.dirname(os.path.abspath(__file__)))
props = [json.loads(l) for l in open(os.path.join(VERIF, "properties.jsonl"))]
ids = [p["id"] for p in props]

checks = []
claimed = set()
for pid in ids:
    path = os.path.join(VERIF, "checks.d", f"{pid}.json")
    if not os.path.exists(path):
        continue
    s = json.load(open(path))
    if s.get("disabled"):
        continue
    claimed.add(pid)
    checks.append({
        "property_id": pid,
        "quick_cmd": f"./check {pid} --tier quick",
        "thorough_cmd": f"./check {pid} --tier thorough",
        "evidence_file": f"/verif/evidence/{pid}.json",
        "replay_cmd_template": f"./check {pid} --replay {{path}}",
        "engine": s.get("bin") or s.get("script"),
        "level_claimed": {"category": s["level"], "text": s["level_text"], "design_ref": s.get("design_ref", "DESIGN.md §4 " + pid)},
        "level_note": s["level_note"],
        "technique": s["technique"],
    })

na_path = os.path.join(VERIF, "not_applicable.json")
na_reasons = json.load(open(na_path)) if os.path.exists(na_path) else {}
na = []
for pid in ids:
    if pid in claimed:
        continue
    na.append({"property_id": pid, "reason": na_reasons.get(pid, "check not built yet in this session; see DESIGN.md §4 for the planned monitor")})

hooks = json.load(open(os.path.join(VERIF, "hooks.json")))
engines = {}
for c in checks:
    engines.setdefault(c["engine"], []).append(c["property_id"])

manifest = {
    "version": 1,
    "setup_cmd": "./setup.sh",
    "hooks": hooks,
    "engines": [{"name": k, "path": ("harness/" + k if not k.endswith(".py") else "pytools/" + k), "serves_properties": v,
                 "kind_free_text": "runtime monitor (Rust, in-process)" if not k.endswith(".py") else "runtime monitor (Python, drives the real CLI)"}
                for k, v in sorted(engines.items())],
    "checks": checks,
    "not_applicable": na,
    "notes": "Every check is ./check <ID>; it rebuilds the harness (and the CLI where needed) from /repo's working tree with "
             "RUSTFLAGS=--cfg veryl_verif, runs the monitor under a watchdog and writes evidence/<ID>.json. Exit 0 held on "
             "observed, 1 VIOLATION, 2 inconclusive. Known findings: known_findings.json.",
}
with open(os.path.join(VERIF, "MANIFEST.json"), "w") as f:
    json.dump(manifest, f, indent=1)
print(f"MANIFEST.json: {len(checks)} checks, {len(na)} not_applicable")
