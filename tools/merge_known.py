#!/usr/bin/env python3
"""Merge known.d/*.json (one list of findings per property, written by the check owners) and
known.d/_fixed.json (orchestrator: entries with status fixed) into known_findings.json."""
import glob, json, os
V = os.path.dirname(os.path.dirname(os.path.abspath(__file__)))
out = []
for p in sorted(glob.glob(os.path.join(V, "known.d", "*.json"))):
    for f in json.load(open(p)):
        assert f.get("property") and f.get("signature") and f.get("status") in ("known", "fixed"), (p, f)
        out.append(f)
sigs = set()
for f in out:
    k = (f["property"], f["signature"], f["status"])
    assert k not in sigs, f"duplicate {k}"
    sigs.add(k)
doc = {"comment": "Genuine defects of veryl-lang/veryl found by the monitors. status=known: still present; the owning check prints "
                  "KNOWN-FINDING for it and does not fail; any violation with another signature still fails. status=fixed: repaired by "
                  "the named fix: commit in /repo; suppresses nothing. Generated from known.d/*.json by tools/merge_known.py; never written at run time.",
       "findings": out}
json.dump(doc, open(os.path.join(V, "known_findings.json"), "w"), indent=1)
print(len(out), "findings")
