#!/usr/bin/env python3
"""Add the orchestrator's own evaluation to every seeded/<id>/meta.json (key "evaluation").

Sources: seeded/<id>/confirm.log (demo re-run both ways in a scratch worktree),
seeded/<id>/result.json (quick tier of the owning checks with patch.diff applied to /repo),
seeded/<id>/result_first_evaluation.json when the first evaluation missed and checks were strengthened.
Never touches patch.diff or the author's fields.
"""
import json, os, re, sys

ROOT = "/verif/seeded"


def confirm(d):
    p = os.path.join(d, "confirm.log")
    if not os.path.exists(p):
        return {"log": None}
    t = open(p, errors="replace").read()
    if "demo.sh" in t.split("\n", 1)[0]:
        parts = t.split("-- with change:")
        before, after = parts[0], parts[1] if len(parts) > 1 else ""
        ok_without = "demo exit=0" in before or re.search(r"^PASS", before, re.M) is not None
        fails_with = "demo exit=1" in after or re.search(r"^FAIL", after, re.M) is not None
    else:
        parts = t.split("-- demo only (change reverted):")
        with_change, without = parts[0], parts[1] if len(parts) > 1 else ""
        fails_with = re.search(r"^\s+FAIL ", with_change, re.M) is not None
        ok_without = re.search(r"^\s+PASS ", without, re.M) is not None and re.search(r"^\s+FAIL ", without, re.M) is None
    return {"log": "confirm.log", "demo_fails_with_change": bool(fails_with), "demo_passes_without_change": bool(ok_without)}


def results(p):
    if not os.path.exists(p):
        return None
    try:
        return json.load(open(p))
    except Exception as e:  # noqa
        return [{"error": str(e)}]


def main():
    rows = []
    for name in sorted(os.listdir(ROOT)):
        d = os.path.join(ROOT, name)
        mp = os.path.join(d, "meta.json")
        if not os.path.isdir(d) or not os.path.exists(mp):
            continue
        meta = json.load(open(mp))
        res = results(os.path.join(d, "result.json")) or []
        first = results(os.path.join(d, "result_first_evaluation.json"))
        ev = {
            "by": "orchestrator",
            "confirmation": confirm(d),
            "how": "patch.diff applied to /repo working tree, ./check <ID> --tier quick for the owning checks (tools/run_seeded.sh), /repo restored with git checkout -- .",
            "checks_run": [{"check": r.get("check"), "exit": r.get("exit"), "violation_lines": r.get("violation_lines"), "first_violation": (r.get("first") or "")[:240]} for r in res],
            "caught_by": [r["check"] for r in res if r.get("exit") == 1 and r.get("violation_lines", 0) > 0],
            "logs": sorted(f for f in os.listdir(d) if f.startswith("run_") and f.endswith(".log")),
        }
        if first is not None:
            ev["first_evaluation_before_strengthening"] = [{"check": r.get("check"), "exit": r.get("exit")} for r in first]
        meta["evaluation"] = ev
        json.dump(meta, open(mp, "w"), indent=1, ensure_ascii=False)
        rows.append((name, ev["confirmation"].get("demo_fails_with_change"), ev["confirmation"].get("demo_passes_without_change"), ",".join(ev["caught_by"]) or "-"))
    for r in rows:
        print("%-52s fails_with=%-5s passes_without=%-5s caught_by=%s" % r)


if __name__ == "__main__":
    main()
