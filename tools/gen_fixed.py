#!/usr/bin/env python3
"""Regenerate known.d/_fixed.json from the `fix:` commits in /repo (one entry per commit)."""
import json, re, subprocess
log = subprocess.run(["git", "-C", "/repo", "log", "--format=%h%x00%s%x00%b%x01"], capture_output=True, text=True).stdout
manual = {  # commits made before the fixes/ protocol existed
    "comment tokens report their real byte offset": ("C12", "comment:offset"),
    "Value::assign truncates a >64-bit source": ("C02", "interp-slice-assign-from-wide-source"),
}
out = []
reverted = set(re.findall(r'Revert "(fix:[^"]+)"', log))
for rec in log.split("\x01"):
    rec = rec.strip("\n")
    if not rec:
        continue
    h, subj, body = rec.split("\x00")
    if not subj.startswith("fix:") or subj in reverted:
        continue
    m = re.search(r"property (C\d\d); patch from fixes/(\S+)\.diff", body)
    if m:
        prop, sig = m.group(1), m.group(2)
    else:
        prop, sig = next(((p, s) for k, (p, s) in manual.items() if k in subj), ("?", "?"))
    out.append({"property": prop, "status": "fixed", "commit": h, "signature": sig,
                "what": f"fixed: property={prop} {h} {subj[4:].strip()}"})
out.reverse()
json.dump(out, open("/verif/known.d/_fixed.json", "w"), indent=1)
print(len(out), "fixed entries")
