#!/bin/bash
# Run every registered check once (tier $1, seed $2) in the main target; summary on stdout.
TIER=${1:-quick}; SEED=${2:-0}
OUT=/verif/target/all_${TIER}_${SEED}; mkdir -p $OUT
cd /verif
for f in checks.d/C??.json; do
  ID=$(basename $f .json)
  S=$(date +%s)
  VERIF_SEED=$SEED ./check $ID --tier $TIER > $OUT/$ID.log 2>&1
  RC=$?
  E=$(( $(date +%s) - S ))
  echo "$ID exit=$RC wall=${E}s viol=$(grep -c '^VIOLATION' $OUT/$ID.log) known=$(grep -c '^KNOWN-FINDING' $OUT/$ID.log)"
done
