"""A. didOpen of a file the running background task has already analysed -> server thread panics."""
from common import *
root = mkproj('A'); P = lambda r: os.path.join(root, r)
os.rename(P('src/mod_b.veryl'), P('src/zz_b.veryl'))          # popped first by the background task
for i in range(300):                                            # widen the window: 300 more paths to go
    open(P(f'src/f_{i}.veryl'), 'w').write(OTHER.replace('ModC', f'Fill{i}'))
s = server(root)
u = s.did_open(P('src/pkg_a.veryl'), PKG, 1); s.wait_publish(u, 1)
s.pump(lambda: any('zz_b.veryl' in (m or '') for v in s.reports.values() for m in v), what='report zz_b')
u = s.did_open(P('src/zz_b.veryl'), MOD, 2)
try:
    print('diagnostics:', show(s.wait_publish(u, 2)))
except LspPanicked as e:
    print('SERVER PANICKED:', str(e)[:400])
s.close()
