"""D. a path that was open once stays in document_map for ever: a file renamed away and back is never analysed again."""
from common import *
root = mkproj('D'); s = server(root); P = lambda r: os.path.join(root, r)
u_b = s.did_open(P('src/mod_b.veryl'), MOD, 1); s.wait_publish(u_b, 1); s.wait_tasks(1)
u_a = s.did_open(P('src/pkg_a.veryl'), PKG, 2); s.wait_publish(u_a, 2); s.wait_tasks(2)
s.did_close(P('src/pkg_a.veryl'))
n = 2
for a, b in (('src/pkg_a.veryl', 'src/pkg_z.veryl'), ('src/pkg_z.veryl', 'src/pkg_a.veryl')):
    s.will_rename([(P(a), P(b))]); os.rename(P(a), P(b)); s.did_rename([(P(a), P(b))]); n += 1; s.wait_tasks(n)
    s.did_change(P('src/mod_b.veryl'), MOD, 10 + n)
    print('after rename', a, '->', b, ' mod_b:', show(s.wait_publish(u_b, 10 + n)))
s.close()
print('fresh server, mod_b:', fresh(root))
