"""B. latest_change is replayed after a background pass although its file was deleted meanwhile."""
from common import *
root = mkproj('B'); s = server(root); P = lambda r: os.path.join(root, r)
u_b = s.did_open(P('src/mod_b.veryl'), MOD, 1); s.wait_publish(u_b, 1); s.wait_tasks(1)
u_a = s.did_open(P('src/pkg_a.veryl'), PKG, 2); s.wait_publish(u_a, 2); s.wait_tasks(2)
s.did_change(P('src/pkg_a.veryl'), PKG + "// edit\n", 3); s.wait_publish(u_a, 3)      # latest change = pkg_a
s.will_delete([P('src/pkg_a.veryl')]); os.remove(P('src/pkg_a.veryl')); s.did_close(P('src/pkg_a.veryl'))
pair = [(P('src/mod_c.veryl'), P('src/mod_d.veryl'))]                                    # unrelated rename
s.will_rename(pair); os.rename(*pair[0]); s.did_rename(pair); s.wait_tasks(3)
s.did_change(P('src/mod_b.veryl'), MOD, 5)
print('history server, mod_b:', show(s.wait_publish(u_b, 5)))
s.close()
print('fresh server,   mod_b:', fresh(root))
