"""E. after a file's symbols were dropped, an empty name_table entry changes how `PkgA::W0` fails to resolve."""
from common import *
root = mkproj('E'); s = server(root); P = lambda r: os.path.join(root, r)
u_b = s.did_open(P('src/mod_b.veryl'), MOD, 1); s.wait_publish(u_b, 1); s.wait_tasks(1)
u_a = s.did_open(P('src/pkg_a.veryl'), PKG, 2); s.wait_publish(u_a, 2); s.wait_tasks(2)
BROKEN = PKG.replace('package PkgA {', 'package PkgA')           # syntax error: all symbols of pkg_a are dropped
s.did_change(P('src/pkg_a.veryl'), BROKEN, 3); s.wait_publish(u_a, 3)
s.did_change(P('src/mod_b.veryl'), MOD, 4)
print('history server, mod_b:', show(s.wait_publish(u_b, 4)))
s.close()
open(P('src/pkg_a.veryl'), 'w').write(BROKEN)                     # what the buffers are
f = server(root, 'fresh')
ua = f.did_open(P('src/pkg_a.veryl'), BROKEN, 1); f.wait_publish(ua, 1); f.wait_tasks(1)
ub = f.did_open(P('src/mod_b.veryl'), MOD, 2); f.wait_publish(ub, 2); f.wait_tasks(2)
f.did_change(P('src/mod_b.veryl'), MOD, 3)
print('fresh server,   mod_b:', show(f.wait_publish(ub, 3)))
f.close()
