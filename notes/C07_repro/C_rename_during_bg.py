"""C. didRenameFiles arriving while a background pass is pending is dropped; the new file is never analysed."""
from common import *
root = mkproj('C'); s = server(root); P = lambda r: os.path.join(root, r)
s.hold_next_create = True            # the server thread blocks in progress_start() until the client answers
u_b = s.did_open(P('src/mod_b.veryl'), MOD, 1); s.wait_publish(u_b, 1)
s.pump(lambda: s.held_create is not None)
pair = [(P('src/pkg_a.veryl'), P('src/pkg_z.veryl'))]
s.will_rename(pair); os.rename(*pair[0]); s.did_rename(pair)
s.wait_log('did_rename_files', 1); s.will_rename([]); s.will_rename([])
s.release_create(); s.wait_tasks(1)
s.did_change(P('src/mod_b.veryl'), MOD, 2)
print('history server, mod_b:', show(s.wait_publish(u_b, 2)), '| background tasks created:', s.creates)
s.close()
print('fresh server,   mod_b:', fresh(root))
