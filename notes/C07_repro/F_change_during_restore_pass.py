"""F. didChange while a *second* background pass (cache-ls restore, `$std` included) is half way -> panic.
usage: F_change_during_restore_pass.py [k ...]   (send the change after k progress reports of pass 2)"""
from common import *
import sys
ks = [int(x) for x in sys.argv[1:]] or [5, 10, 15, 20, 25, 30, 35, 40, 45]
for k in ks:
    root = mkproj(f'F{k}'); P = lambda r: os.path.join(root, r)
    open(root + '/Veryl.toml', 'w').write('[project]\nname = "hp"\nversion = "0.1.0"\n[build]\nsources = ["src"]\nincremental = true\n')
    s = server(root, f'ls{k}')
    u_b = s.did_open(P('src/mod_b.veryl'), MOD, 1); s.wait_publish(u_b, 1); s.wait_tasks(1)      # pass 1: parse + capture
    u_c = s.did_open(P('src/mod_c.veryl'), OTHER, 2); s.wait_publish(u_c, 2)                      # pass 2: restore
    s.pump(lambda: len(s.reports.get(2, [])) >= k, what=f'{k} reports of pass 2')
    s.did_change(P('src/mod_b.veryl'), MOD, 3)
    try:
        d = s.wait_publish(u_b, 3); s.wait_tasks(2)
        print(k, 'ok', show(d), 'last report before the change:', s.reports[2][k - 1])
    except LspPanicked as e:
        i = str(e).find('panicked at')
        print(k, 'SERVER PANICKED after report', s.reports[2][k - 1], ':', str(e)[i:i + 160].replace('\n', ' '))
    s.close()
