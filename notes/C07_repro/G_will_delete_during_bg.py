"""G. willDeleteFiles processed while a background pass is pending: the pass (path list computed earlier)
analyses the file from disk *after* its symbols were dropped, if the client deletes it a moment later."""
from common import *
MODC = "module ModC (\n    i_d: input  logic<8>,\n    o_d: output logic<8>,\n) {\n    inst u: ModB (i_d, o_d);\n}\n"
root = mkproj('G'); P = lambda r: os.path.join(root, r)
open(P('src/mod_c.veryl'), 'w').write(MODC)                      # ModC instantiates ModB (mod_b.veryl)
s = server(root)
s.hold_next_create = True                                         # keep the background task of this didOpen pending
u_c = s.did_open(P('src/mod_c.veryl'), MODC, 1); s.wait_publish(u_c, 1)
s.pump(lambda: s.held_create is not None)
s.will_delete([P('src/mod_b.veryl')])                             # server drops mod_b's symbols (none yet)
s.release_create(); s.wait_tasks(1)                               # the pending pass still reads mod_b.veryl from disk
os.remove(P('src/mod_b.veryl'))                                   # the editor deletes the file only now
s.did_change(P('src/mod_c.veryl'), MODC, 2)
print('history server, mod_c:', show(s.wait_publish(u_c, 2)))
s.close()
print('fresh server,   mod_c:', fresh(root, 'src/mod_c.veryl', MODC))
