"""Shared helpers of the C07 hand reproductions.  Usage: python3 /verif/notes/C07_repro/<X>.py
Needs /verif/pytools/lsp_client.py and the veryl-ls that ./check built (or LS=/path/to/veryl-ls)."""
import os, shutil, sys
sys.path.insert(0, '/verif/pytools')
from lsp_client import *   # noqa
BIN = os.environ.get('LS', '/verif/target/cli/release-verylup/veryl-ls')
BASE = os.environ.get('REPRO_DIR', '/verif/scratch/c07_repro')
PKG = "package PkgA {\n    const W0: u32 = 8;\n}\n"
MOD = "module ModB (\n    i_d: input  logic<PkgA::W0>,\n    o_d: output logic<PkgA::W0>,\n) {\n    assign o_d = i_d;\n}\n"
OTHER = "module ModC (\n    i_d: input  logic<4>,\n    o_d: output logic<4>,\n) {\n    assign o_d = i_d;\n}\n"


def mkproj(name):
    root = f'{BASE}/{name}'
    shutil.rmtree(root, ignore_errors=True)
    os.makedirs(root + '/src')
    os.makedirs(f'{BASE}/home', exist_ok=True)
    open(root + '/Veryl.toml', 'w').write('[project]\nname = "hp"\nversion = "0.1.0"\n[build]\nsources = ["src"]\nexclude_std = true\n')
    open(root + '/src/pkg_a.veryl', 'w').write(PKG)
    open(root + '/src/mod_b.veryl', 'w').write(MOD)
    open(root + '/src/mod_c.veryl', 'w').write(OTHER)
    return root


def server(root, name='ls'):
    s = LspServer(root, f'{BASE}/home', BASE, name=name, timeout=30, binary=BIN)
    s.initialize()
    return s


def show(d):
    return [(k[0], k[1], k[3], k[5], k[6]) for k in diag_multiset(d)]


def fresh(root, rel='src/mod_b.veryl', text=MOD):
    f = server(root, 'fresh')
    p = os.path.join(root, rel)
    u = f.did_open(p, text, 1); f.wait_publish(u, 1); f.wait_tasks(1)
    f.did_change(p, text, 2)
    out = show(f.wait_publish(u, 2))
    f.close()
    return out
