//! Drive the real simulator on a generated design: reset protocol, random
//! 2-state stimulus, per-step output trace.

use crate::design::{Design, Port};
use num_bigint::BigUint;
use vcommon::Rng;
use veryl_analyzer::ir as air;
use veryl_metadata::{Metadata, ResetType};
use veryl_simulator::ir::{Value, build_ir};
use veryl_simulator::{Config, Simulator};

/// A sampled value: payload and X/Z mask as little-endian u64 words.
#[derive(Clone, Debug, PartialEq, Eq, Hash)]
pub struct TVal {
    pub width: usize,
    pub payload: Vec<u64>,
    pub xz: Vec<u64>,
}

impl TVal {
    pub fn from_value(v: &Value) -> TVal {
        let w = v.width();
        let words = w.div_ceil(64).max(1);
        let mut payload = v.payload().to_u64_digits();
        let mut xz = v.mask_xz().to_u64_digits();
        payload.resize(words, 0);
        xz.resize(words, 0);
        TVal { width: w, payload, xz }
    }
    pub fn has_xz(&self) -> bool {
        self.xz.iter().any(|x| *x != 0)
    }
    pub fn hex(&self) -> String {
        let mut s = String::new();
        for (i, w) in self.payload.iter().enumerate().rev() {
            if i == self.payload.len() - 1 {
                s.push_str(&format!("{w:x}"));
            } else {
                s.push_str(&format!("{w:016x}"));
            }
        }
        if self.has_xz() {
            s.push_str("/xz:");
            for w in self.xz.iter().rev() {
                s.push_str(&format!("{w:x}_"));
            }
        }
        format!("{}'h{}", self.width, s)
    }
    pub fn to_value(&self, signed: bool) -> Value {
        let mut bytes = vec![];
        for w in &self.payload {
            bytes.extend_from_slice(&w.to_le_bytes());
        }
        Value::new_biguint(BigUint::from_bytes_le(&bytes), self.width, signed)
    }
}

#[derive(Clone, Debug)]
pub struct CycleIn {
    /// reset asserted during this clock edge
    pub reset: bool,
    /// one value per design input, in `design.inputs` order
    pub inputs: Vec<TVal>,
}

#[derive(Clone, Debug)]
pub struct Stimulus {
    pub cycles: Vec<CycleIn>,
}

pub fn random_value(rng: &mut Rng, width: usize) -> TVal {
    let words = width.div_ceil(64).max(1);
    let mode = rng.below(8);
    let mut payload: Vec<u64> = (0..words)
        .map(|_| match mode {
            0 => 0,
            1 => u64::MAX,
            2 => 0xAAAA_AAAA_AAAA_AAAA,
            _ => rng.next_u64(),
        })
        .collect();
    if mode == 3 {
        // only the MSB
        for p in payload.iter_mut() {
            *p = 0;
        }
        payload[(width - 1) / 64] = 1u64 << ((width - 1) % 64);
    }
    if mode == 4 {
        for p in payload.iter_mut() {
            *p = 0;
        }
        payload[0] = rng.below(4);
    }
    let top = width % 64;
    if top != 0 {
        let last = payload.len() - 1;
        payload[last] &= (1u64 << top) - 1;
    }
    TVal { width, payload, xz: vec![0; words] }
}

/// Reset for the first cycle(s), then random inputs every cycle; reset is
/// re-asserted for single cycles now and then.
pub fn stimulus(design: &Design, rng: &mut Rng, cycles: usize) -> Stimulus {
    let mut out = vec![];
    let hold_prob = rng.below(4); // some stimuli keep inputs stable for several cycles
    let mut prev: Option<Vec<TVal>> = None;
    for c in 0..cycles {
        let reset = c < 2 || rng.chance(1, 25);
        let inputs: Vec<TVal> = match &prev {
            Some(p) if rng.below(4) < hold_prob => p.clone(),
            _ => design.inputs.iter().map(|p: &Port| random_value(rng, p.width)).collect(),
        };
        prev = Some(inputs.clone());
        out.push(CycleIn { reset, inputs });
    }
    Stimulus { cycles: out }
}

/// Simulator config matching a project's `[build] reset_type`.
pub fn config_for(metadata: &Metadata, base: &Config) -> Config {
    let mut c = base.clone();
    c.abstract_reset_active_high = matches!(metadata.build.reset_type, ResetType::AsyncHigh | ResetType::SyncHigh);
    c.abstract_reset_sync = matches!(metadata.build.reset_type, ResetType::SyncLow | ResetType::SyncHigh);
    c
}

#[derive(Clone, Debug, PartialEq, Eq)]
pub struct Trace {
    /// per cycle, per design output
    pub steps: Vec<Vec<TVal>>,
}

impl Trace {
    pub fn digest(&self) -> u64 {
        let mut h: u64 = 0xcbf29ce484222325;
        for s in &self.steps {
            for v in s {
                for w in v.payload.iter().chain(v.xz.iter()) {
                    h ^= *w;
                    h = h.wrapping_mul(0x100000001b3);
                    h = h.rotate_left(23);
                }
            }
        }
        h
    }
    /// First (cycle, output index) where the traces differ.
    pub fn first_diff(&self, other: &Trace) -> Option<(usize, usize)> {
        for (c, (a, b)) in self.steps.iter().zip(other.steps.iter()).enumerate() {
            for (o, (x, y)) in a.iter().zip(b.iter()).enumerate() {
                if x != y {
                    return Some((c, o));
                }
            }
        }
        if self.steps.len() != other.steps.len() {
            return Some((self.steps.len().min(other.steps.len()), 0));
        }
        None
    }
}

/// Build the simulator IR for `design.top` under `config` and run `stim`.
/// Err = the simulator refused the design (build_ir error).
pub fn run(ir: &air::Ir, design: &Design, config: &Config, stim: &Stimulus) -> Result<Trace, String> {
    let sim_ir = build_ir(ir, design.top.as_str().into(), config).map_err(|e| format!("{e}"))?;
    let mut sim = Simulator::new(sim_ir, None);
    run_on(&mut sim, design, stim)
}

pub fn run_on(sim: &mut Simulator, design: &Design, stim: &Stimulus) -> Result<Trace, String> {
    let clk = sim.get_clock(&design.clock).ok_or("no clock port")?;
    let rst = sim.get_reset(&design.reset);
    let mut steps = Vec::with_capacity(stim.cycles.len());
    for cyc in &stim.cycles {
        for (p, v) in design.inputs.iter().zip(cyc.inputs.iter()) {
            sim.set(&p.name, v.to_value(p.signed));
        }
        match (&rst, cyc.reset) {
            (Some(r), true) => sim.step_reset(&clk, r),
            _ => sim.step(&clk),
        }
        let mut row = Vec::with_capacity(design.outputs.len());
        for p in &design.outputs {
            let v = sim.get(&p.name).ok_or_else(|| format!("no output port {}", p.name))?;
            row.push(TVal::from_value(&v));
        }
        steps.push(row);
    }
    Ok(Trace { steps })
}
