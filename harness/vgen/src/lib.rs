//! Generators shared by the monitors: DesignGen (`design`) and the simulator
//! driver (`sim`) that applies one stimulus to one engine configuration.

pub mod design;
pub mod reduce;
pub mod sim;

pub use design::{Design, GenOpts, Port, generate};
