//! DesignGen — random well-typed synthesizable Veryl designs.
//!
//! Designs are constructed loop-free (every combinational signal only reads
//! signals defined before it; flip-flop outputs may be read anywhere),
//! single-driver, fully assigned, every flip-flop reset.  The real analyzer
//! then *filters*: a rejected design is counted and discarded by the caller,
//! never reported.
//!
//! The top module is always `Top` with ports `i_clk`, `i_rst`, data inputs
//! `i<N>` and data outputs `o<N>`.

use vcommon::Rng;

#[derive(Clone, Debug)]
pub struct Port {
    pub name: String,
    pub width: usize,
    pub signed: bool,
    pub output: bool,
}

#[derive(Clone, Debug)]
pub struct Design {
    pub text: String,
    pub top: String,
    pub clock: String,
    pub reset: String,
    pub inputs: Vec<Port>,
    pub outputs: Vec<Port>,
    /// names of the generator features that were actually used
    pub features: Vec<String>,
    pub has_ff: bool,
}

#[derive(Clone, Debug)]
pub struct GenOpts {
    pub max_width: usize,
    pub inputs: (usize, usize),
    pub outputs: (usize, usize),
    pub combs: (usize, usize),
    pub ffs: (usize, usize),
    pub expr_depth: usize,
    pub signed: bool,
    pub divmod: bool,
    /// allow divisors that can be zero (x/0 is X in SV; 2-state engines have no defined value)
    pub raw_div: bool,
    pub pow: bool,
    pub functions: bool,
    pub structs: bool,
    pub enums: bool,
    pub arrays: bool,
    pub case_stmt: bool,
    pub for_loops: bool,
    pub generate: bool,
    pub instances: bool,
    pub interfaces: bool,
    pub packages: bool,
    pub casts: bool,
    pub inside: bool,
    pub dyn_select: bool,
    /// use explicit clock_posedge / reset_sync_high … port types sometimes
    pub explicit_clock_reset: bool,
    /// replicate blocks through generate-for to get large statement counts
    pub big: usize,
    /// always_ff blocks without if_reset (FF never reset → X in 4-state/SV until written)
    pub unreset_ffs: bool,
    /// fine-grained generator features switched off by name (see `Gen::on`)
    pub off: Vec<String>,
}

impl Default for GenOpts {
    fn default() -> Self {
        GenOpts {
            max_width: 70,
            inputs: (2, 5),
            outputs: (1, 4),
            combs: (2, 8),
            ffs: (0, 4),
            expr_depth: 3,
            signed: true,
            divmod: true,
            raw_div: false,
            pow: false,
            functions: true,
            structs: true,
            enums: true,
            arrays: true,
            case_stmt: true,
            for_loops: true,
            generate: true,
            instances: true,
            interfaces: false,
            packages: true,
            casts: true,
            inside: true,
            dyn_select: true,
            explicit_clock_reset: false,
            big: 0,
            unreset_ffs: false,
            off: vec![],
        }
    }
}

impl GenOpts {
    /// Plain operators/selects/if only: what every reference model supports.
    pub fn basic() -> Self {
        GenOpts {
            functions: false,
            structs: false,
            enums: false,
            arrays: false,
            case_stmt: false,
            for_loops: false,
            generate: false,
            instances: false,
            interfaces: false,
            packages: false,
            casts: false,
            inside: false,
            dyn_select: false,
            ..Default::default()
        }
    }
    /// Apply `self.off` (plus the comma-separated env var VERIF_GEN_OFF) to the coarse flags.
    pub fn apply_off(&mut self) {
        if let Ok(v) = std::env::var("VERIF_GEN_OFF") {
            for f in v.split(',').filter(|x| !x.is_empty()) {
                if !self.off.iter().any(|x| x == f) {
                    self.off.push(f.to_string());
                }
            }
        }
        for f in self.off.clone() {
            match f.as_str() {
                "signed" => self.signed = false,
                "divmod" => self.divmod = false,
                "functions" => self.functions = false,
                "structs" => self.structs = false,
                "enums" => self.enums = false,
                "arrays" => self.arrays = false,
                "case_stmt" => self.case_stmt = false,
                "for_loops" => self.for_loops = false,
                "generate" => self.generate = false,
                "instances" => self.instances = false,
                "packages" => self.packages = false,
                "casts" => self.casts = false,
                "inside" => self.inside = false,
                "dyn_select" => self.dyn_select = false,
                _ => {}
            }
        }
    }
    pub fn wide() -> Self {
        GenOpts {
            max_width: 300,
            ..Default::default()
        }
    }
}

#[derive(Clone, Debug)]
struct Sig {
    name: String,
    width: usize,
    signed: bool,
    /// unpacked array length (elements are `width` wide)
    array: Option<usize>,
}

struct Gen<'a> {
    rng: &'a mut Rng,
    o: GenOpts,
    feats: Vec<String>,
    /// package-level items text
    pkg: String,
    pkg_consts: Vec<(String, u64)>,
    funcs: Vec<Func>,
    enum_def: Option<EnumDef>,
    struct_def: Option<StructDef>,
    uid: usize,
}

#[derive(Clone, Debug)]
struct Func {
    name: String,
    args: Vec<(usize, bool)>,
    ret: (usize, bool),
}
#[derive(Clone, Debug)]
struct EnumDef {
    name: String,
    width: usize,
    members: Vec<String>,
}
#[derive(Clone, Debug)]
struct StructDef {
    name: String,
    fields: Vec<(String, usize)>,
}

const BOUNDARY_WIDTHS: &[usize] = &[1, 2, 3, 7, 8, 9, 15, 16, 17, 31, 32, 33, 63, 64, 65, 127, 128, 129, 200, 255, 256, 257, 300];

impl<'a> Gen<'a> {
    fn on(&self, f: &str) -> bool {
        !self.o.off.iter().any(|x| x == f)
    }
    fn feat(&mut self, f: &str) {
        if !self.feats.iter().any(|x| x == f) {
            self.feats.push(f.to_string());
        }
    }
    fn fresh(&mut self, p: &str) -> String {
        self.uid += 1;
        format!("{p}{}", self.uid)
    }
    fn width(&mut self) -> usize {
        let m = self.o.max_width.max(1);
        let w = match self.rng.below(10) {
            0..=3 => 1 + self.rng.usize(8.min(m)),
            4..=6 => 1 + self.rng.usize(32.min(m)),
            7 => *self.rng.pick(BOUNDARY_WIDTHS),
            _ => 1 + self.rng.usize(m),
        };
        w.clamp(1, m)
    }
    fn ty(&self, width: usize, signed: bool) -> String {
        let s = if signed { "signed " } else { "" };
        if width == 1 { format!("{s}logic") } else { format!("{s}logic<{width}>") }
    }

    fn literal(&mut self, width_hint: usize) -> String {
        let w = if self.rng.chance(2, 3) { width_hint.clamp(1, 64) } else { 1 + self.rng.usize(64) };
        let v: u64 = match self.rng.below(6) {
            0 => 0,
            1 => 1,
            2 => u64::MAX,
            3 => 1u64 << (w - 1).min(63),
            _ => self.rng.next_u64(),
        };
        let v = if w >= 64 { v } else { v & ((1u64 << w) - 1) };
        match self.rng.below(6) {
            0 => format!("{}", v & 0xffff),
            1 => format!("{w}'d{v}"),
            2 if self.o.signed && self.on("signed_literal") => format!("{w}'sh{v:x}"),
            3 => format!("{w}'b{v:b}"),
            _ => format!("{w}'h{v:x}"),
        }
    }

    /// A reference to a signal, possibly selected.
    fn sigref(&mut self, env: &[Sig]) -> String {
        let s = self.rng.pick(env).clone();
        let mut base = s.name.clone();
        if let Some(n) = s.array {
            let idx = self.rng.usize(n);
            base = format!("{base}[{idx}]");
            self.feat("array_read");
        }
        if s.width > 1 && self.rng.chance(1, 4) && self.on("select") {
            match self.rng.below(4) {
                0 => {
                    let b = self.rng.usize(s.width);
                    self.feat("bit_select");
                    format!("{base}[{b}]")
                }
                1 => {
                    let hi = self.rng.usize(s.width);
                    let lo = self.rng.usize(hi + 1);
                    self.feat("part_select");
                    format!("{base}[{hi}:{lo}]")
                }
                2 => {
                    let w = 1 + self.rng.usize(s.width);
                    let lo = self.rng.usize(s.width - w + 1);
                    self.feat("indexed_part_select");
                    format!("{base}[{lo}+:{w}]")
                }
                _ => {
                    if self.o.dyn_select && s.array.is_none() {
                        // dynamic bit select by a small expression, kept in range by modulo
                        let idx = self.rng.pick(env).clone();
                        if idx.array.is_none() && !idx.signed && idx.width <= 16 {
                            self.feat("dynamic_bit_select");
                            return format!("{base}[{} % {}]", idx.name, s.width);
                        }
                    }
                    base
                }
            }
        } else {
            base
        }
    }

    fn expr(&mut self, env: &[Sig], depth: usize, width_hint: usize) -> String {
        if depth == 0 || self.rng.chance(1, 5) {
            return if self.rng.chance(1, 4) { self.literal(width_hint) } else { self.sigref(env) };
        }
        let d = depth - 1;
        match self.rng.below(24) {
            0..=5 => {
                let mut op = *self.rng.pick(&["+", "-", "&", "|", "^", "~^", "+", "-", "*"]);
                if op == "*" && !self.on("mul") {
                    op = "+";
                }
                if op == "~^" && !self.on("xnor") {
                    op = "^";
                }
                if op == "*" {
                    self.feat("mul");
                }
                format!("({} {} {})", self.expr(env, d, width_hint), op, self.expr(env, d, width_hint))
            }
            6 if self.on("unary") => {
                let op = *self.rng.pick(&["~", "-", "!", "&", "|", "^", "~&", "~|", "~^"]);
                self.feat("unary");
                format!("({}({}))", op, self.expr(env, d, width_hint))
            }
            7 | 8 if self.on("shift") => {
                let op = *self.rng.pick(&["<<", ">>", "<<<", ">>>"]);
                self.feat("shift");
                // shift amount: small literal or a narrow signal
                let amt = if self.rng.bool() {
                    format!("{}", self.rng.below((width_hint as u64 + 3).min(70)))
                } else {
                    let cands: Vec<&Sig> = env.iter().filter(|s| s.array.is_none() && s.width <= 9 && !s.signed).collect();
                    if cands.is_empty() { format!("{}", self.rng.below(9)) } else { self.rng.pick(&cands).name.clone() }
                };
                format!("({} {} {})", self.expr(env, d, width_hint), op, amt)
            }
            9 | 10 if self.on("compare") => {
                let op = *self.rng.pick(&["<:", "<=", ">:", ">=", "==", "!="]);
                self.feat("compare");
                format!("({} {} {})", self.expr(env, d, width_hint), op, self.expr(env, d, width_hint))
            }
            11 if self.on("logical") => {
                let op = *self.rng.pick(&["&&", "||"]);
                self.feat("logical");
                format!("(({} != 0) {} ({} != 0))", self.expr(env, d, width_hint), op, self.expr(env, d, width_hint))
            }
            12 | 13 if self.on("ternary") => {
                self.feat("ternary");
                format!(
                    "(if ({} != 0) ? {} : {})",
                    self.expr(env, d, 4),
                    self.expr(env, d, width_hint),
                    self.expr(env, d, width_hint)
                )
            }
            14 if self.on("concat") => {
                self.feat("concat");
                let n = 2 + self.rng.usize(2);
                let parts: Vec<String> = (0..n).map(|_| self.sigref(env)).collect();
                format!("{{{}}}", parts.join(", "))
            }
            15 if self.on("replicate") => {
                self.feat("replicate");
                let r = 1 + self.rng.usize(4);
                format!("{{{} repeat {}}}", self.sigref(env), r)
            }
            16 if self.o.divmod => {
                let op = *self.rng.pick(&["/", "%"]);
                self.feat("divmod");
                // divisor forced non-zero most of the time (x/0 is X in SV)
                if !self.o.raw_div || self.rng.chance(5, 6) {
                    format!("({} {} ({} | 1))", self.expr(env, d, width_hint), op, self.expr(env, d, width_hint))
                } else {
                    format!("({} {} {})", self.expr(env, d, width_hint), op, self.expr(env, d, width_hint))
                }
            }
            17 if self.o.pow => {
                self.feat("pow");
                format!("({} ** {})", self.sigref(env), self.rng.below(4))
            }
            18 if self.o.casts => {
                self.feat("cast");
                let w = 1 + self.rng.usize(width_hint.max(2) * 2);
                match self.rng.below(3) {
                    0 => format!("(({}) as {})", self.expr(env, d, width_hint), w.min(self.o.max_width)),
                    1 if self.o.signed => format!("$signed({})", self.expr(env, d, width_hint)),
                    _ => format!("$unsigned({})", self.expr(env, d, width_hint)),
                }
            }
            19 if self.o.inside => {
                self.feat("inside");
                let a = self.rng.below(8);
                let b = a + self.rng.below(8);
                let kw = if self.rng.bool() { "inside" } else { "outside" };
                format!("({kw} {} {{{}, {}..={}}})", self.sigref(env), self.rng.below(16), a, b)
            }
            20 if self.o.case_stmt && self.on("case_expr") => {
                self.feat("case_expr");
                let sel = self.sigref(env);
                format!(
                    "(case {} {{ 0: {}, 1, 2: {}, 3..=5: {}, default: {} }})",
                    sel,
                    self.expr(env, d, width_hint),
                    self.expr(env, d, width_hint),
                    self.expr(env, d, width_hint),
                    self.expr(env, d, width_hint)
                )
            }
            21 if self.o.functions && !self.funcs.is_empty() => {
                self.feat("function_call");
                let f = self.rng.pick(&self.funcs.clone()).clone();
                let args: Vec<String> = f.args.iter().map(|(w, _)| self.expr(env, d.min(1), *w)).collect();
                let q = if self.o.packages { "Pkg::" } else { "" };
                format!("{q}{}({})", f.name, args.join(", "))
            }
            22 if !self.pkg_consts.is_empty() && self.on("package_const") => {
                self.feat("package_const");
                let c = self.rng.pick(&self.pkg_consts.clone()).0.clone();
                format!("({} + Pkg::{})", self.expr(env, d, width_hint), c)
            }
            _ => format!("({} + {})", self.expr(env, d, width_hint), self.expr(env, d, width_hint)),
        }
    }

    /// Statements that (re)assign `target` inside an always_comb / always_ff body.
    /// `target` already has a default assignment before these statements.
    fn stmts(&mut self, env: &[Sig], target: &Sig, depth: usize, ind: &str, in_ff: bool) -> String {
        let mut s = String::new();
        let n = 1 + self.rng.usize(2);
        for _ in 0..n {
            s.push_str(&self.stmt(env, target, depth, ind, in_ff));
        }
        s
    }

    fn lhs(&mut self, t: &Sig) -> String {
        if t.width > 1 && self.rng.chance(1, 5) && self.on("partial_write") {
            self.feat("partial_write");
            let hi = self.rng.usize(t.width);
            let lo = self.rng.usize(hi + 1);
            if hi == lo { format!("{}[{}]", t.name, hi) } else { format!("{}[{}:{}]", t.name, hi, lo) }
        } else {
            t.name.clone()
        }
    }

    fn stmt(&mut self, env: &[Sig], t: &Sig, depth: usize, ind: &str, in_ff: bool) -> String {
        let ind2 = format!("{ind}    ");
        let ed = self.o.expr_depth;
        if depth == 0 {
            let l = self.lhs(t);
            return format!("{ind}{} = {};\n", l, self.expr(env, ed, t.width));
        }
        match self.rng.below(10) {
            0..=2 => {
                let l = self.lhs(t);
                if self.rng.chance(1, 5) && l == t.name && self.on("compound_assign") {
                    self.feat("compound_assign");
                    let op = *self.rng.pick(&["+=", "-=", "&=", "|=", "^=", "<<=", ">>="]);
                    let rhs = if op.contains('<') || op.contains('>') { format!("{}", self.rng.below(5)) } else { self.expr(env, ed.min(2), t.width) };
                    format!("{ind}{} {} {};\n", l, op, rhs)
                } else {
                    format!("{ind}{} = {};\n", l, self.expr(env, ed, t.width))
                }
            }
            3 | 4 => {
                self.feat("if_stmt");
                let mut s = format!("{ind}if {} != 0 {{\n", self.expr(env, 2, 4));
                s.push_str(&self.stmts(env, t, depth - 1, &ind2, in_ff));
                if self.rng.bool() {
                    s.push_str(&format!("{ind}}} else if {} {{\n", self.bool_expr(env)));
                    s.push_str(&self.stmts(env, t, depth - 1, &ind2, in_ff));
                }
                if self.rng.bool() {
                    s.push_str(&format!("{ind}}} else {{\n"));
                    s.push_str(&self.stmts(env, t, depth - 1, &ind2, in_ff));
                }
                s.push_str(&format!("{ind}}}\n"));
                s
            }
            5 if self.o.case_stmt => {
                self.feat("case_stmt");
                let sel = self.sigref(env);
                let mut s = format!("{ind}case {} {{\n", sel);
                let arms = 1 + self.rng.usize(3);
                let mut used = 0u64;
                for _ in 0..arms {
                    let a = used;
                    let b = a + self.rng.below(3);
                    used = b + 1;
                    let label = match self.rng.below(3) {
                        0 => format!("{a}"),
                        1 => format!("{a}..={b}"),
                        _ => format!("{a}, {b}"),
                    };
                    s.push_str(&format!("{ind2}{}: {{\n", label));
                    s.push_str(&self.stmts(env, t, depth - 1, &format!("{ind2}    "), in_ff));
                    s.push_str(&format!("{ind2}}}\n"));
                }
                if self.rng.bool() {
                    s.push_str(&format!("{ind2}default: {{\n"));
                    s.push_str(&self.stmts(env, t, depth - 1, &format!("{ind2}    "), in_ff));
                    s.push_str(&format!("{ind2}}}\n"));
                }
                s.push_str(&format!("{ind}}}\n"));
                s
            }
            6 if self.o.case_stmt && self.on("switch_stmt") => {
                self.feat("switch_stmt");
                let mut s = format!("{ind}switch {{\n");
                let arms = 1 + self.rng.usize(3);
                for _ in 0..arms {
                    s.push_str(&format!("{ind2}{}: {{\n", self.bool_expr(env)));
                    s.push_str(&self.stmts(env, t, depth - 1, &format!("{ind2}    "), in_ff));
                    s.push_str(&format!("{ind2}}}\n"));
                }
                if self.rng.bool() {
                    s.push_str(&format!("{ind2}default: {{\n"));
                    s.push_str(&self.stmts(env, t, depth - 1, &format!("{ind2}    "), in_ff));
                    s.push_str(&format!("{ind2}}}\n"));
                }
                s.push_str(&format!("{ind}}}\n"));
                s
            }
            7 if self.o.for_loops && t.width > 1 => {
                self.feat("for_stmt");
                let n = 1 + self.rng.usize(t.width.min(8));
                let v = self.fresh("k");
                let rev = if self.rng.chance(1, 4) { "rev " } else { "" };
                let mut s = format!("{ind}for {v} in {rev}0..{n} {{\n");
                let src = self.sigref(env);
                match self.rng.below(3) {
                    0 => s.push_str(&format!("{ind2}{}[{v}] = ^({} >> {v});\n", t.name, src)),
                    1 => s.push_str(&format!("{ind2}{}[{v}] = {}[{v}] ^ {};\n", t.name, t.name, self.bool_expr(env))),
                    _ => {
                        s.push_str(&format!("{ind2}{}[{v}] = ~{}[{v}];\n", t.name, t.name));
                        if self.rng.bool() {
                            self.feat("break");
                            s.push_str(&format!("{ind2}if {v} == {} {{\n{ind2}    break;\n{ind2}}}\n", self.rng.usize(n)));
                        }
                    }
                }
                s.push_str(&format!("{ind}}}\n"));
                s
            }
            _ => {
                let l = self.lhs(t);
                format!("{ind}{} = {};\n", l, self.expr(env, ed, t.width))
            }
        }
    }

    fn bool_expr(&mut self, env: &[Sig]) -> String {
        let op = *self.rng.pick(&["==", "!=", "<:", ">=", ">:", "<="]);
        format!("{} {} {}", self.sigref(env), op, self.expr(env, 1, 4))
    }

    fn gen_package(&mut self) {
        if !self.o.packages && !self.o.functions && !self.o.enums && !self.o.structs {
            return;
        }
        let mut p = String::new();
        if self.o.packages {
            let n = 1 + self.rng.usize(3);
            for i in 0..n {
                let v = self.rng.below(200);
                let name = format!("C{i}");
                p.push_str(&format!("    const {name}: u32 = {v};\n"));
                self.pkg_consts.push((name, v));
            }
        }
        if self.o.enums && self.rng.bool() {
            let n = 2 + self.rng.usize(4);
            let w = 3;
            let members: Vec<String> = (0..n).map(|i| format!("M{i}")).collect();
            p.push_str(&format!("    enum Mode: logic<{w}> {{\n"));
            for m in &members {
                p.push_str(&format!("        {m},\n"));
            }
            p.push_str("    }\n");
            self.enum_def = Some(EnumDef { name: "Mode".into(), width: w, members });
        }
        if self.o.structs && self.rng.bool() {
            let n = 2 + self.rng.usize(3);
            let mut fields = vec![];
            p.push_str("    struct Rec {\n");
            for i in 0..n {
                let w = 1 + self.rng.usize(12);
                p.push_str(&format!("        f{i}: logic<{w}>,\n"));
                fields.push((format!("f{i}"), w));
            }
            p.push_str("    }\n");
            self.struct_def = Some(StructDef { name: "Rec".into(), fields });
        }
        if self.o.functions {
            let n = self.rng.usize(3);
            for i in 0..n {
                let nargs = 1 + self.rng.usize(3);
                let args: Vec<(usize, bool)> = (0..nargs).map(|_| (1 + self.rng.usize(24), self.o.signed && self.rng.chance(1, 4))).collect();
                let ret = (1 + self.rng.usize(24), self.o.signed && self.rng.chance(1, 4));
                let name = format!("fn{i}");
                p.push_str(&format!("    function {name} (\n"));
                let mut env = vec![];
                for (k, (w, s)) in args.iter().enumerate() {
                    p.push_str(&format!("        a{k}: input {},\n", self.ty(*w, *s)));
                    env.push(Sig { name: format!("a{k}"), width: *w, signed: *s, array: None });
                }
                p.push_str(&format!("    ) -> {} {{\n", self.ty(ret.0, ret.1)));
                // body: local var with default + statements, then return
                let save_funcs = std::mem::take(&mut self.funcs); // no recursion / forward calls
                let save_consts = std::mem::take(&mut self.pkg_consts);
                let t = Sig { name: "r".into(), width: ret.0, signed: ret.1, array: None };
                p.push_str(&format!("        var r: {};\n", self.ty(ret.0, ret.1)));
                let e0 = self.expr(&env, 2, ret.0);
                p.push_str(&format!("        r = {};\n", e0));
                let mut env2 = env.clone();
                env2.push(t.clone());
                let save = (self.o.for_loops, self.o.case_stmt);
                self.o.for_loops = false;
                let body = self.stmts(&env2, &t, 1, "        ", false);
                self.o.for_loops = save.0;
                p.push_str(&body);
                p.push_str("        return r;\n    }\n");
                self.funcs = save_funcs;
                self.pkg_consts = save_consts;
                self.funcs.push(Func { name, args, ret });
            }
        }
        if !p.is_empty() {
            self.pkg = format!("package Pkg {{\n{p}}}\n\n");
            self.o.packages = true; // functions/enums/structs live in Pkg
            self.feat("package");
        }
    }
}

/// Generate one design.
pub fn generate(rng: &mut Rng, opts: &GenOpts) -> Design {
    let mut opts = opts.clone();
    opts.apply_off();
    let opts = &opts;
    let mut g = Gen {
        rng,
        o: opts.clone(),
        feats: vec![],
        pkg: String::new(),
        pkg_consts: vec![],
        funcs: vec![],
        enum_def: None,
        struct_def: None,
        uid: 0,
    };
    g.gen_package();

    let n_in = g.rng.range(opts.inputs.0 as i64, opts.inputs.1 as i64) as usize;
    let n_out = g.rng.range(opts.outputs.0 as i64, opts.outputs.1 as i64) as usize;
    let n_comb = g.rng.range(opts.combs.0 as i64, opts.combs.1 as i64) as usize;
    let n_ff = g.rng.range(opts.ffs.0 as i64, opts.ffs.1 as i64) as usize;

    let (clk_ty, rst_ty) = if opts.explicit_clock_reset && g.rng.bool() {
        g.feat("explicit_clock_reset_types");
        (
            g.rng.pick(&["clock_posedge", "clock_negedge"]).to_string(),
            g.rng.pick(&["reset_async_high", "reset_async_low", "reset_sync_high", "reset_sync_low"]).to_string(),
        )
    } else {
        ("clock".to_string(), "reset".to_string())
    };

    let mut inputs = vec![];
    let mut env: Vec<Sig> = vec![];
    for i in 0..n_in {
        let w = g.width();
        let s = g.o.signed && g.rng.chance(1, 4);
        inputs.push(Port { name: format!("i{i}"), width: w, signed: s, output: false });
        env.push(Sig { name: format!("i{i}"), width: w, signed: s, array: None });
    }

    let mut decl = String::new();
    let mut body = String::new();

    // flip-flops first (their outputs may be read by anything)
    let mut ffs: Vec<Sig> = vec![];
    for i in 0..n_ff {
        let w = g.width();
        let s = g.o.signed && g.rng.chance(1, 5);
        let arr = if g.o.arrays && g.rng.chance(1, 6) { Some(2 + g.rng.usize(3)) } else { None };
        let sig = Sig { name: format!("r{i}"), width: w, signed: s, array: arr };
        match arr {
            Some(n) => {
                g.feat("ff_array");
                decl.push_str(&format!("    var {}: {} [{}];\n", sig.name, g.ty(w, s), n));
            }
            None => decl.push_str(&format!("    var {}: {};\n", sig.name, g.ty(w, s))),
        }
        ffs.push(sig);
    }
    let env_with_ffs: Vec<Sig> = env.iter().cloned().chain(ffs.iter().cloned()).collect();
    let mut env = env_with_ffs;

    // optional interface instance used as a bundle of wires
    // (kept simple: var-only interface, driven and read by Top)

    // combinational signals in dependency order
    let mut sub_modules = String::new();
    for i in 0..n_comb {
        let w = g.width();
        let s = g.o.signed && g.rng.chance(1, 5);
        let name = format!("c{i}");
        let sig = Sig { name: name.clone(), width: w, signed: s, array: None };
        let ed = g.o.expr_depth;
        match g.rng.below(12) {
            0..=3 => {
                decl.push_str(&format!("    var {name}: {};\n", g.ty(w, s)));
                body.push_str(&format!("    assign {name} = {};\n", g.expr(&env, ed, w)));
                g.feat("assign");
            }
            4 => {
                body.push_str(&format!("    let {name}: {} = {};\n", g.ty(w, s), g.expr(&env, ed, w)));
                g.feat("let");
            }
            5..=7 => {
                decl.push_str(&format!("    var {name}: {};\n", g.ty(w, s)));
                body.push_str("    always_comb {\n");
                body.push_str(&format!("        {name} = {};\n", g.expr(&env, ed, w)));
                // after the default, the target itself may be read (sequential reassignment)
                let mut env2 = env.clone();
                env2.push(sig.clone());
                body.push_str(&g.stmts(&env2, &sig, 2, "        ", false));
                body.push_str("    }\n");
                g.feat("always_comb");
            }
            8 if g.o.arrays => {
                // unpacked array written element-wise at constant indices, read back
                let n = 2 + g.rng.usize(3);
                let an = format!("a{i}");
                decl.push_str(&format!("    var {an}: {} [{n}];\n", g.ty(w, s)));
                for k in 0..n {
                    body.push_str(&format!("    assign {an}[{k}] = {};\n", g.expr(&env, ed.min(2), w)));
                }
                decl.push_str(&format!("    var {name}: {};\n", g.ty(w, s)));
                let idx = env.iter().find(|x| x.array.is_none() && !x.signed && x.width <= 8).map(|x| x.name.clone());
                match idx {
                    Some(ix) if g.o.dyn_select => {
                        g.feat("array_dynamic_index");
                        body.push_str(&format!("    assign {name} = {an}[{ix} % {n}];\n"));
                    }
                    _ => body.push_str(&format!("    assign {name} = {an}[{}];\n", g.rng.usize(n))),
                }
                g.feat("array");
            }
            9 if g.o.structs && g.struct_def.is_some() => {
                let sd = g.struct_def.clone().unwrap();
                let sn = format!("s{i}");
                decl.push_str(&format!("    var {sn}: Pkg::{};\n", sd.name));
                for (f, fw) in &sd.fields {
                    body.push_str(&format!("    assign {sn}.{f} = {};\n", g.expr(&env, ed.min(2), *fw)));
                }
                let total: usize = sd.fields.iter().map(|x| x.1).sum();
                decl.push_str(&format!("    var {name}: {};\n", g.ty(w, s)));
                if g.rng.bool() {
                    let (f, _) = g.rng.pick(&sd.fields).clone();
                    body.push_str(&format!("    assign {name} = {sn}.{f};\n"));
                } else {
                    body.push_str(&format!("    assign {name} = {sn}; // {total} bits\n"));
                }
                g.feat("struct");
            }
            10 if g.o.enums && g.enum_def.is_some() => {
                let ed_ = g.enum_def.clone().unwrap();
                let en = format!("e{i}");
                decl.push_str(&format!("    var {en}: Pkg::{};\n", ed_.name));
                let sel = g.sigref(&env);
                body.push_str("    always_comb {\n");
                body.push_str(&format!("        case {sel} {{\n"));
                for (k, m) in ed_.members.iter().enumerate().skip(1) {
                    body.push_str(&format!("            {k}: {en} = Pkg::{}::{m};\n", ed_.name));
                }
                body.push_str(&format!("            default: {en} = Pkg::{}::{};\n", ed_.name, ed_.members[0]));
                body.push_str("        }\n    }\n");
                decl.push_str(&format!("    var {name}: {};\n", g.ty(w, s)));
                let m = g.rng.pick(&ed_.members).clone();
                body.push_str(&format!(
                    "    assign {name} = if {en} == Pkg::{}::{m} ? {} : {};\n",
                    ed_.name,
                    g.expr(&env, 2, w),
                    g.expr(&env, 2, w)
                ));
                let _ = ed_.width;
                g.feat("enum");
            }
            11 if g.o.instances => {
                // a sub-module with a parameterised width, combinational or registered
                let sub = format!("Sub{i}");
                let pw = 1 + g.rng.usize(16);
                let registered = g.rng.bool();
                let inner_env = vec![
                    Sig { name: "a".into(), width: pw, signed: false, array: None },
                    Sig { name: "b".into(), width: pw, signed: false, array: None },
                ];
                let save = (g.o.functions, g.o.dyn_select);
                let e = g.expr(&inner_env, 2, pw);
                g.o.functions = save.0;
                sub_modules.push_str(&format!(
                    "module {sub} #(\n    param W: u32 = 4,\n) (\n    i_clk: input {clk_ty},\n    i_rst: input {rst_ty},\n    a: input logic<W>,\n    b: input logic<W>,\n    y: output logic<W>,\n) {{\n"
                ));
                if registered {
                    sub_modules.push_str(&format!(
                        "    always_ff {{\n        if_reset {{\n            y = 0;\n        }} else {{\n            y = {e};\n        }}\n    }}\n}}\n\n"
                    ));
                } else {
                    sub_modules.push_str(&format!("    assign y = {e};\n}}\n\n"));
                }
                let y = format!("y{i}");
                decl.push_str(&format!("    var {y}: logic<{pw}>;\n"));
                let ea = g.expr(&env, 2, pw);
                let eb = g.sigref(&env);
                body.push_str(&format!(
                    "    inst u{i}: {sub} #(W: {pw}) (\n        i_clk,\n        i_rst,\n        a: {ea},\n        b: {eb},\n        y: {y},\n    );\n"
                ));
                decl.push_str(&format!("    var {name}: {};\n", g.ty(w, s)));
                body.push_str(&format!("    assign {name} = {y};\n"));
                g.feat(if registered { "instance_registered" } else { "instance_comb" });
            }
            _ => {
                if g.o.generate && w > 1 && w <= 64 {
                    decl.push_str(&format!("    var {name}: {};\n", g.ty(w, s)));
                    let src = g.sigref(&env);
                    let lab = format!("g{i}");
                    body.push_str(&format!("    for k in 0..{w} :{lab} {{\n"));
                    if g.rng.bool() {
                        body.push_str(&format!("        assign {name}[k] = ^({src} >> k);\n"));
                    } else {
                        body.push_str(&format!(
                            "        if k % 2 == 0 :ge {{\n            assign {name}[k] = |({src} >> k);\n        }} else {{\n            assign {name}[k] = &({src} >> k);\n        }}\n"
                        ));
                        g.feat("generate_if");
                    }
                    body.push_str("    }\n");
                    g.feat("generate_for");
                } else {
                    decl.push_str(&format!("    var {name}: {};\n", g.ty(w, s)));
                    body.push_str(&format!("    assign {name} = {};\n", g.expr(&env, ed, w)));
                }
            }
        }
        env.push(sig);
    }

    // flip-flop processes: may read every signal (no loop through a FF)
    for f in &ffs {
        let ed = g.o.expr_depth;
        let header = match g.rng.below(3) {
            0 => "always_ff".to_string(),
            1 => "always_ff (i_clk)".to_string(),
            _ => "always_ff (i_clk, i_rst)".to_string(),
        };
        let readable: Vec<Sig> = env.iter().filter(|x| x.name != f.name || f.array.is_none()).cloned().collect();
        body.push_str(&format!("    {header} {{\n"));
        let unreset = g.o.unreset_ffs && g.rng.chance(1, 4);
        match f.array {
            Some(n) => {
                body.push_str("        if_reset {\n");
                for k in 0..n {
                    body.push_str(&format!("            {}[{k}] = {};\n", f.name, g.literal(f.width)));
                }
                body.push_str("        } else {\n");
                let ro: Vec<Sig> = readable.iter().filter(|x| x.name != f.name).cloned().collect();
                let idx = ro.iter().find(|x| x.array.is_none() && !x.signed && x.width <= 8).map(|x| x.name.clone());
                match idx {
                    Some(ix) if g.o.dyn_select && g.rng.bool() => {
                        g.feat("ff_array_dynamic_write");
                        body.push_str(&format!("            {}[{ix} % {n}] = {};\n", f.name, g.expr(&ro, ed, f.width)));
                    }
                    _ => {
                        for k in 0..n {
                            if g.rng.bool() {
                                body.push_str(&format!("            {}[{k}] = {};\n", f.name, g.expr(&ro, ed, f.width)));
                            }
                        }
                    }
                }
                body.push_str("        }\n");
            }
            None => {
                let t = Sig { array: None, ..f.clone() };
                if unreset {
                    g.feat("ff_without_reset");
                    body.push_str(&g.stmts(&readable, &t, 2, "        ", true));
                } else {
                    body.push_str("        if_reset {\n");
                    body.push_str(&format!("            {} = {};\n", f.name, g.literal(f.width)));
                    if g.rng.chance(2, 3) {
                        body.push_str("        } else {\n");
                        body.push_str(&g.stmts(&readable, &t, 2, "            ", true));
                    } else {
                        body.push_str(&format!("        }} else if {} {{\n", g.bool_expr(&readable)));
                        body.push_str(&g.stmts(&readable, &t, 1, "            ", true));
                        g.feat("ff_enable");
                    }
                    body.push_str("        }\n");
                }
            }
        }
        body.push_str("    }\n");
        g.feat("always_ff");
    }

    // big mode: replicate a registered lane through generate-for
    if g.o.big > 0 {
        let lanes = g.o.big;
        let w = 8 + g.rng.usize(24);
        decl.push_str(&format!("    var lane_q: logic<{w}> [{lanes}];\n    var lane_d: logic<{w}> [{lanes}];\n"));
        let src = g.sigref(&env);
        let src2 = g.sigref(&env);
        body.push_str(&format!("    for k in 0..{lanes} :lanes {{\n"));
        body.push_str(&format!(
            "        always_comb {{\n            lane_d[k] = (({src} + k) ^ ({src2} >> (k % 7))) + lane_q[(k + {}) % {lanes}];\n        }}\n",
            lanes - 1
        ));
        body.push_str("        always_ff {\n            if_reset {\n                lane_q[k] = 0;\n            } else {\n                lane_q[k] = lane_d[k];\n            }\n        }\n    }\n");
        decl.push_str(&format!("    var lane_o: logic<{w}>;\n    assign lane_o = lane_q[{}];\n", lanes - 1));
        env.push(Sig { name: "lane_o".into(), width: w, signed: false, array: None });
        g.feat("big_lanes");
    }

    // outputs: each driven from a distinct expression over everything
    let mut outputs = vec![];
    let scalar_env: Vec<Sig> = env.clone();
    for i in 0..n_out {
        let w = g.width();
        let s = g.o.signed && g.rng.chance(1, 4);
        let name = format!("o{i}");
        outputs.push(Port { name: name.clone(), width: w, signed: s, output: true });
        let ed = g.o.expr_depth;
        // bias: make sure late signals are observable
        let e = if i < 2 && scalar_env.len() > 2 {
            let a = scalar_env[scalar_env.len() - 1 - i].clone();
            let aref = if let Some(n) = a.array { format!("{}[{}]", a.name, g.rng.usize(n)) } else { a.name.clone() };
            format!("{} ^ {}", aref, g.expr(&scalar_env, ed, w))
        } else {
            g.expr(&scalar_env, ed, w)
        };
        body.push_str(&format!("    assign {name} = {e};\n"));
    }

    let mut text = String::new();
    text.push_str(&g.pkg);
    text.push_str(&sub_modules);
    text.push_str("module Top (\n");
    text.push_str(&format!("    i_clk: input {clk_ty},\n    i_rst: input {rst_ty},\n"));
    for p in &inputs {
        text.push_str(&format!("    {}: input {},\n", p.name, g.ty(p.width, p.signed)));
    }
    for p in &outputs {
        text.push_str(&format!("    {}: output {},\n", p.name, g.ty(p.width, p.signed)));
    }
    text.push_str(") {\n");
    text.push_str(&decl);
    text.push_str(&body);
    text.push_str("}\n");

    let has_ff = !ffs.is_empty() || g.o.big > 0 || g.feats.iter().any(|f| f == "instance_registered");
    Design {
        text,
        top: "Top".into(),
        clock: "i_clk".into(),
        reset: "i_rst".into(),
        inputs,
        outputs,
        features: g.feats,
        has_ff,
    }
}

impl Design {
    /// Rebuild the port lists from the `module Top ( … ) {` header of a text in
    /// DesignGen's own layout (one port per line).  Used by replay / reduction.
    pub fn from_text(text: &str) -> Design {
        let mut inputs = vec![];
        let mut outputs = vec![];
        let mut in_hdr = false;
        for l in text.lines() {
            if l.starts_with("module Top") {
                in_hdr = true;
                continue;
            }
            if in_hdr {
                if l.starts_with(") {") {
                    break;
                }
                let l = l.trim().trim_end_matches(',');
                let Some((name, rest)) = l.split_once(':') else { continue };
                let rest = rest.trim();
                let (output, ty) = if let Some(t) = rest.strip_prefix("input") {
                    (false, t.trim())
                } else if let Some(t) = rest.strip_prefix("output") {
                    (true, t.trim())
                } else {
                    continue;
                };
                if ty.contains("clock") || ty.contains("reset") {
                    continue;
                }
                let signed = ty.starts_with("signed");
                let width = ty
                    .split_once('<')
                    .and_then(|(_, r)| r.split_once('>'))
                    .and_then(|(w, _)| w.trim().parse::<usize>().ok())
                    .unwrap_or(1);
                let p = Port { name: name.trim().to_string(), width, signed, output };
                if output { outputs.push(p) } else { inputs.push(p) }
            }
        }
        Design {
            text: text.to_string(),
            top: "Top".into(),
            clock: "i_clk".into(),
            reset: "i_rst".into(),
            inputs,
            outputs,
            features: vec![],
            has_ff: text.contains("always_ff"),
        }
    }
}
