//! Witness reduction for generated designs: delta debugging over lines, then
//! over parenthesised sub-expressions.  `keep(text)` must return true when the
//! candidate text still shows the failure being reduced (it is responsible for
//! re-running the analyzer and rejecting candidates that no longer compile).

/// Lines of the `module Top ( … ) {` header are protected so the port list
/// (which the stimulus refers to) stays intact.
fn protected(lines: &[String]) -> Vec<bool> {
    let mut p = vec![false; lines.len()];
    let mut in_hdr = false;
    for (i, l) in lines.iter().enumerate() {
        if l.starts_with("module Top") {
            in_hdr = true;
        }
        if in_hdr {
            p[i] = true;
            if l.starts_with(") {") {
                in_hdr = false;
            }
        }
    }
    p
}

fn balanced(text: &str) -> bool {
    let mut depth: i64 = 0;
    for c in text.chars() {
        match c {
            '{' | '(' | '[' => depth += 1,
            '}' | ')' | ']' => {
                depth -= 1;
                if depth < 0 {
                    return false;
                }
            }
            _ => {}
        }
    }
    depth == 0
}

pub fn reduce(text: &str, keep: &mut dyn FnMut(&str) -> bool, max_tests: usize) -> String {
    let mut tests = 0usize;
    let mut lines: Vec<String> = text.lines().map(|s| s.to_string()).collect();
    // phase 1: line chunks
    let mut chunk = lines.len() / 2;
    while chunk >= 1 && tests < max_tests {
        let mut i = 0;
        let mut progress = false;
        while i < lines.len() && tests < max_tests {
            let prot = protected(&lines);
            let end = (i + chunk).min(lines.len());
            if prot[i..end].iter().any(|x| *x) {
                i += 1;
                continue;
            }
            let mut cand = lines.clone();
            cand.drain(i..end);
            let t = cand.join("\n") + "\n";
            if balanced(&t) {
                tests += 1;
                if keep(&t) {
                    lines = cand;
                    progress = true;
                    continue;
                }
            }
            i += chunk.max(1);
        }
        if !progress || chunk == 1 {
            if chunk == 1 && progress {
                continue;
            }
            chunk /= 2;
        }
    }
    // phase 1b: remove any self-balanced line range (a statement, a whole block, an
    // `else` arm together with its body …), longest first, until nothing more goes.
    let mut progress = true;
    while progress && tests < max_tests {
        progress = false;
        let mut i = 0;
        while i < lines.len() && tests < max_tests {
            let prot = protected(&lines);
            if prot[i] {
                i += 1;
                continue;
            }
            let mut removed = false;
            let jmax = (i + 80).min(lines.len() - 1);
            let mut tried_plain = false;
            for j in i..=jmax {
                if prot[i..=j].iter().any(|x| *x) {
                    break;
                }
                if tried_plain {
                    break;
                }
                let seg = lines[i..=j].join("\n");
                // the removed range must be balanced on its own, or be an
                // "} else … {" arm: starts with '}' and ends with '{' at equal depth
                let arm = lines[i].trim_start().starts_with('}') && lines[j].trim_end().ends_with('{');
                let ok = if arm {
                    let inner = if j > i { lines[i + 1..j].join("\n") } else { String::new() };
                    balanced(&inner) && lines[j + 1..].first().is_some()
                } else {
                    balanced(&seg)
                };
                if !ok {
                    continue;
                }
                // only the shortest balanced range starting at i is tried
                tried_plain = true;
                let mut cand = lines.clone();
                if arm {
                    // drop the arm header and its body, keep the closing brace that follows
                    let mut depth = 0i64;
                    let mut k = j + 1;
                    while k < cand.len() {
                        for c in cand[k].chars() {
                            match c {
                                '{' => depth += 1,
                                '}' => depth -= 1,
                                _ => {}
                            }
                        }
                        if depth < 0 {
                            break;
                        }
                        k += 1;
                    }
                    if k >= cand.len() {
                        continue;
                    }
                    // cand[k] closes the arm: remove [i, k) and keep cand[k] if it is a bare "}"
                    if cand[k].trim() != "}" {
                        continue;
                    }
                    cand.drain(i..k);
                } else {
                    cand.drain(i..=j);
                }
                let t = cand.join("\n") + "\n";
                if !balanced(&t) {
                    continue;
                }
                tests += 1;
                if keep(&t) {
                    lines = cand;
                    progress = true;
                    removed = true;
                    break;
                }
                if tests >= max_tests {
                    break;
                }
            }
            if !removed {
                i += 1;
            }
        }
    }
    // phase 2: replace parenthesised groups by something smaller
    let mut text = lines.join("\n") + "\n";
    let mut changed = true;
    while changed && tests < max_tests {
        changed = false;
        let bytes: Vec<char> = text.chars().collect();
        let mut groups: Vec<(usize, usize)> = vec![];
        let mut stack = vec![];
        for (i, c) in bytes.iter().enumerate() {
            if *c == '(' {
                stack.push(i);
            } else if *c == ')' {
                if let Some(s) = stack.pop() {
                    groups.push((s, i));
                }
            }
        }
        // larger groups first
        groups.sort_by_key(|(s, e)| std::cmp::Reverse(e - s));
        'outer: for (s, e) in groups {
            if e - s < 4 {
                continue;
            }
            let inner: String = bytes[s + 1..e].iter().collect();
            // skip port lists / argument lists of declarations
            let before: String = bytes[..s].iter().rev().take(12).collect::<String>().chars().rev().collect();
            if before.contains("Top") || before.contains("always_ff") || before.trim_end().ends_with(')') {
                continue;
            }
            let mut alts: Vec<String> = vec!["0".into(), "1".into()];
            // direct child groups and bare tokens
            let mut depth = 0;
            let mut cs = 0;
            for (k, c) in inner.chars().enumerate() {
                if c == '(' {
                    if depth == 0 {
                        cs = k;
                    }
                    depth += 1;
                } else if c == ')' {
                    depth -= 1;
                    if depth == 0 {
                        alts.push(inner[cs..=k].to_string());
                    }
                }
            }
            for tok in inner.split(|c: char| !(c.is_alphanumeric() || c == '_' || c == '\'')) {
                if !tok.is_empty() && tok.len() < inner.len() && alts.len() < 12 && !["if", "repeat", "inside", "outside", "case", "default", "as"].contains(&tok) {
                    alts.push(tok.to_string());
                }
            }
            for a in alts {
                if a.len() + 2 >= e - s + 1 {
                    continue;
                }
                let cand: String = bytes[..s].iter().collect::<String>() + "(" + &a + ")" + &bytes[e + 1..].iter().collect::<String>();
                tests += 1;
                if keep(&cand) {
                    text = cand;
                    changed = true;
                    break 'outer;
                }
                if tests >= max_tests {
                    break 'outer;
                }
            }
        }
    }
    text
}
