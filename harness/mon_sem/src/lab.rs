//! Shared plumbing for the three "labs" (C14 LoopLab, C15 AssignLab, C16 CdcLab):
//! run the real analyzer on a generated text (must be called on a fresh
//! thread), reduce diagnostics to comparable records, tiny graph helpers.

use std::collections::BTreeMap;
use vcommon::pipeline::{Analyzed, PipeError, analyze_one, default_metadata, diag_rec};
use vcommon::{Json, json};

#[derive(Clone, Debug)]
pub struct Diag {
    pub code: String,
    pub error: bool,
    pub message: String,
}

#[derive(Clone, Debug, Default)]
pub struct AnOut {
    pub parse_error: Option<String>,
    pub diags: Vec<Diag>,
}

impl AnOut {
    pub fn has(&self, code: &str) -> bool {
        self.diags.iter().any(|d| d.code == code)
    }
    pub fn count(&self, code: &str) -> usize {
        self.diags.iter().filter(|d| d.code == code).count()
    }
    /// error-level codes other than the listed ones
    pub fn other_errors(&self, except: &[&str]) -> Vec<String> {
        let mut v: Vec<String> = self
            .diags
            .iter()
            .filter(|d| d.error && !except.contains(&d.code.as_str()))
            .map(|d| d.code.clone())
            .collect();
        v.sort();
        v.dedup();
        v
    }
    /// all codes (warnings too) other than the listed ones
    pub fn other_codes(&self, except: &[&str]) -> Vec<String> {
        let mut v: Vec<String> = self
            .diags
            .iter()
            .filter(|d| !except.contains(&d.code.as_str()))
            .map(|d| d.code.clone())
            .collect();
        v.sort();
        v.dedup();
        v
    }
    pub fn json(&self) -> Json {
        let mut v = vec![];
        for d in &self.diags {
            v.push(json!({"code": d.code, "error": d.error, "message": d.message}));
        }
        json!({"parse_error": self.parse_error, "diagnostics": v})
    }
}

/// Parse + analyze `text` as a one-file project.  Returns the reduced
/// diagnostics and the `Analyzed` object (None on a parse error).
pub fn analyze(text: &str) -> (AnOut, Option<Analyzed>) {
    let md = default_metadata();
    match analyze_one(text, &md) {
        Err(PipeError::Parse { message, .. }) => (
            AnOut {
                parse_error: Some(message),
                diags: vec![],
            },
            None,
        ),
        Ok(a) => {
            let mut diags = vec![];
            for e in &a.errors {
                let r = diag_rec(e);
                diags.push(Diag {
                    code: r.code,
                    error: r.error,
                    message: r.message,
                });
            }
            (
                AnOut {
                    parse_error: None,
                    diags,
                },
                Some(a),
            )
        }
    }
}

/// Directed graph on dense u32 node ids.
#[derive(Clone, Debug, Default)]
pub struct Graph {
    pub adj: Vec<Vec<(u32, u32)>>, // (target, label)
    pub names: Vec<String>,
}

impl Graph {
    pub fn node(&mut self, name: String) -> u32 {
        self.adj.push(vec![]);
        self.names.push(name);
        (self.adj.len() - 1) as u32
    }
    pub fn edge(&mut self, s: u32, t: u32, label: u32) {
        if !self.adj[s as usize].iter().any(|(x, _)| *x == t) {
            self.adj[s as usize].push((t, label));
        }
    }
    pub fn edges(&self) -> usize {
        self.adj.iter().map(|a| a.len()).sum()
    }

    /// A shortest cycle (as a node list n0 -> n1 -> … -> n0, with the labels of
    /// the edges taken), or None when the graph is acyclic.
    pub fn find_cycle(&self) -> Option<(Vec<u32>, Vec<u32>)> {
        let n = self.adj.len();
        let mut best: Option<(Vec<u32>, Vec<u32>)> = None;
        for s in 0..n as u32 {
            // BFS from s back to s
            let mut prev: Vec<Option<(u32, u32)>> = vec![None; n];
            let mut seen = vec![false; n];
            let mut q = std::collections::VecDeque::new();
            q.push_back(s);
            seen[s as usize] = true;
            let mut found: Option<(u32, u32)> = None; // (last node, label of last->s)
            'bfs: while let Some(u) = q.pop_front() {
                for &(v, l) in &self.adj[u as usize] {
                    if v == s {
                        found = Some((u, l));
                        break 'bfs;
                    }
                    if !seen[v as usize] {
                        seen[v as usize] = true;
                        prev[v as usize] = Some((u, l));
                        q.push_back(v);
                    }
                }
            }
            if let Some((last, l)) = found {
                let mut nodes = vec![last];
                let mut labels = vec![l];
                let mut cur = last;
                while cur != s {
                    let (p, pl) = prev[cur as usize].unwrap();
                    nodes.push(p);
                    labels.push(pl);
                    cur = p;
                }
                nodes.reverse();
                labels.reverse();
                // nodes: s … last ; labels[i] = label of edge nodes[i] -> nodes[i+1] (last one closes to s)
                if best.as_ref().is_none_or(|b| nodes.len() < b.0.len()) {
                    best = Some((nodes, labels));
                }
            }
        }
        best
    }

    pub fn is_cyclic(&self) -> bool {
        // iterative colour DFS
        let n = self.adj.len();
        let mut colour = vec![0u8; n];
        for s in 0..n {
            if colour[s] != 0 {
                continue;
            }
            let mut stack: Vec<(usize, usize)> = vec![(s, 0)];
            colour[s] = 1;
            while let Some((u, i)) = stack.pop() {
                if i < self.adj[u].len() {
                    stack.push((u, i + 1));
                    let v = self.adj[u][i].0 as usize;
                    if colour[v] == 1 {
                        return true;
                    }
                    if colour[v] == 0 {
                        colour[v] = 1;
                        stack.push((v, 0));
                    }
                } else {
                    colour[u] = 2;
                }
            }
        }
        false
    }
}

/// Feature histogram helper: counts per feature name, written to the evidence
/// with `run.set_extra`.
#[derive(Default)]
pub struct Hist(pub std::sync::Mutex<BTreeMap<String, u64>>);

impl Hist {
    pub fn add(&self, k: &str) {
        *self.0.lock().unwrap().entry(k.to_string()).or_insert(0) += 1;
    }
    pub fn json(&self) -> Json {
        let m = self.0.lock().unwrap();
        let mut o = serde_json::Map::new();
        for (k, v) in m.iter() {
            o.insert(k.clone(), json!(v));
        }
        Json::Object(o)
    }
    pub fn get(&self, k: &str) -> u64 {
        *self.0.lock().unwrap().get(k).unwrap_or(&0)
    }
}
