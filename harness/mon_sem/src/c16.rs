//! C16 — clock-domain crossings are always caught.
//!
//! CdcLab: tiny designs with 2-3 clock domains.  Every signal has a domain in
//! the generator's AST; the reference (cdcref) looks at every assignment /
//! always_ff / instance connection outside `unsafe (cdc)` and says "crossing"
//! when its source cone (right-hand side, enclosing conditions, the clock of
//! an always_ff, the ports of one child domain) holds a domain different from
//! the destination's.  Each design is rendered three times:
//!   * explicit : every signal carries its `'dom` annotation;
//!   * inferred : signals whose domain follows unambiguously from their single
//!                driver are left unannotated, drivers textually before readers;
//!   * inferred, items in another order.
//! All three must give the design-level verdict of the reference
//! ("some crossing outside unsafe(cdc)" <=> >= 1 mismatch_clock_domain).

use crate::lab::{self, AnOut, Hist};
use std::collections::BTreeSet;
use std::sync::Arc;
use vcommon::pool::{STACK_64M, fresh_thread, par_cases};
use vcommon::rng::hash_str;
use vcommon::{Args, Json, Rng, Run, json};

/// Sensitivity knob (`--set flip=ignore-unsafe`): the *reference* then ignores `unsafe (cdc)`,
/// so the check must fire (false negatives).  Off by default.
static FLIP_IGNORE_UNSAFE: std::sync::atomic::AtomicBool = std::sync::atomic::AtomicBool::new(false);

const DOMS: [&str; 3] = ["'ka", "'kb", "'kc"];

#[derive(Clone, Copy, Debug, PartialEq, Eq)]
enum Kind {
    Clock,
    In,
    Out,
    Var,
    /// member `v` of interface instance `name`
    IfMember,
}

#[derive(Clone, Debug)]
struct Sig {
    name: String,
    width: usize,
    dom: usize,
    kind: Kind,
    /// left unannotated in the inferred rendering
    infer: bool,
}

#[derive(Clone, Debug)]
enum E {
    K(usize, u64),
    R(usize, Option<(usize, usize)>),
    Not(Box<E>),
    Bin(&'static str, Box<E>, Box<E>),
    Ari(&'static str, Box<E>, Box<E>),
    Cmp(&'static str, Box<E>, Box<E>),
    Red(&'static str, Box<E>),
    Mux(Box<E>, Box<E>, Box<E>),
    Cat(Vec<E>),
    /// a domain-less selector (literal, module param, const, const expression): text and, when it
    /// cannot be overridden, its value
    Kc(String, Option<u64>),
    /// `case <Kc selector> { l0: e0, l1: e1, default: e }` (selector is 2 bits wide)
    CaseX(Box<E>, Vec<(u64, E)>, Box<E>),
}

thread_local! {
    /// reference mode: when set, a branch that a fixed (non-overridable) selector can never select
    /// is not followed (two readings of "data that can reach the destination")
    static LIVE_ONLY: std::cell::Cell<bool> = const { std::cell::Cell::new(false) };
}

fn sel_value(c: &E) -> Option<u64> {
    match c {
        E::Kc(_, v) if LIVE_ONLY.get() => *v,
        _ => None,
    }
}

#[derive(Clone, Debug)]
enum S {
    Assign(usize, E),
    If(E, Vec<S>, Vec<S>),
}

#[derive(Clone, Copy, Debug, PartialEq, Eq)]
enum Child {
    /// `Comb1 (i_d, o_d)` — ports without annotation: one implicit child domain
    Comb1,
    /// `Reg1 (i_clk 'm, i_d 'm, o_d 'm)`
    Reg1,
    /// `Sync2 (i_clk_s 'm, i_d 'm | i_clk_d 'n, o_d 'n)`, crossing inside is in unsafe (cdc)
    Sync2,
}

#[derive(Clone, Debug)]
enum Body {
    Assign(usize, E),
    Comb(Vec<S>),
    Ff(usize, Vec<S>),
    /// groups of (port name, parent expression or output signal) per child domain
    Inst { name: String, child: Child, groups: Vec<Vec<(String, Conn)>> },
}

#[derive(Clone, Debug)]
enum Conn {
    Expr(E),
    Out(usize),
}

#[derive(Clone, Debug)]
struct Item {
    body: Body,
    unsafe_cdc: bool,
    /// rank of what it drives (drivers before readers in the canonical order)
    rank: usize,
}

#[derive(Clone, Debug)]
struct Design {
    ndom: usize,
    sigs: Vec<Sig>,
    items: Vec<Item>,
    feats: BTreeSet<String>,
}

// ───────────────────────────── cdcref ─────────────────────────────

fn doms(d: &Design, e: &E, out: &mut BTreeSet<usize>) {
    match e {
        E::K(..) => {}
        E::R(s, _) => {
            out.insert(d.sigs[*s].dom);
        }
        E::Not(a) | E::Red(_, a) => doms(d, a, out),
        E::Bin(_, a, b) | E::Ari(_, a, b) | E::Cmp(_, a, b) => {
            doms(d, a, out);
            doms(d, b, out);
        }
        E::Mux(c, a, b) => {
            doms(d, c, out);
            match sel_value(c) {
                Some(0) => doms(d, b, out),
                Some(_) => doms(d, a, out),
                None => {
                    doms(d, a, out);
                    doms(d, b, out);
                }
            }
        }
        E::Cat(p) => p.iter().for_each(|x| doms(d, x, out)),
        E::Kc(..) => {}
        E::CaseX(c, arms, def) => match sel_value(c) {
            Some(v) => match arms.iter().find(|(l, _)| *l == v) {
                Some((_, e)) => doms(d, e, out),
                None => doms(d, def, out),
            },
            None => {
                for (_, e) in arms {
                    doms(d, e, out);
                }
                doms(d, def, out);
            }
        },
    }
}

/// (destination, domain set of everything that flows into / gates that assignment)
fn stmt_sets(d: &Design, stmts: &[S], conds: &BTreeSet<usize>, out: &mut Vec<(usize, BTreeSet<usize>, bool)>) {
    for s in stmts {
        match s {
            S::Assign(dst, e) => {
                let mut ds = conds.clone();
                let before = ds.clone();
                doms(d, e, &mut ds);
                let mut rhs = BTreeSet::new();
                doms(d, e, &mut rhs);
                // third field: the crossing is due to a condition only
                let cond_only = rhs.iter().all(|x| *x == d.sigs[*dst].dom) && before.iter().any(|x| *x != d.sigs[*dst].dom);
                out.push((*dst, ds, cond_only));
            }
            S::If(c, t, f) => {
                let mut cs = conds.clone();
                doms(d, c, &mut cs);
                stmt_sets(d, t, &cs, out);
                stmt_sets(d, f, &cs, out);
            }
        }
    }
}

/// kinds of crossing in one item (empty = none)
fn crossings(d: &Design, it: &Item) -> Vec<&'static str> {
    let mut out = vec![];
    match &it.body {
        Body::Assign(dst, e) => {
            let mut ds = BTreeSet::new();
            doms(d, e, &mut ds);
            ds.insert(d.sigs[*dst].dom);
            if ds.len() > 1 {
                out.push("assign");
            }
        }
        Body::Comb(stmts) => {
            let mut v = vec![];
            stmt_sets(d, stmts, &BTreeSet::new(), &mut v);
            for (dst, mut ds, cond_only) in v {
                ds.insert(d.sigs[dst].dom);
                if ds.len() > 1 {
                    out.push(if cond_only { "always_comb-condition" } else { "always_comb" });
                }
            }
        }
        Body::Ff(clk, stmts) => {
            let mut v = vec![];
            stmt_sets(d, stmts, &BTreeSet::new(), &mut v);
            for (dst, mut ds, cond_only) in v {
                let data_cross = {
                    let mut x = ds.clone();
                    x.insert(d.sigs[dst].dom);
                    x.len() > 1
                };
                ds.insert(d.sigs[dst].dom);
                ds.insert(d.sigs[*clk].dom);
                if ds.len() > 1 {
                    out.push(if !data_cross {
                        "always_ff-clock"
                    } else if cond_only {
                        "always_ff-condition"
                    } else {
                        "always_ff-data"
                    });
                }
            }
        }
        Body::Inst { groups, .. } => {
            for g in groups {
                let mut ds = BTreeSet::new();
                for (_, c) in g {
                    match c {
                        Conn::Expr(e) => doms(d, e, &mut ds),
                        Conn::Out(s) => {
                            ds.insert(d.sigs[*s].dom);
                        }
                    }
                }
                if ds.len() > 1 {
                    out.push("instance-ports");
                }
            }
        }
    }
    out.sort();
    out.dedup();
    out
}

#[derive(Clone, Debug)]
struct Expected {
    /// a crossing exists only through a branch that a fixed selector never selects: the text does not
    /// decide whether that is "data moving", no verdict against the reference
    only_dead_branch_crossing: bool,
    crossing_outside_unsafe: bool,
    kinds_outside: Vec<&'static str>,
    crossings_inside_unsafe: usize,
}

fn reference(d: &Design) -> Expected {
    LIVE_ONLY.set(true);
    let live = reference_mode(d);
    LIVE_ONLY.set(false);
    let mut any = reference_mode(d);
    any.only_dead_branch_crossing = any.crossing_outside_unsafe && !live.crossing_outside_unsafe;
    any
}

fn reference_mode(d: &Design) -> Expected {
    let mut kinds = BTreeSet::new();
    let mut inside = 0;
    for it in &d.items {
        let c = crossings(d, it);
        if c.is_empty() {
            continue;
        }
        if it.unsafe_cdc && !FLIP_IGNORE_UNSAFE.load(std::sync::atomic::Ordering::Relaxed) {
            inside += 1;
        } else {
            kinds.extend(c);
        }
    }
    Expected { only_dead_branch_crossing: false, crossing_outside_unsafe: !kinds.is_empty(), kinds_outside: kinds.into_iter().collect(), crossings_inside_unsafe: inside }
}

// ───────────────────────────── generator ─────────────────────────────

struct Gen<'a> {
    rng: &'a mut Rng,
    sigs: Vec<Sig>,
    rank: Vec<usize>,
    feats: BTreeSet<String>,
    /// permille: a leaf reference may come from a foreign domain
    p_foreign: u64,
    /// permille: an expression node becomes a ternary / case expression with a domain-less selector
    p_ksel: u64,
    ndom: usize,
}

impl<'a> Gen<'a> {
    fn feat(&mut self, s: &str) {
        self.feats.insert(s.to_string());
    }

    /// readable signals (not clocks) with rank < r; `dom` restricts the domain unless a foreign pick is drawn
    fn pick_sig(&mut self, w: usize, dom: usize, r: usize) -> Option<usize> {
        let foreign = self.rng.below(1000) < self.p_foreign;
        let cands: Vec<usize> = (0..self.sigs.len())
            .filter(|i| {
                let s = &self.sigs[*i];
                s.kind != Kind::Clock && self.rank[*i] < r && s.width >= w && (foreign || s.dom == dom)
            })
            .collect();
        if cands.is_empty() {
            return None;
        }
        let s = *self.rng.pick(&cands);
        if self.sigs[s].dom != dom {
            self.feat("read:foreign-domain-signal");
        }
        Some(s)
    }

    fn leaf_sig(&mut self, w: usize, dom: usize, r: usize) -> E {
        match self.pick_sig(w, dom, r) {
            Some(s) => {
                let sw = self.sigs[s].width;
                if sw == w && self.rng.chance(2, 3) {
                    E::R(s, None)
                } else {
                    let lo = self.rng.usize(sw - w + 1);
                    E::R(s, Some((lo + w - 1, lo)))
                }
            }
            None => {
                if w >= 2 {
                    let a = 1 + self.rng.usize(w - 1);
                    E::Cat(vec![self.leaf_sig(w - a, dom, r), self.leaf_sig(a, dom, r)])
                } else {
                    E::K(1, 1)
                }
            }
        }
    }

    fn leaf(&mut self, w: usize, dom: usize, r: usize) -> E {
        if self.rng.chance(1, 10) {
            return E::K(w, self.rng.below(1 << w.min(16)));
        }
        self.leaf_sig(w, dom, r)
    }

    /// a 1-bit selector without clock domain
    fn ksel(&mut self) -> E {
        let (t, v, kind): (&str, Option<u64>, &str) = *self.rng.pick(&[
            ("1'h1", Some(1), "literal"),
            ("1'h0", Some(0), "literal"),
            ("(2'h1 == 2'h1)", Some(1), "const-expression"),
            ("(3 <: 2)", Some(0), "const-expression"),
            ("P_B1", None, "param"),
            ("P_B0", None, "param"),
            ("(P_N1 == 1)", None, "param"),
            ("(P_N0 != 0)", None, "param"),
            ("(P_W >: 2)", None, "param"),
            ("(!P_B1)", None, "param"),
            ("C_B1", Some(1), "const"),
            ("C_B0", Some(0), "const"),
            ("(C_W >: 2)", Some(1), "const"),
            ("(C_W <: 3)", Some(0), "const"),
        ]);
        self.feat(&format!("ternary:selector-{kind}"));
        E::Kc(t.to_string(), v)
    }

    /// one branch of a selector expression: home domain, or (independently) some other domain
    fn ksel_branch(&mut self, w: usize, depth: usize, dom: usize, r: usize, pos: &str) -> E {
        let bd = if self.rng.chance(1, 3) { self.rng.usize(self.ndom) } else { dom };
        if bd != dom {
            self.feat(&format!("ternary:{pos}-branch-foreign"));
        }
        // selector expressions nest at most once more
        let save = self.p_ksel;
        if depth <= 1 {
            self.p_ksel = 0;
        }
        let e = self.expr(w, depth.saturating_sub(1).min(1), bd, r);
        self.p_ksel = save;
        e
    }

    /// ternary / nested ternary / case expression whose selector has no clock domain
    fn ksel_expr(&mut self, w: usize, depth: usize, dom: usize, r: usize) -> E {
        self.feat("ternary:domainless-selector");
        match self.rng.below(10) {
            0..=5 => {
                let c = self.ksel();
                let a = self.ksel_branch(w, depth, dom, r, "then");
                let b = self.ksel_branch(w, depth, dom, r, "else");
                E::Mux(Box::new(c), Box::new(a), Box::new(b))
            }
            6..=7 => {
                self.feat("ternary:nested");
                let c1 = self.ksel();
                let c2 = self.ksel();
                let a = self.ksel_branch(w, 0, dom, r, "then");
                let b = self.ksel_branch(w, 0, dom, r, "then");
                let c = self.ksel_branch(w, 0, dom, r, "else");
                let inner = E::Mux(Box::new(c2), Box::new(b), Box::new(c));
                if self.rng.bool() { E::Mux(Box::new(c1), Box::new(a), Box::new(inner)) } else { E::Mux(Box::new(c1), Box::new(inner), Box::new(a)) }
            }
            _ => {
                self.feat("ternary:case-expression");
                let (t, v, kind): (&str, Option<u64>, &str) = *self.rng.pick(&[("P_IDX", None, "param"), ("C_IDX", Some(2), "const"), ("2'h1", Some(1), "literal")]);
                self.feat(&format!("ternary:selector-{kind}"));
                let mut labels: Vec<u64> = (0..4).collect();
                self.rng.shuffle(&mut labels);
                let n = 1 + self.rng.usize(2);
                let arms = labels[..n].iter().map(|l| (*l, self.ksel_branch(w, 0, dom, r, "then"))).collect();
                let def = self.ksel_branch(w, 0, dom, r, "else");
                E::CaseX(Box::new(E::Kc(t.to_string(), v)), arms, Box::new(def))
            }
        }
    }

    /// an expression that contains at least one signal
    fn expr(&mut self, w: usize, depth: usize, dom: usize, r: usize) -> E {
        if self.rng.below(1000) < self.p_ksel {
            return self.ksel_expr(w, depth, dom, r);
        }
        if depth == 0 {
            return self.leaf_sig(w, dom, r);
        }
        match self.rng.below(12) {
            0..=3 => self.leaf_sig(w, dom, r),
            4 => E::Not(Box::new(self.expr(w, depth - 1, dom, r))),
            5..=6 => {
                self.feat("expr:binary-bitwise");
                let op = *self.rng.pick(&["&", "|", "^"]);
                E::Bin(op, Box::new(self.expr(w, depth - 1, dom, r)), Box::new(self.leaf(w, dom, r)))
            }
            7 if w >= 2 => {
                self.feat("expr:arithmetic");
                let op = *self.rng.pick(&["+", "-"]);
                E::Ari(op, Box::new(self.expr(w, depth - 1, dom, r)), Box::new(self.leaf(w, dom, r)))
            }
            8 => {
                self.feat("expr:ternary");
                let c = self.cond(dom, r);
                E::Mux(Box::new(c), Box::new(self.expr(w, depth - 1, dom, r)), Box::new(self.leaf(w, dom, r)))
            }
            9 if w >= 2 => {
                self.feat("expr:concat");
                let a = 1 + self.rng.usize(w - 1);
                E::Cat(vec![self.expr(w - a, depth - 1, dom, r), self.leaf(a, dom, r)])
            }
            10 if w == 1 => self.cond(dom, r),
            _ => self.leaf_sig(w, dom, r),
        }
    }

    fn cond(&mut self, dom: usize, r: usize) -> E {
        match self.rng.below(3) {
            0 => {
                self.feat("expr:compare");
                let w = 1 + self.rng.usize(3);
                let op = *self.rng.pick(&["==", "!=", "<:", ">="]);
                E::Cmp(op, Box::new(self.leaf_sig(w, dom, r)), Box::new(self.leaf(w, dom, r)))
            }
            1 => {
                self.feat("expr:reduction");
                let w = 2 + self.rng.usize(2);
                E::Red(*self.rng.pick(&["&", "|", "^"]), Box::new(self.leaf_sig(w, dom, r)))
            }
            _ => self.leaf_sig(1, dom, r),
        }
    }

    fn stmts(&mut self, dst: usize, dom: usize, r: usize, depth: usize) -> Vec<S> {
        let w = self.sigs[dst].width;
        if depth == 0 || self.rng.chance(1, 2) {
            return vec![S::Assign(dst, self.expr(w, 2, dom, r))];
        }
        self.feat("stmt:if-else");
        let c = self.cond(dom, r);
        vec![S::If(c, self.stmts(dst, dom, r, depth - 1), self.stmts(dst, dom, r, depth - 1))]
    }
}

fn generate(rng: &mut Rng) -> Design {
    let ndom = 2 + rng.usize(2);
    // per design: how often a reference strays into a foreign domain
    let mut p_foreign = *rng.pick(&[0u64, 0, 40, 90, 160, 300]);
    // two thirds of the designs use domain-less selectors; in half of those nothing else strays, so
    // the selector expression is the only possible source of a crossing
    let p_ksel = *rng.pick(&[0u64, 120, 250]);
    if p_ksel > 0 && rng.bool() {
        p_foreign = 0;
    }
    let mut g = Gen { rng, sigs: vec![], rank: vec![], feats: BTreeSet::new(), p_foreign, p_ksel, ndom };
    if ndom == 3 {
        g.feat("domains:three");
    } else {
        g.feat("domains:two");
    }
    let dn = |d: usize| ["a", "b", "c"][d];
    for d in 0..ndom {
        g.sigs.push(Sig { name: format!("i_clk_{}", dn(d)), width: 1, dom: d, kind: Kind::Clock, infer: false });
        g.rank.push(0);
        let n = 1 + g.rng.usize(2);
        for k in 0..n {
            let w = 2 + g.rng.usize(5);
            g.sigs.push(Sig { name: format!("i_{}{k}", dn(d)), width: w, dom: d, kind: Kind::In, infer: false });
            g.rank.push(0);
        }
    }
    let clock_of = |sigs: &[Sig], d: usize| sigs.iter().position(|s| s.kind == Kind::Clock && s.dom == d).unwrap();
    let ndriven = 4 + g.rng.usize(6);
    let mut items: Vec<Item> = vec![];
    let mut ninst = 0;
    for k in 0..ndriven {
        let r = k + 1;
        let dom = g.rng.usize(ndom);
        let kind = match g.rng.below(10) {
            0..=2 => Kind::Out,
            3..=8 => Kind::Var,
            _ => Kind::IfMember,
        };
        let w = if kind == Kind::IfMember { 4 } else { 1 + g.rng.usize(6) };
        let name = match kind {
            Kind::Out => format!("o_{k}"),
            Kind::Var => format!("v_{k}"),
            _ => format!("bus_{k}"),
        };
        if kind == Kind::IfMember {
            g.feat("signal:interface-member");
        }
        // the signal becomes readable only after its driver is built (rank r)
        let sig = Sig { name, width: w, dom, kind, infer: false };
        let style = g.rng.below(100);
        let body = if style < 40 {
            g.feat("driver:assign");
            let e = g.expr(w, 2, dom, r);
            g.sigs.push(sig);
            g.rank.push(r);
            Body::Assign(g.sigs.len() - 1, e)
        } else if style < 60 {
            g.feat("driver:always_comb");
            g.sigs.push(sig);
            g.rank.push(usize::MAX); // not readable while its own driver is built
            let dst = g.sigs.len() - 1;
            let st = g.stmts(dst, dom, r, 2);
            g.rank[dst] = r;
            Body::Comb(st)
        } else if style < 82 {
            g.feat("driver:always_ff");
            g.sigs.push(sig);
            g.rank.push(usize::MAX);
            let dst = g.sigs.len() - 1;
            // the clock is usually the destination's; a stray clock is a crossing of its own
            let cd = if g.rng.below(1000) < g.p_foreign { g.rng.usize(ndom) } else { dom };
            if cd != dom {
                g.feat("always_ff:clock-of-another-domain");
            }
            let clk = clock_of(&g.sigs, cd);
            let st = g.stmts(dst, dom, r, 1);
            g.rank[dst] = r;
            Body::Ff(clk, st)
        } else if kind != Kind::IfMember {
            // instance output; instance ports are 2 bits wide
            let mut sig = sig;
            sig.width = 2;
            g.sigs.push(sig);
            g.rank.push(usize::MAX);
            let dst = g.sigs.len() - 1;
            let child = *g.rng.pick(&[Child::Comb1, Child::Reg1, Child::Sync2]);
            let groups = match child {
                Child::Comb1 => {
                    g.feat("instance:implicit-domain-child");
                    vec![vec![("i_d".to_string(), Conn::Expr(g.expr(2, 1, dom, r))), ("o_d".to_string(), Conn::Out(dst))]]
                }
                Child::Reg1 => {
                    g.feat("instance:one-domain-child");
                    let clk = clock_of(&g.sigs, dom);
                    vec![vec![
                        ("i_clk".to_string(), Conn::Expr(E::R(clk, None))),
                        ("i_d".to_string(), Conn::Expr(g.expr(2, 1, dom, r))),
                        ("o_d".to_string(), Conn::Out(dst)),
                    ]]
                }
                Child::Sync2 => {
                    g.feat("instance:two-domain-child");
                    // source side from another domain (legal: the crossing is inside the child's unsafe block)
                    let sd = (dom + 1 + g.rng.usize(ndom - 1)) % ndom;
                    let sclk = clock_of(&g.sigs, sd);
                    let dclk = clock_of(&g.sigs, dom);
                    vec![
                        vec![("i_clk_s".to_string(), Conn::Expr(E::R(sclk, None))), ("i_d".to_string(), Conn::Expr(g.expr(2, 1, sd, r)))],
                        vec![("i_clk_d".to_string(), Conn::Expr(E::R(dclk, None))), ("o_d".to_string(), Conn::Out(dst))],
                    ]
                }
            };
            g.rank[dst] = r;
            ninst += 1;
            Body::Inst { name: format!("u{ninst}"), child, groups }
        } else {
            g.feat("driver:assign");
            let e = g.expr(w, 2, dom, r);
            g.sigs.push(sig);
            g.rank.push(r);
            Body::Assign(g.sigs.len() - 1, e)
        };
        items.push(Item { body, unsafe_cdc: false, rank: r });
    }
    let feats = g.feats.clone();
    let mut d = Design { ndom, sigs: g.sigs.clone(), items, feats };
    // unsafe (cdc): most crossing items get wrapped in half of the "dirty" designs, a few clean items too
    let wrap_all = g.rng.chance(1, 3);
    for k in 0..d.items.len() {
        let c = !crossings(&d, &d.items[k]).is_empty();
        let wrap = if c { wrap_all || g.rng.chance(1, 3) } else { g.rng.chance(1, 12) };
        if wrap {
            d.items[k].unsafe_cdc = true;
            d.feats.insert(if c { "unsafe:wraps-a-crossing".into() } else { "unsafe:wraps-a-clean-statement".into() });
        }
    }
    // inference candidates: the domain follows unambiguously from the single driver
    for k in 0..d.items.len() {
        let it = d.items[k].clone();
        let cand: Option<usize> = match &it.body {
            Body::Assign(dst, e) => {
                let mut ds = BTreeSet::new();
                doms(&d, e, &mut ds);
                (ds.len() == 1 && ds.contains(&d.sigs[*dst].dom)).then_some(*dst)
            }
            Body::Comb(st) => {
                let mut v = vec![];
                stmt_sets(&d, st, &BTreeSet::new(), &mut v);
                let dst = v[0].0;
                let ok = v.iter().all(|(_, ds, _)| ds.len() == 1 && ds.contains(&d.sigs[dst].dom)) && all_rhs_have_signal(&d, st);
                ok.then_some(dst)
            }
            Body::Ff(clk, st) => {
                let mut v = vec![];
                stmt_sets(&d, st, &BTreeSet::new(), &mut v);
                let dst = v[0].0;
                (d.sigs[*clk].dom == d.sigs[dst].dom).then_some(dst)
            }
            Body::Inst { .. } => None, // excluded shape: a signal driven only by an instance output stays explicit
        };
        if let Some(s) = cand
            && g.rng.chance(3, 5)
        {
            d.sigs[s].infer = true;
            d.feats.insert(format!(
                "inferred:{}",
                match d.sigs[s].kind {
                    Kind::Out => "output-port",
                    Kind::Var => "variable",
                    _ => "interface-member",
                }
            ));
            d.feats.insert(format!(
                "inferred-from:{}",
                match it.body {
                    Body::Assign(..) => "assign",
                    Body::Comb(..) => "always_comb",
                    Body::Ff(..) => "always_ff-clock",
                    _ => "",
                }
            ));
        }
    }
    d
}

fn all_rhs_have_signal(d: &Design, st: &[S]) -> bool {
    st.iter().all(|s| match s {
        S::Assign(_, e) => {
            let mut ds = BTreeSet::new();
            doms(d, e, &mut ds);
            !ds.is_empty()
        }
        S::If(_, t, f) => all_rhs_have_signal(d, t) && all_rhs_have_signal(d, f),
    })
}

// ───────────────────────────── renderer ─────────────────────────────

fn ty(w: usize) -> String {
    if w == 1 { "logic".into() } else { format!("logic<{w}>") }
}

fn sig_text(d: &Design, s: usize) -> String {
    let x = &d.sigs[s];
    if x.kind == Kind::IfMember { format!("{}.v", x.name) } else { x.name.clone() }
}

fn expr_text(d: &Design, e: &E) -> String {
    match e {
        E::K(w, v) => format!("{w}'h{v:x}"),
        E::R(s, None) => sig_text(d, *s),
        E::R(s, Some((hi, lo))) if hi == lo => format!("{}[{hi}]", sig_text(d, *s)),
        E::R(s, Some((hi, lo))) => format!("{}[{hi}:{lo}]", sig_text(d, *s)),
        E::Not(a) => format!("(~{})", expr_text(d, a)),
        E::Bin(op, a, b) | E::Ari(op, a, b) | E::Cmp(op, a, b) => format!("({} {} {})", expr_text(d, a), op, expr_text(d, b)),
        E::Red(op, a) => format!("({}{})", op, expr_text(d, a)),
        E::Mux(c, a, b) => format!("(if {} ? {} : {})", expr_text(d, c), expr_text(d, a), expr_text(d, b)),
        E::Cat(p) => format!("{{{}}}", p.iter().map(|x| expr_text(d, x)).collect::<Vec<_>>().join(", ")),
        E::Kc(t, _) => t.clone(),
        E::CaseX(c, arms, def) => {
            let mut s = format!("(case {} {{ ", expr_text(d, c));
            for (l, e) in arms {
                s.push_str(&format!("2'd{l}: {}, ", expr_text(d, e)));
            }
            s.push_str(&format!("default: {} }})", expr_text(d, def)));
            s
        }
    }
}

fn stmts_text(d: &Design, s: &[S], ind: &str, out: &mut String) {
    for x in s {
        match x {
            S::Assign(dst, e) => out.push_str(&format!("{ind}{} = {};\n", sig_text(d, *dst), expr_text(d, e))),
            S::If(c, t, f) => {
                out.push_str(&format!("{ind}if {} {{\n", expr_text(d, c)));
                stmts_text(d, t, &format!("{ind}    "), out);
                out.push_str(&format!("{ind}}} else {{\n"));
                stmts_text(d, f, &format!("{ind}    "), out);
                out.push_str(&format!("{ind}}}\n"));
            }
        }
    }
}

const LIB: &str = "interface BusIf {
    var v: logic<4>;
}

module Comb1 (
    i_d: input  logic<2>,
    o_d: output logic<2>,
) {
    assign o_d = ~i_d;
}

module Reg1 (
    i_clk: input  'm clock   ,
    i_d  : input  'm logic<2>,
    o_d  : output 'm logic<2>,
) {
    always_ff (i_clk) {
        o_d = i_d;
    }
}

module Sync2 (
    i_clk_s: input  'm clock   ,
    i_d    : input  'm logic<2>,
    i_clk_d: input  'n clock   ,
    o_d    : output 'n logic<2>,
) {
    var r: 'n logic<2>;
    unsafe (cdc) {
        always_ff (i_clk_d) {
            r = i_d;
        }
    }
    always_ff (i_clk_d) {
        o_d = r;
    }
}

";

/// `inferred`: leave `infer` signals unannotated; `order`: item order
fn render(d: &Design, inferred: bool, order: &[usize]) -> String {
    let mut o = String::from(LIB);
    let ann = |s: &Sig| -> String { if inferred && s.infer { String::new() } else { format!("{} ", DOMS[s.dom]) } };
    o.push_str("module Top #(\n    param P_B1: bit = 1,\n    param P_B0: bit = 0,\n    param P_N1: u32 = 1,\n    param P_N0: u32 = 0,\n    param P_W: u32 = 4,\n    param P_IDX: bit<2> = 1,\n    const C_B1: bit = 1,\n    const C_B0: bit = 0,\n    const C_W: u32 = 4,\n    const C_IDX: bit<2> = 2,\n) (\n");
    for s in &d.sigs {
        match s.kind {
            Kind::Clock => o.push_str(&format!("    {}: input {} clock,\n", s.name, DOMS[s.dom])),
            Kind::In => o.push_str(&format!("    {}: input {} {},\n", s.name, DOMS[s.dom], ty(s.width))),
            Kind::Out => o.push_str(&format!("    {}: output {}{},\n", s.name, ann(s), ty(s.width))),
            _ => {}
        }
    }
    o.push_str(") {\n");
    for s in &d.sigs {
        match s.kind {
            Kind::Var => o.push_str(&format!("    var {}: {}{};\n", s.name, ann(s), ty(s.width))),
            Kind::IfMember => o.push_str(&format!("    inst {}: {}BusIf;\n", s.name, ann(s))),
            _ => {}
        }
    }
    for &k in order {
        let it = &d.items[k];
        let ind = if it.unsafe_cdc {
            o.push_str("    unsafe (cdc) {\n");
            "        "
        } else {
            "    "
        };
        match &it.body {
            Body::Assign(dst, e) => o.push_str(&format!("{ind}assign {} = {};\n", sig_text(d, *dst), expr_text(d, e))),
            Body::Comb(st) => {
                o.push_str(&format!("{ind}always_comb {{\n"));
                stmts_text(d, st, &format!("{ind}    "), &mut o);
                o.push_str(&format!("{ind}}}\n"));
            }
            Body::Ff(clk, st) => {
                o.push_str(&format!("{ind}always_ff ({}) {{\n", d.sigs[*clk].name));
                stmts_text(d, st, &format!("{ind}    "), &mut o);
                o.push_str(&format!("{ind}}}\n"));
            }
            Body::Inst { name, child, groups } => {
                o.push_str(&format!("{ind}inst {name}: {child:?} (\n"));
                for g in groups {
                    for (p, c) in g {
                        let t = match c {
                            Conn::Expr(e) => expr_text(d, e),
                            Conn::Out(s) => sig_text(d, *s),
                        };
                        o.push_str(&format!("{ind}    {p}: {t},\n"));
                    }
                }
                o.push_str(&format!("{ind});\n"));
            }
        }
        if it.unsafe_cdc {
            o.push_str("    }\n");
        }
    }
    o.push_str("}\n");
    o
}

// ───────────────────────────── case + verdicts ─────────────────────────────

#[derive(Clone, Debug)]
struct CaseOut {
    feats: Vec<String>,
    exp: Expected,
    n_inferred: usize,
    /// an inferred signal is read (textually) before its driver in the shuffled rendering
    shuffled_reads_before_driver: bool,
    text_explicit: String,
    text_inferred: String,
    text_shuffled: String,
    an_explicit: AnOut,
    an_inferred: AnOut,
    an_shuffled: AnOut,
}

fn reads_of(d: &Design, it: &Item, out: &mut BTreeSet<usize>) {
    fn ex(e: &E, out: &mut BTreeSet<usize>) {
        match e {
            E::K(..) => {}
            E::R(s, _) => {
                out.insert(*s);
            }
            E::Not(a) | E::Red(_, a) => ex(a, out),
            E::Bin(_, a, b) | E::Ari(_, a, b) | E::Cmp(_, a, b) => {
                ex(a, out);
                ex(b, out)
            }
            E::Mux(c, a, b) => {
                ex(c, out);
                ex(a, out);
                ex(b, out)
            }
            E::Cat(p) => p.iter().for_each(|x| ex(x, out)),
            E::Kc(..) => {}
            E::CaseX(_, arms, def) => {
                for (_, e) in arms {
                    ex(e, out);
                }
                ex(def, out)
            }
        }
    }
    fn st(s: &[S], out: &mut BTreeSet<usize>) {
        for x in s {
            match x {
                S::Assign(_, e) => ex(e, out),
                S::If(c, t, f) => {
                    ex(c, out);
                    st(t, out);
                    st(f, out);
                }
            }
        }
    }
    let _ = d;
    match &it.body {
        Body::Assign(_, e) => ex(e, out),
        Body::Comb(s) | Body::Ff(_, s) => st(s, out),
        Body::Inst { groups, .. } => {
            for g in groups {
                for (_, c) in g {
                    if let Conn::Expr(e) = c {
                        ex(e, out);
                    }
                }
            }
        }
    }
}

fn driven_by(it: &Item) -> Option<usize> {
    match &it.body {
        Body::Assign(d, _) => Some(*d),
        Body::Comb(s) | Body::Ff(_, s) => {
            fn first(s: &[S]) -> Option<usize> {
                for x in s {
                    match x {
                        S::Assign(d, _) => return Some(*d),
                        S::If(_, t, f) => {
                            if let Some(d) = first(t).or_else(|| first(f)) {
                                return Some(d);
                            }
                        }
                    }
                }
                None
            }
            first(s)
        }
        Body::Inst { groups, .. } => groups.iter().flatten().find_map(|(_, c)| if let Conn::Out(s) = c { Some(*s) } else { None }),
    }
}

fn run_design(d: &Design, rng: &mut Rng) -> CaseOut {
    let canon: Vec<usize> = (0..d.items.len()).collect(); // generated in rank order: drivers before readers
    let mut shuf = canon.clone();
    rng.shuffle(&mut shuf);
    // does the shuffled order read an inferred signal before its driver?
    let mut rbd = false;
    let mut driven_seen: BTreeSet<usize> = BTreeSet::new();
    for &k in &shuf {
        let mut rd = BTreeSet::new();
        reads_of(d, &d.items[k], &mut rd);
        if rd.iter().any(|s| d.sigs[*s].infer && !driven_seen.contains(s)) {
            rbd = true;
        }
        if let Some(x) = driven_by(&d.items[k]) {
            driven_seen.insert(x);
        }
    }
    let text_explicit = render(d, false, &canon);
    let text_inferred = render(d, true, &canon);
    let text_shuffled = render(d, true, &shuf);
    let exp = reference(d);
    let n_inferred = d.sigs.iter().filter(|s| s.infer).count();
    // three analyses, each on its own fresh thread (thread-local analyzer tables)
    let run1 = |t: &str| {
        let t = t.to_string();
        fresh_thread(STACK_64M, move || lab::analyze(&t).0).unwrap_or_else(|p| AnOut { parse_error: Some(format!("panic: {} at {}", p.message, p.location)), diags: vec![] })
    };
    let an_explicit = run1(&text_explicit);
    let an_inferred = if n_inferred > 0 { run1(&text_inferred) } else { an_explicit.clone() };
    let an_shuffled = if n_inferred > 0 { run1(&text_shuffled) } else { an_explicit.clone() };
    CaseOut {
        feats: d.feats.iter().cloned().collect(),
        exp,
        n_inferred,
        shuffled_reads_before_driver: rbd,
        text_explicit,
        text_inferred,
        text_shuffled,
        an_explicit,
        an_inferred,
        an_shuffled,
    }
}

fn case(seed: u64, i: u64) -> CaseOut {
    let mut rng = Rng::for_case(seed, "C16", i);
    let d = generate(&mut rng);
    run_design(&d, &mut rng)
}

const CODE: &str = "mismatch_clock_domain";

fn judge(run: &Run, hist: &Hist, i: u64, seed: u64, o: &CaseOut) {
    run.eval();
    for (a, which) in [(&o.an_explicit, "explicit"), (&o.an_inferred, "inferred"), (&o.an_shuffled, "shuffled")] {
        if let Some(p) = &a.parse_error {
            run.count("discarded_parse_error_or_panic", 1);
            run.note(format!("case {i} ({which}): {p}"));
            return;
        }
    }
    let mut others = o.an_explicit.other_errors(&[CODE]);
    others.extend(o.an_inferred.other_errors(&[CODE]));
    others.extend(o.an_shuffled.other_errors(&[CODE]));
    if !others.is_empty() {
        run.count("discarded_unrelated_error", 1);
        for c in &others {
            run.seen("unrelated_error_codes", c);
        }
        return;
    }
    run.count("designs_judged", 1);
    run.nontrivial(hash_str(&o.text_explicit));
    let class = if o.exp.only_dead_branch_crossing {
        "no_verdict_crossing_only_through_a_never_selected_branch"
    } else if o.exp.crossing_outside_unsafe {
        "expected_report"
    } else {
        "expected_clean"
    };
    run.count(class, 1);
    if o.feats.iter().any(|f| f == "ternary:domainless-selector") {
        run.count("ternary_domainless_condition_designs", 1);
        run.count(&format!("ternary_domainless_condition_{class}"), 1);
        if o.exp.kinds_outside.is_empty() && o.exp.crossings_inside_unsafe > 0 {
            run.count("ternary_domainless_condition_clean_only_because_of_unsafe_cdc", 1);
        }
    }
    if !o.exp.crossing_outside_unsafe && o.exp.crossings_inside_unsafe > 0 {
        run.count("clean_only_because_crossings_are_inside_unsafe_cdc", 1);
    }
    if o.n_inferred > 0 {
        run.count("designs_with_inferred_signals", 1);
        run.count("inferred_signals", o.n_inferred as i64);
    }
    for f in &o.feats {
        hist.add(&format!("{f}|{class}"));
    }
    for k in &o.exp.kinds_outside {
        hist.add(&format!("crossing:{k}"));
    }
    let want = o.exp.crossing_outside_unsafe;
    let replay = |which: &str, text: &str, an: &AnOut| {
        json!({
            "seed": seed, "case_index": i, "rendering": which, "text": text,
            "expected": {"crossing_outside_unsafe_cdc": want, "crossing_kinds_outside_unsafe": o.exp.kinds_outside, "crossing_items_inside_unsafe": o.exp.crossings_inside_unsafe},
            "analyzer": an.json(), "analyzer_reported_mismatch_clock_domain": an.has(CODE),
            "text_explicit": o.text_explicit, "text_inferred": o.text_inferred, "text_inferred_other_order": o.text_shuffled,
            "verdicts": {"explicit": o.an_explicit.has(CODE), "inferred": o.an_inferred.has(CODE), "inferred_other_order": o.an_shuffled.has(CODE)},
            "features": o.feats, "inferred_signals": o.n_inferred,
            "other_order_reads_an_inferred_signal_before_its_driver": o.shuffled_reads_before_driver,
        })
    };
    let mut ok = true;
    for (which, text, an) in [("explicit", &o.text_explicit, &o.an_explicit), ("inferred", &o.text_inferred, &o.an_inferred)] {
        if which == "inferred" && o.n_inferred == 0 {
            continue;
        }
        let got = an.has(CODE);
        if o.exp.only_dead_branch_crossing {
            // both readings of the text are accepted; what the tool does is recorded only
            run.count(&format!("{which}_never_selected_branch_crossing_{}", if got { "reported" } else { "accepted" }), 1);
            continue;
        }
        run.count(&format!("{which}_renderings_compared"), 1);
        if got == want {
            continue;
        }
        ok = false;
        if want {
            run.count("false_negatives", 1);
            run.violation(
                &format!("{which}:false-negative:{}", if o.exp.kinds_outside.len() > 2 { "several-kinds".to_string() } else { o.exp.kinds_outside.join("+") }),
                &format!("crossing outside unsafe (cdc) ({}) but no mismatch_clock_domain in the {which} rendering", o.exp.kinds_outside.join(", ")),
                replay(which, text, an),
            );
        } else {
            run.count("false_positives", 1);
            run.violation(
                &format!("{which}:false-positive"),
                &format!("mismatch_clock_domain reported in the {which} rendering although no data leaves its domain outside unsafe (cdc)"),
                replay(which, text, an),
            );
        }
    }
    if o.an_explicit.has(CODE) != o.an_inferred.has(CODE) {
        run.count("explicit_inferred_pairs_disagreeing", 1);
    } else if o.n_inferred > 0 {
        run.count("explicit_inferred_pairs_agreeing", 1);
    }
    // statement order must not matter under any reading of the text
    if o.n_inferred > 0 {
        run.count("order_twins_compared", 1);
        if o.shuffled_reads_before_driver {
            run.count("order_twins_reading_an_inferred_signal_before_its_driver", 1);
        }
        if o.an_shuffled.has(CODE) != o.an_inferred.has(CODE) {
            ok = false;
            run.count("order_dependent_verdicts", 1);
            let class = if o.shuffled_reads_before_driver { "inferred-signal-read-before-its-driver" } else { "unclassified" };
            run.violation(
                &format!("inferred:verdict-depends-on-statement-order:{class}"),
                &format!(
                    "the same design (inferred rendering) gets mismatch_clock_domain={} with drivers before readers and {} in another statement order",
                    o.an_inferred.has(CODE),
                    o.an_shuffled.has(CODE)
                ),
                replay("inferred_other_order", &o.text_shuffled, &o.an_shuffled),
            );
        }
    }
    if ok {
        run.count("designs_fully_agreeing", 1);
        run.sample(json!({"class": class, "crossing_kinds": o.exp.kinds_outside, "inferred_signals": o.n_inferred, "features": o.feats, "text_inferred": o.text_inferred}));
    }
}

pub fn main(args: Args) {
    let run = Arc::new(Run::new(
        args.clone(),
        // a replay re-runs one recorded case: not a coverage claim
        if args.replay.is_some() { "other" } else { "exploration" },
        "CdcLab: one top module with 2-3 explicit clock domains (a clock and 1-2 data inputs per domain) and 4-9 driven signals (outputs, \
         variables, interface-instance members) each driven by one assign / always_comb (nested if-else) / always_ff (own or foreign \
         clock) / instance output (child with implicit, one or two explicit domains); references stray into foreign domains with a \
         per-design probability; crossing statements are wrapped in unsafe (cdc) in about half of the dirty designs.  Every design is \
         analysed with explicit annotations, with inferable annotations dropped (drivers before readers), and with those in a shuffled \
         order.  Non-trivial = no unrelated error; distinct = distinct explicit texts",
    ));
    run.assume("cdcref (mon_sem/src/c16.rs): a statement crosses when {destination, right-hand side, enclosing conditions, always_ff clock} or the parent signals on the ports of one child domain hold more than one domain");
    run.assume("a signal may be left unannotated only when its single driver fixes its domain unambiguously (assign/always_comb whose every right-hand side and condition is in exactly that domain, or always_ff clocked in that domain) and it is not driven by an instance output");
    run.assume("inputs and clocks are always explicit; resets are not generated");

    if args.get("flip") == Some("ignore-unsafe") {
        FLIP_IGNORE_UNSAFE.store(true, std::sync::atomic::Ordering::Relaxed);
        run.note("SENSITIVITY RUN: reference deliberately wrong (flip=ignore-unsafe)".into());
    }
    let hist = Arc::new(Hist::default());
    if let Some(rp) = &args.replay {
        run.set_extra("explanation", json!("replay of one recorded case against the current tree; no coverage is claimed"));
        let v: Json = serde_json::from_str(&std::fs::read_to_string(rp).expect("replay file")).expect("replay json");
        let seed = v["case"]["seed"].as_u64().unwrap_or(args.seed);
        let i = v["case"]["case_index"].as_u64().expect("case_index");
        let stored = v["case"]["text_explicit"].as_str().unwrap_or("").to_string();
        let o = fresh_thread(STACK_64M, move || case(seed, i)).expect("no panic");
        if o.text_explicit != stored {
            run.inconclusive("replay: regenerated text differs from the stored text (generator changed)".into());
        }
        println!("{}", o.text_shuffled);
        println!("expected: {:?}", o.exp);
        println!("explicit: {}\ninferred: {}\nother order: {}", o.an_explicit.json(), o.an_inferred.json(), o.an_shuffled.json());
        run.sample(json!({"replayed_case": i, "seed": seed, "text_explicit": o.text_explicit}));
        judge(&run, &hist, i, seed, &o);
        run.finish(&[]);
    }
    if let Some(path) = args.get("file") {
        let text = std::fs::read_to_string(path).expect("file");
        let r = fresh_thread(STACK_64M, move || lab::analyze(&text).0).expect("no panic");
        println!("analyzer: {}", r.json());
        std::process::exit(0);
    }

    let n = args.budget("cases", 1500, 40_000);
    let seed = args.seed;
    let run2 = run.clone();
    let hist2 = hist.clone();
    par_cases(
        n,
        args.jobs,
        STACK_64M,
        move |i| case(seed, i),
        move |i, r| match r {
            Err(p) => {
                run2.eval();
                run2.count("cases_panicked", 1);
                run2.note(format!("case {i} panicked at {}: {}", p.location, p.message));
            }
            Ok(o) => judge(&run2, &hist2, i, seed, &o),
        },
    );
    run.set_extra("feature_histogram", hist.json());
    let sc = |x: i64| (x * n as i64 / 500).max(1);
    run.finish(&[
        ("designs_judged", sc(150)),
        ("expected_report", sc(40)),
        ("expected_clean", sc(60)),
        ("clean_only_because_crossings_are_inside_unsafe_cdc", sc(8)),
        ("designs_with_inferred_signals", sc(100)),
        ("order_twins_compared", sc(100)),
        ("ternary_domainless_condition_designs", sc(100)),
        ("ternary_domainless_condition_expected_report", sc(30)),
        ("ternary_domainless_condition_expected_clean", sc(25)),
    ]);
}
