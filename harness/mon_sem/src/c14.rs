//! C14 — combinational loop detection is exact.
//!
//! LoopLab: a tiny-design generator that builds an AST, computes the ground
//! truth on the AST with a dumb bit-level dependency graph (two-sided
//! envelope: G_precise ⊆ whatever the analyzer models ⊆ G_struct), renders
//! Veryl, runs the real analyzer and compares *presence* of
//! `combinational_loop` at design level.
//!
//! Events that refute:
//!  * the analyzer reports `combinational_loop` and even G_struct is acyclic
//!    (false positive);
//!  * G_precise has a cycle (which by construction never passes through an
//!    opaque construct) and the analyzer is silent (false negative);
//!  * for a design the analyzer accepts and G_struct calls acyclic, the
//!    simulator's backup detector (`build_ir` + one settle) errors or panics.

use crate::lab::{self, AnOut, Graph, Hist};
use std::collections::{BTreeMap, BTreeSet};
use std::sync::Arc;
use vcommon::pool::{STACK_64M, fresh_thread, par_cases};
use vcommon::rng::hash_str;
use vcommon::{Args, Json, Rng, Run, json};

/// Sensitivity knob (`--set flip=ff-is-comb`): the *reference* then wrongly treats flip-flops as
/// combinational, so the check must fire with false negatives.  Off by default.
static FLIP_FF_IS_COMB: std::sync::atomic::AtomicBool = std::sync::atomic::AtomicBool::new(false);

// ───────────────────────────── AST ─────────────────────────────

type Deps = BTreeSet<u32>;

#[derive(Clone, Debug)]
enum Ty {
    Bits(usize),
    Arr(usize, usize), // element width, length
    Struct(usize),     // index into Design::structs
}

#[derive(Clone, Debug)]
struct StructDef {
    name: String,
    fields: Vec<usize>,
}

#[derive(Clone, Copy, Debug, PartialEq, Eq)]
enum Kind {
    Clock,
    In,
    Out,
    Var,
}

#[derive(Clone, Debug)]
struct Var {
    name: String,
    ty: Ty,
    kind: Kind,
}

#[derive(Clone, Debug)]
struct Ref {
    var: usize,
    elem: Option<usize>,
    field: Option<usize>,
    sel: Option<(usize, usize)>, // hi, lo inside the unit
}

#[derive(Clone, Debug)]
enum E {
    K(usize, u64),
    R(Ref),
    Not(Box<E>),
    Neg(Box<E>),
    Bit(&'static str, Box<E>, Box<E>),
    Ari(&'static str, Box<E>, Box<E>),
    Cmp(&'static str, Box<E>, Box<E>),
    Red(&'static str, Box<E>),
    LNot(Box<E>),
    Shc(bool, Box<E>, usize), // left?, operand, constant amount
    Shv(bool, Box<E>, Box<E>),
    Mux(Box<E>, Box<E>, Box<E>),
    Cat(Vec<E>), // MSB first
    Call(usize, Vec<E>),
}

#[derive(Clone, Debug)]
enum S {
    Assign(Ref, E),
    If(E, Vec<S>, Vec<S>),
    Case(E, usize, Vec<(u64, Vec<S>)>, Option<Vec<S>>), // selector, selector width, arms, default
}

#[derive(Clone, Debug)]
struct Func {
    name: String,
    /// locals: args first (Kind::In), then `r` (Kind::Var)
    locals: Vec<Var>,
    nargs: usize,
    ret: usize,
    body: Vec<S>,
}

#[derive(Clone, Debug)]
enum Conn {
    Clock,
    In(usize, E),      // child port var index, parent expression
    Out(usize, usize), // child port var index, parent variable (whole)
}

#[derive(Clone, Debug)]
enum Item {
    Assign(Ref, E),
    Comb(Vec<S>),
    Ff(Vec<(Ref, E)>),
    Inst { name: String, module: usize, conns: Vec<Conn> },
    /// `$sv::` black box: documented opaque. ins/outs are parent variables.
    Sv { name: String, ins: Vec<usize>, outs: Vec<usize> },
}

#[derive(Clone, Debug)]
struct Module {
    name: String,
    vars: Vec<Var>,
    funcs: Vec<Func>,
    items: Vec<Item>,
}

#[derive(Clone, Debug)]
struct Design {
    structs: Vec<StructDef>,
    /// children first, top last
    modules: Vec<Module>,
    feats: BTreeSet<String>,
}

// ───────────────────────────── layout ─────────────────────────────

fn ty_width(structs: &[StructDef], ty: &Ty) -> usize {
    match ty {
        Ty::Bits(w) => *w,
        Ty::Arr(w, n) => w * n,
        Ty::Struct(s) => structs[*s].fields.iter().sum(),
    }
}

/// (flat low bit, width) of a reference inside its variable.  The flat
/// numbering of struct fields is internal (field 0 lowest); the lab never
/// mixes member access with raw bit access of a struct, so it need not match
/// the tool's packing.
fn ref_span(structs: &[StructDef], vars: &[Var], r: &Ref) -> (usize, usize) {
    let v = &vars[r.var];
    let (base, w) = match &v.ty {
        Ty::Bits(w) => (0, *w),
        Ty::Arr(w, _) => match r.elem {
            Some(k) => (k * w, *w),
            None => (0, ty_width(structs, &v.ty)),
        },
        Ty::Struct(s) => match r.field {
            Some(f) => (structs[*s].fields[..f].iter().sum(), structs[*s].fields[f]),
            None => (0, ty_width(structs, &v.ty)),
        },
    };
    match r.sel {
        Some((hi, lo)) => (base + lo, hi - lo + 1),
        None => (base, w),
    }
}

// ───────────────────────────── reference model (bitgraph) ─────────────────────────────

#[derive(Clone, Copy, PartialEq, Eq, Debug)]
enum Mode {
    /// bitwise ops/selects/concats bit-parallel; arithmetic result bit i depends on operand bits <= i;
    /// compares / reductions / variable shifts depend on all bits
    Precise,
    /// as Precise but unary minus treated as bit-parallel (used only to *classify* a false negative)
    PreciseNegParallel,
    /// every non-bitwise operator all-to-all
    Struct,
}

type State = BTreeMap<(usize, usize), Deps>;

/// Marker inside a bit's dependency set: "on some path this block leaves the bit
/// unwritten, so it keeps its live-on-entry value" (retained state).  Retention by
/// itself is not a combinational edge (a latch, not a loop) in `G_precise`; it is
/// one in `G_struct`.  A *later read* of such a bit in the same block does read the
/// variable's own net, so the marker turns into the bit's node when it is read.
const RETAIN: u32 = u32::MAX;

struct Interp<'a> {
    d: &'a Design,
    m: &'a Module,
    mode: Mode,
    inplace: bool,
    /// set when the model met something it does not implement (latch / read of a
    /// block-written bit before its first assignment): the design is discarded
    unsupported: Option<String>,
}

fn union_all(v: &[Deps]) -> Deps {
    let mut o = Deps::new();
    for x in v {
        o.extend(x.iter().copied());
    }
    o
}

impl<'a> Interp<'a> {
    /// `ext(var, bit)`: dependency set of a bit that is not in `st` (not yet assigned in this block).
    fn eval(&mut self, vars: &[Var], e: &E, st: &State, ext: &dyn Fn(usize, usize) -> Option<Deps>) -> Vec<Deps> {
        match e {
            E::K(w, _) => vec![Deps::new(); *w],
            E::R(r) => {
                let (lo, w) = ref_span(&self.d.structs, vars, r);
                let mut out = Vec::with_capacity(w);
                for b in lo..lo + w {
                    if let Some(x) = st.get(&(r.var, b)) {
                        let mut x = x.clone();
                        if x.remove(&RETAIN) {
                            match ext(r.var, b) {
                                Some(n) => x.extend(n),
                                None => self.unsupported = Some("function local retained over a branch".into()),
                            }
                        }
                        out.push(x);
                    } else {
                        match ext(r.var, b) {
                            Some(x) => out.push(x),
                            None => {
                                self.unsupported = Some(format!("read of {}[{}] before assignment in its own block", vars[r.var].name, b));
                                out.push(Deps::new());
                            }
                        }
                    }
                }
                out
            }
            E::Not(a) => self.eval(vars, a, st, ext),
            E::Neg(a) => {
                let x = self.eval(vars, a, st, ext);
                match self.mode {
                    Mode::Precise => prefix(&x),
                    Mode::PreciseNegParallel => x,
                    Mode::Struct => all_to_all(&[&x], x.len()),
                }
            }
            E::Bit(_, a, b) => {
                let x = self.eval(vars, a, st, ext);
                let y = self.eval(vars, b, st, ext);
                x.iter().zip(y.iter()).map(|(p, q)| p.union(q).copied().collect()).collect()
            }
            E::Ari(_, a, b) => {
                let x = self.eval(vars, a, st, ext);
                let y = self.eval(vars, b, st, ext);
                match self.mode {
                    Mode::Struct => all_to_all(&[&x, &y], x.len()),
                    _ => {
                        let z: Vec<Deps> = x.iter().zip(y.iter()).map(|(p, q)| p.union(q).copied().collect()).collect();
                        prefix(&z)
                    }
                }
            }
            E::Cmp(_, a, b) => {
                let x = self.eval(vars, a, st, ext);
                let y = self.eval(vars, b, st, ext);
                all_to_all(&[&x, &y], 1)
            }
            E::Red(_, a) | E::LNot(a) => {
                let x = self.eval(vars, a, st, ext);
                all_to_all(&[&x], 1)
            }
            E::Shc(left, a, k) => {
                let x = self.eval(vars, a, st, ext);
                let w = x.len();
                match self.mode {
                    Mode::Struct => all_to_all(&[&x], w),
                    _ => (0..w)
                        .map(|i| {
                            if *left {
                                if i >= *k { x[i - k].clone() } else { Deps::new() }
                            } else if i + k < w {
                                x[i + k].clone()
                            } else {
                                Deps::new()
                            }
                        })
                        .collect(),
                }
            }
            E::Shv(_, a, b) => {
                let x = self.eval(vars, a, st, ext);
                let y = self.eval(vars, b, st, ext);
                all_to_all(&[&x, &y], x.len())
            }
            E::Mux(c, a, b) => {
                let cc = union_all(&self.eval(vars, c, st, ext));
                let x = self.eval(vars, a, st, ext);
                let y = self.eval(vars, b, st, ext);
                match self.mode {
                    Mode::Struct => {
                        let cv = vec![cc];
                        all_to_all(&[&cv, &x, &y], x.len())
                    }
                    _ => x
                        .iter()
                        .zip(y.iter())
                        .map(|(p, q)| {
                            let mut s: Deps = p.union(q).copied().collect();
                            s.extend(cc.iter().copied());
                            s
                        })
                        .collect(),
                }
            }
            E::Cat(parts) => {
                let mut out = vec![];
                for p in parts.iter().rev() {
                    out.extend(self.eval(vars, p, st, ext));
                }
                out
            }
            E::Call(f, args) => {
                let func = &self.m.funcs[*f];
                let mut fst = State::new();
                for (k, a) in args.iter().enumerate() {
                    let x = self.eval(vars, a, st, ext);
                    for (b, dx) in x.into_iter().enumerate() {
                        fst.insert((k, b), dx);
                    }
                }
                let none = |_: usize, _: usize| -> Option<Deps> { None };
                self.block(&func.locals, &func.body, &mut fst, &Deps::new(), &none);
                let w = func.ret;
                (0..w)
                    .map(|b| match fst.get(&(func.nargs, b)) {
                        Some(x) => x.clone(),
                        None => {
                            self.unsupported = Some("function result bit never assigned".into());
                            Deps::new()
                        }
                    })
                    .collect()
            }
        }
    }

    /// Statement-ordered evaluation with SSA versions: `st` maps a bit that the
    /// block has assigned on the current path to its dependency set.
    fn block(&mut self, vars: &[Var], stmts: &[S], st: &mut State, ctrl: &Deps, ext: &dyn Fn(usize, usize) -> Option<Deps>) {
        for s in stmts {
            match s {
                S::Assign(r, e) => {
                    let (lo, w) = ref_span(&self.d.structs, vars, r);
                    if self.inplace {
                        // classification variant only (see Collapse::inplace)
                        for k in 0..w {
                            let x = self.eval(vars, e, st, ext);
                            let mut dx = x.get(k).cloned().unwrap_or_default();
                            dx.extend(ctrl.iter().copied());
                            st.insert((r.var, lo + k), dx);
                        }
                        continue;
                    }
                    let x = self.eval(vars, e, st, ext);
                    debug_assert_eq!(w, x.len());
                    for k in 0..w {
                        let mut dx = x.get(k).cloned().unwrap_or_default();
                        dx.extend(ctrl.iter().copied());
                        st.insert((r.var, lo + k), dx);
                    }
                }
                S::If(c, t, f) => {
                    let mut cd = union_all(&self.eval(vars, c, st, ext));
                    cd.extend(ctrl.iter().copied());
                    let mut a = st.clone();
                    self.block(vars, t, &mut a, &cd, ext);
                    let mut b = st.clone();
                    self.block(vars, f, &mut b, &cd, ext);
                    self.merge(st, vec![a, b], ext);
                }
                S::Case(sel, _, arms, default) => {
                    let mut cd = union_all(&self.eval(vars, sel, st, ext));
                    cd.extend(ctrl.iter().copied());
                    let mut states = vec![];
                    for (_, body) in arms {
                        let mut a = st.clone();
                        self.block(vars, body, &mut a, &cd, ext);
                        states.push(a);
                    }
                    match default {
                        Some(body) => {
                            let mut a = st.clone();
                            self.block(vars, body, &mut a, &cd, ext);
                            states.push(a);
                        }
                        None => states.push(st.clone()),
                    }
                    self.merge(st, states, ext);
                }
            }
        }
    }

    /// φ: a bit's value after the branch is the union over the branches; a
    /// branch that did not write the bit contributes its pre-branch value.  A
    /// bit with no pre-branch value that some branch leaves unwritten is a
    /// latch: the lab does not generate those (unsupported).
    fn merge(&mut self, st: &mut State, branches: Vec<State>, ext: &dyn Fn(usize, usize) -> Option<Deps>) {
        let mut keys: BTreeSet<(usize, usize)> = BTreeSet::new();
        for b in &branches {
            keys.extend(b.keys().copied());
        }
        for k in keys {
            let mut u = Deps::new();
            for b in &branches {
                match b.get(&k) {
                    Some(x) => u.extend(x.iter().copied()),
                    None => {
                        // no value before the branch and this branch does not write it: retained state
                        if ext(k.0, k.1).is_some() {
                            u.insert(RETAIN);
                        } else {
                            self.unsupported = Some("latch on a function local".into());
                        }
                    }
                }
            }
            st.insert(k, u);
        }
    }
}

fn has_ref(e: &E) -> bool {
    match e {
        E::K(..) => false,
        E::R(_) => true,
        E::Not(a) | E::Neg(a) | E::Red(_, a) | E::LNot(a) | E::Shc(_, a, _) => has_ref(a),
        E::Bit(_, a, b) | E::Ari(_, a, b) | E::Cmp(_, a, b) | E::Shv(_, a, b) => has_ref(a) || has_ref(b),
        E::Mux(c, a, b) => has_ref(c) || has_ref(a) || has_ref(b),
        E::Cat(p) => p.iter().any(has_ref),
        E::Call(_, a) => a.iter().any(has_ref),
    }
}

fn prefix(x: &[Deps]) -> Vec<Deps> {
    let mut acc = Deps::new();
    let mut out = Vec::with_capacity(x.len());
    for d in x {
        acc.extend(d.iter().copied());
        out.push(acc.clone());
    }
    out
}

fn all_to_all(ops: &[&Vec<Deps>], w: usize) -> Vec<Deps> {
    let mut u = Deps::new();
    for o in ops {
        for d in o.iter() {
            u.extend(d.iter().copied());
        }
    }
    vec![u; w]
}

/// Flattened bit graph of the whole design (top = last module).
struct Flat {
    g: Graph,
    labels: Vec<String>,
    unsupported: Option<String>,
}

fn label(f: &mut Flat, s: String) -> u32 {
    if let Some(i) = f.labels.iter().position(|x| *x == s) {
        return i as u32;
    }
    f.labels.push(s);
    (f.labels.len() - 1) as u32
}

/// Coarsenings used only to *classify* a false positive (never to decide one).
#[derive(Clone, Copy, PartialEq, Eq, Debug, Default)]
struct Collapse {
    /// all bits of a port of a *non-top* instance share one node (what a
    /// port-level feedthrough summary amounts to)
    ports: bool,
    /// bits of a variable share a node when no select in the module's text
    /// separates them (access-range granularity)
    ranges: bool,
    /// an assignment whose right-hand side reads its own destination variable is
    /// evaluated bit by bit in ascending order, each bit seeing the bits already
    /// updated by this very statement (instead of all pre-statement values)
    inplace: bool,
}

fn refs_in_expr(e: &E, out: &mut Vec<Ref>) {
    match e {
        E::K(..) => {}
        E::R(r) => out.push(r.clone()),
        E::Not(a) | E::Neg(a) | E::Red(_, a) | E::LNot(a) | E::Shc(_, a, _) => refs_in_expr(a, out),
        E::Bit(_, a, b) | E::Ari(_, a, b) | E::Cmp(_, a, b) | E::Shv(_, a, b) => {
            refs_in_expr(a, out);
            refs_in_expr(b, out)
        }
        E::Mux(c, a, b) => {
            refs_in_expr(c, out);
            refs_in_expr(a, out);
            refs_in_expr(b, out)
        }
        E::Cat(p) => p.iter().for_each(|x| refs_in_expr(x, out)),
        E::Call(_, a) => a.iter().for_each(|x| refs_in_expr(x, out)),
    }
}

fn refs_in_stmts(s: &[S], out: &mut Vec<Ref>) {
    for x in s {
        match x {
            S::Assign(r, e) => {
                out.push(r.clone());
                refs_in_expr(e, out);
            }
            S::If(c, t, f) => {
                refs_in_expr(c, out);
                refs_in_stmts(t, out);
                refs_in_stmts(f, out);
            }
            S::Case(c, _, arms, d) => {
                refs_in_expr(c, out);
                for (_, b) in arms {
                    refs_in_stmts(b, out);
                }
                if let Some(b) = d {
                    refs_in_stmts(b, out);
                }
            }
        }
    }
}

/// cut points per variable from every select written in the module's text
fn access_cuts(d: &Design, m: &Module) -> Vec<BTreeSet<usize>> {
    let mut refs = vec![];
    for it in &m.items {
        match it {
            Item::Assign(r, e) => {
                refs.push(r.clone());
                refs_in_expr(e, &mut refs);
            }
            Item::Comb(s) => refs_in_stmts(s, &mut refs),
            Item::Ff(a) => {
                for (r, e) in a {
                    refs.push(r.clone());
                    refs_in_expr(e, &mut refs);
                }
            }
            Item::Inst { conns, .. } => {
                for c in conns {
                    if let Conn::In(_, e) = c {
                        refs_in_expr(e, &mut refs);
                    }
                }
            }
            Item::Sv { .. } => {}
        }
    }
    let mut cuts: Vec<BTreeSet<usize>> = m.vars.iter().map(|_| BTreeSet::new()).collect();
    for r in refs {
        let (lo, w) = ref_span(&d.structs, &m.vars, &r);
        cuts[r.var].insert(lo);
        cuts[r.var].insert(lo + w);
    }
    cuts
}

/// Instantiate module `mi` under `path`; returns node ids per (var, bit).
fn flatten(d: &Design, mi: usize, path: &str, top: bool, mode: Mode, col: Collapse, f: &mut Flat) -> Vec<Vec<u32>> {
    let m = &d.modules[mi];
    let mut ids: Vec<Vec<u32>> = vec![];
    let cuts = if col.ranges { access_cuts(d, m) } else { vec![] };
    for (vi, v) in m.vars.iter().enumerate() {
        let w = ty_width(&d.structs, &v.ty);
        let is_port = matches!(v.kind, Kind::In | Kind::Out);
        if col.ports && !top && is_port {
            let n = f.g.node(format!("{path}{}[*]", v.name));
            ids.push(vec![n; w]);
        } else if col.ranges {
            let mut row = vec![];
            let mut cur = 0u32;
            for b in 0..w {
                if b == 0 || cuts[vi].contains(&b) {
                    cur = f.g.node(format!("{path}{}[{b}..]", v.name));
                }
                row.push(cur);
            }
            ids.push(row);
        } else {
            ids.push((0..w).map(|b| f.g.node(format!("{path}{}[{b}]", v.name))).collect());
        }
    }
    for (ii, item) in m.items.iter().enumerate() {
        match item {
            Item::Assign(r, e) => {
                let lab = label(f, format!("{}:assign{}", m.name, item_feats(item)));
                let mut it = Interp { d, m, mode, inplace: col.inplace, unsupported: None };
                let ids2 = &ids;
                let ext = |v: usize, b: usize| -> Option<Deps> { Some(std::iter::once(ids2[v][b]).collect()) };
                if col.inplace {
                    let mut st = State::new();
                    it.block(&m.vars, &[S::Assign(r.clone(), e.clone())], &mut st, &Deps::new(), &ext);
                    for ((v, b), dx) in st {
                        for s in dx {
                            f.g.edge(s, ids[v][b], lab);
                        }
                    }
                    continue;
                }
                let x = it.eval(&m.vars, e, &State::new(), &ext);
                if let Some(u) = it.unsupported {
                    f.unsupported = Some(u);
                }
                let (lo, w) = ref_span(&d.structs, &m.vars, r);
                for k in 0..w {
                    for s in x.get(k).into_iter().flatten() {
                        f.g.edge(*s, ids[r.var][lo + k], lab);
                    }
                }
            }
            Item::Comb(stmts) => {
                let lab = label(f, format!("{}:always_comb{}", m.name, item_feats(item)));
                let mut it = Interp { d, m, mode, inplace: col.inplace, unsupported: None };
                // a bit read before the block has assigned it on the current path reads the
                // variable's own net (its live-on-entry value): a real combinational read
                let ids2 = &ids;
                let ext = |v: usize, b: usize| -> Option<Deps> { Some(std::iter::once(ids2[v][b]).collect()) };
                let mut st = State::new();
                it.block(&m.vars, stmts, &mut st, &Deps::new(), &ext);
                if let Some(u) = it.unsupported {
                    f.unsupported = Some(u);
                }
                for ((v, b), dx) in st {
                    for s in dx {
                        if s == RETAIN {
                            // retained state: an edge only in the structural envelope
                            if mode == Mode::Struct {
                                f.g.edge(ids[v][b], ids[v][b], lab);
                            }
                        } else {
                            f.g.edge(s, ids[v][b], lab);
                        }
                    }
                }
            }
            Item::Ff(a) => {
                // a flip-flop breaks every combinational path (unless the sensitivity knob is on)
                if FLIP_FF_IS_COMB.load(std::sync::atomic::Ordering::Relaxed) {
                    let lab = label(f, format!("{}:always_ff-as-comb", m.name));
                    for (r, e) in a {
                        let mut it = Interp { d, m, mode, inplace: false, unsupported: None };
                        let ids2 = &ids;
                        let ext = |v: usize, b: usize| -> Option<Deps> { Some(std::iter::once(ids2[v][b]).collect()) };
                        let x = it.eval(&m.vars, e, &State::new(), &ext);
                        let (lo, w) = ref_span(&d.structs, &m.vars, r);
                        for k in 0..w {
                            for s in x.get(k).into_iter().flatten() {
                                f.g.edge(*s, ids[r.var][lo + k], lab);
                            }
                        }
                    }
                }
            }
            Item::Inst { name, module, conns } => {
                let lab = label(f, format!("{}:inst-conn", m.name));
                let child = flatten(d, *module, &format!("{path}{name}."), false, mode, col, f);
                for c in conns {
                    match c {
                        Conn::Clock => {}
                        Conn::In(p, e) => {
                            let mut it = Interp { d, m, mode, inplace: col.inplace, unsupported: None };
                            let ids2 = &ids;
                            let ext = |v: usize, b: usize| -> Option<Deps> { Some(std::iter::once(ids2[v][b]).collect()) };
                            let x = it.eval(&m.vars, e, &State::new(), &ext);
                            if let Some(u) = it.unsupported {
                                f.unsupported = Some(u);
                            }
                            for (k, dx) in x.iter().enumerate() {
                                for s in dx {
                                    f.g.edge(*s, child[*p][k], lab);
                                }
                            }
                        }
                        Conn::Out(p, pv) => {
                            for k in 0..child[*p].len() {
                                f.g.edge(child[*p][k], ids[*pv][k], lab);
                            }
                        }
                    }
                }
                let _ = ii;
            }
            Item::Sv { ins, outs, .. } => {
                // documented opaque: no edge in the precise graph (no verdict can
                // rest on it); the structural graph assumes any input may reach any output
                if mode == Mode::Struct {
                    let lab = label(f, format!("{}:sv-blackbox", m.name));
                    for i in ins {
                        for o in outs {
                            for &s in &ids[*i] {
                                for &t in &ids[*o] {
                                    f.g.edge(s, t, lab);
                                }
                            }
                        }
                    }
                }
            }
        }
    }
    ids
}

fn collect_written(structs: &[StructDef], vars: &[Var], stmts: &[S], out: &mut BTreeSet<(usize, usize)>) {
    for s in stmts {
        match s {
            S::Assign(r, _) => {
                let (lo, w) = ref_span(structs, vars, r);
                for b in lo..lo + w {
                    out.insert((r.var, b));
                }
            }
            S::If(_, t, f) => {
                collect_written(structs, vars, t, out);
                collect_written(structs, vars, f, out);
            }
            S::Case(_, _, arms, d) => {
                for (_, b) in arms {
                    collect_written(structs, vars, b, out);
                }
                if let Some(b) = d {
                    collect_written(structs, vars, b, out);
                }
            }
        }
    }
}

fn build(d: &Design, mode: Mode, col: Collapse) -> Flat {
    // every module is also checked on its own (the tool checks each module; a child nobody
    // instantiates can still contain a loop), so every module is a root of the flattened graph
    let mut f = Flat { g: Graph::default(), labels: vec![], unsupported: None };
    for mi in 0..d.modules.len() {
        let prefix = format!("{}::", d.modules[mi].name);
        flatten(d, mi, &prefix, true, mode, col, &mut f);
    }
    f
}

// feature strings per item (for witness classification)
fn expr_feats(e: &E, out: &mut BTreeSet<&'static str>) {
    match e {
        E::K(..) => {}
        E::R(r) => {
            if r.sel.is_some() {
                out.insert("select");
            }
            if r.elem.is_some() {
                out.insert("array");
            }
            if r.field.is_some() {
                out.insert("struct");
            }
        }
        E::Not(a) => expr_feats(a, out),
        E::Neg(a) => {
            out.insert("neg");
            expr_feats(a, out)
        }
        E::Bit(_, a, b) => {
            expr_feats(a, out);
            expr_feats(b, out)
        }
        E::Ari(_, a, b) => {
            out.insert("arith");
            expr_feats(a, out);
            expr_feats(b, out)
        }
        E::Cmp(_, a, b) => {
            out.insert("cmp");
            expr_feats(a, out);
            expr_feats(b, out)
        }
        E::Red(_, a) | E::LNot(a) => {
            out.insert("reduce");
            expr_feats(a, out)
        }
        E::Shc(_, a, _) => {
            out.insert("shift-const");
            expr_feats(a, out)
        }
        E::Shv(_, a, b) => {
            out.insert("shift-var");
            expr_feats(a, out);
            expr_feats(b, out)
        }
        E::Mux(c, a, b) => {
            out.insert("ternary");
            expr_feats(c, out);
            expr_feats(a, out);
            expr_feats(b, out)
        }
        E::Cat(p) => {
            out.insert("concat");
            for x in p {
                expr_feats(x, out);
            }
        }
        E::Call(_, a) => {
            out.insert("function");
            for x in a {
                expr_feats(x, out);
            }
        }
    }
}

fn stmt_feats(s: &[S], out: &mut BTreeSet<&'static str>) {
    for x in s {
        match x {
            S::Assign(r, e) => {
                expr_feats(&E::R(r.clone()), out);
                expr_feats(e, out);
            }
            S::If(c, t, f) => {
                out.insert("if");
                expr_feats(c, out);
                stmt_feats(t, out);
                stmt_feats(f, out);
            }
            S::Case(c, _, arms, d) => {
                out.insert("case");
                expr_feats(c, out);
                for (_, b) in arms {
                    stmt_feats(b, out);
                }
                if let Some(b) = d {
                    stmt_feats(b, out);
                }
            }
        }
    }
}

fn item_feats(item: &Item) -> String {
    let mut s = BTreeSet::new();
    match item {
        Item::Assign(r, e) => {
            expr_feats(&E::R(r.clone()), &mut s);
            expr_feats(e, &mut s);
        }
        Item::Comb(st) => stmt_feats(st, &mut s),
        _ => {}
    }
    if s.is_empty() { String::new() } else { format!("[{}]", s.into_iter().collect::<Vec<_>>().join(",")) }
}

// ───────────────────────────── generator ─────────────────────────────

struct Gen<'a> {
    rng: &'a mut Rng,
    structs: Vec<StructDef>,
    feats: BTreeSet<String>,
    /// per-design probability (permille) that a leaf reference may pick *any* variable
    /// (not only one that is earlier in the acyclic rank order)
    p_any: u64,
}

struct MCtx {
    vars: Vec<Var>,
    /// rank per var: sources (inputs, registers) are 0
    rank: Vec<usize>,
    funcs: Vec<Func>,
    /// variables that must not be read right now (targets of the always_comb
    /// block under construction that have no default yet)
    blocked: BTreeSet<usize>,
}

impl<'a> Gen<'a> {
    fn feat(&mut self, s: &str) {
        self.feats.insert(s.to_string());
    }

    /// units of a variable: (elem, field, width)
    fn units(&self, v: &Var) -> Vec<(Option<usize>, Option<usize>, usize)> {
        match &v.ty {
            Ty::Bits(w) => vec![(None, None, *w)],
            Ty::Arr(w, n) => (0..*n).map(|k| (Some(k), None, *w)).collect(),
            Ty::Struct(s) => self.structs[*s].fields.iter().enumerate().map(|(f, w)| (None, Some(f), *w)).collect(),
        }
    }

    /// a reference of exactly `w` bits among variables allowed at rank `r`
    fn leaf_ref(&mut self, cx: &MCtx, w: usize, r: usize, pool: &[usize]) -> Option<Ref> {
        let any = self.rng.below(1000) < self.p_any;
        for _ in 0..12 {
            let vi = *self.rng.pick(pool);
            let v = &cx.vars[vi];
            if v.kind == Kind::Clock || cx.blocked.contains(&vi) {
                continue;
            }
            if !any && cx.rank[vi] >= r {
                continue;
            }
            let units = self.units(v);
            let (elem, field, uw) = units[self.rng.usize(units.len())];
            if uw < w {
                continue;
            }
            let sel = if uw == w && self.rng.chance(3, 4) {
                None
            } else {
                let lo = self.rng.usize(uw - w + 1);
                Some((lo + w - 1, lo))
            };
            if sel.is_some() {
                self.feat(if w == 1 { "read:bit-select" } else { "read:part-select" });
            }
            if elem.is_some() {
                self.feat("read:array-element");
            }
            if field.is_some() {
                self.feat("read:struct-member");
            }
            return Some(Ref { var: vi, elem, field, sel });
        }
        None
    }

    fn leaf(&mut self, cx: &MCtx, w: usize, r: usize, pool: &[usize]) -> E {
        if self.rng.chance(1, 10) {
            return E::K(w, self.rng.below(1u64 << w.min(16)));
        }
        if let Some(x) = self.leaf_ref(cx, w, r, pool) {
            return E::R(x);
        }
        if w >= 2 {
            let a = 1 + self.rng.usize(w - 1);
            self.feat("expr:concat");
            return E::Cat(vec![self.leaf(cx, w - a, r, pool), self.leaf(cx, a, r, pool)]);
        }
        E::K(w, self.rng.below(2))
    }

    fn expr(&mut self, cx: &MCtx, w: usize, depth: usize, r: usize, pool: &[usize]) -> E {
        if depth == 0 {
            return self.leaf(cx, w, r, pool);
        }
        let d = depth - 1;
        let k = self.rng.below(100);
        match k {
            0..=21 => self.leaf(cx, w, r, pool),
            22..=28 => E::Not(Box::new(self.expr(cx, w, d, r, pool))),
            29..=35 if w >= 2 => {
                self.feat("expr:unary-minus");
                E::Neg(Box::new(self.expr(cx, w, d, r, pool)))
            }
            36..=55 => {
                let op = *self.rng.pick(&["&", "|", "^", "~^"]);
                E::Bit(op, Box::new(self.expr(cx, w, d, r, pool)), Box::new(self.expr(cx, w, d, r, pool)))
            }
            56..=64 if w >= 2 => {
                self.feat("expr:arith");
                let op = *self.rng.pick(&["+", "-"]);
                E::Ari(op, Box::new(self.expr(cx, w, d, r, pool)), Box::new(self.expr(cx, w, d, r, pool)))
            }
            65..=69 if w >= 2 => {
                self.feat("expr:shift-const");
                let amt = 1 + self.rng.usize(w - 1);
                E::Shc(self.rng.bool(), Box::new(self.expr(cx, w, d, r, pool)), amt)
            }
            70..=71 if w >= 2 => {
                self.feat("expr:shift-var");
                let aw = 1 + self.rng.usize(2);
                E::Shv(self.rng.bool(), Box::new(self.expr(cx, w, d, r, pool)), Box::new(self.leaf_sig(cx, aw, r, pool)))
            }
            72..=79 => {
                self.feat("expr:ternary");
                let c = self.cond(cx, r, pool);
                E::Mux(Box::new(c), Box::new(self.expr(cx, w, d, r, pool)), Box::new(self.expr(cx, w, d, r, pool)))
            }
            80..=88 if w >= 2 => {
                self.feat("expr:concat");
                let a = 1 + self.rng.usize(w - 1);
                E::Cat(vec![self.expr(cx, w - a, d, r, pool), self.expr(cx, a, d, r, pool)])
            }
            89..=94 => {
                let cands: Vec<usize> = (0..cx.funcs.len()).filter(|f| cx.funcs[*f].ret == w).collect();
                if cands.is_empty() {
                    return self.leaf(cx, w, r, pool);
                }
                self.feat("expr:function-call");
                let f = *self.rng.pick(&cands);
                let widths: Vec<usize> = (0..cx.funcs[f].nargs).map(|k| ty_width(&self.structs, &cx.funcs[f].locals[k].ty)).collect();
                let args = widths.into_iter().map(|aw| self.expr(cx, aw, d.min(1), r, pool)).collect();
                E::Call(f, args)
            }
            _ if w == 1 => self.cond(cx, r, pool),
            _ => self.leaf(cx, w, r, pool),
        }
    }

    /// a 1-bit expression made from a comparison / reduction / logical not / plain bit
    fn cond(&mut self, cx: &MCtx, r: usize, pool: &[usize]) -> E {
        match self.rng.below(5) {
            0 => {
                self.feat("expr:compare");
                let w = 1 + self.rng.usize(3);
                let op = *self.rng.pick(&["==", "!=", "<:", ">="]);
                E::Cmp(op, Box::new(self.leaf_sig(cx, w, r, pool)), Box::new(self.leaf(cx, w, r, pool)))
            }
            1 => {
                self.feat("expr:reduction");
                let w = 2 + self.rng.usize(3);
                let op = *self.rng.pick(&["&", "|", "^"]);
                E::Red(op, Box::new(self.leaf_sig(cx, w, r, pool)))
            }
            2 => {
                self.feat("expr:logical-not");
                E::LNot(Box::new(self.leaf_sig(cx, 1, r, pool)))
            }
            _ => self.leaf_sig(cx, 1, r, pool),
        }
    }

    /// a leaf that is never a bare constant (conditions must depend on a signal)
    fn leaf_sig(&mut self, cx: &MCtx, w: usize, r: usize, pool: &[usize]) -> E {
        for _ in 0..8 {
            let e = self.leaf(cx, w, r, pool);
            if has_ref(&e) {
                return e;
            }
        }
        // fall back to the first non-clock variable's low bits
        for &vi in pool {
            if cx.blocked.contains(&vi) || cx.vars[vi].kind != Kind::In {
                continue;
            }
            if let Ty::Bits(vw) = cx.vars[vi].ty
                && vw >= w
            {
                return E::R(Ref { var: vi, elem: None, field: None, sel: if vw == w { None } else { Some((w - 1, 0)) } });
            }
        }
        self.leaf(cx, w, r, pool)
    }

    fn function(&mut self, idx: usize) -> Func {
        let nargs = 1 + self.rng.usize(2);
        let ret = 1 + self.rng.usize(4);
        let mut locals = vec![];
        for k in 0..nargs {
            let w = if k == 0 { ret.max(1 + self.rng.usize(4)) } else { 1 + self.rng.usize(4) };
            locals.push(Var { name: format!("a{k}"), ty: Ty::Bits(w), kind: Kind::In });
        }
        locals.push(Var { name: "r".into(), ty: Ty::Bits(ret), kind: Kind::Var });
        // body: r = expr(args); optional partial override under if
        let cx = MCtx { vars: locals.clone(), rank: vec![0; nargs + 1], funcs: vec![], blocked: BTreeSet::new() };
        let pool: Vec<usize> = (0..nargs).collect();
        let save = self.p_any;
        self.p_any = 0;
        let mut body = vec![S::Assign(Ref { var: nargs, elem: None, field: None, sel: None }, self.expr(&cx, ret, 2, 1, &pool))];
        if self.rng.chance(1, 2) {
            let pool2: Vec<usize> = (0..=nargs).collect();
            let mut cx2 = MCtx { vars: locals.clone(), rank: vec![0; nargs + 1], funcs: vec![], blocked: BTreeSet::new() };
            cx2.rank[nargs] = 0;
            let lo = self.rng.usize(ret);
            let hi = lo + self.rng.usize(ret - lo);
            let w = hi - lo + 1;
            let tgt = Ref { var: nargs, elem: None, field: None, sel: if w == ret { None } else { Some((hi, lo)) } };
            let st = S::Assign(tgt, self.expr(&cx2, w, 1, 1, &pool2));
            if self.rng.bool() {
                let c = self.cond(&cx, 1, &pool);
                body.push(S::If(c, vec![st], vec![]));
                self.feat("function:if");
            } else {
                body.push(st);
                self.feat("function:reassign");
            }
        }
        self.p_any = save;
        Func { name: format!("f{idx}"), locals, nargs, ret, body }
    }

    /// an assignment statement to (part of) one unit of `targets` inside always_comb
    fn comb_assign(&mut self, cx: &MCtx, targets: &[usize], r: usize, pool: &[usize], partial_ok: bool) -> S {
        let t = *self.rng.pick(targets);
        let units = self.units(&cx.vars[t]);
        let (elem, field, uw) = units[self.rng.usize(units.len())];
        let (sel, w) = if partial_ok && uw >= 2 && self.rng.chance(3, 5) {
            let lo = self.rng.usize(uw);
            let hi = lo + self.rng.usize(uw - lo);
            self.feat("comb:partial-reassign");
            (Some((hi, lo)), hi - lo + 1)
        } else {
            self.feat("comb:whole-reassign");
            (None, uw)
        };
        if elem.is_some() {
            self.feat("write:array-element");
        }
        if field.is_some() {
            self.feat("write:struct-member");
        }
        S::Assign(Ref { var: t, elem, field, sel }, self.expr(cx, w, 2, r, pool))
    }

    /// `w` bits taken from variable `v` (zero-padded when `v` is narrower)
    fn own_bits(&mut self, cx: &MCtx, v: usize, w: usize) -> E {
        let vw = match cx.vars[v].ty {
            Ty::Bits(x) => x,
            _ => unreachable!(),
        };
        let whole = Ref { var: v, elem: None, field: None, sel: None };
        if vw == w {
            E::R(whole)
        } else if vw > w {
            let lo = self.rng.usize(vw - w + 1);
            E::R(Ref { sel: Some((lo + w - 1, lo)), ..whole })
        } else {
            E::Cat(vec![E::K(w - vw, 0), E::R(whole)])
        }
    }

    /// one branching statement in which `t` reads `src` (itself, or the partner variable) in one
    /// branch and is only partly / conditionally assigned in the sibling branch
    fn feedback_if(&mut self, cx: &MCtx, t: usize, w: usize, src: usize, r: usize, pool: &[usize]) -> S {
        // pool without the block's own variables: the other operands come from outside
        let whole = Ref { var: t, elem: None, field: None, sel: None };
        let own = self.own_bits(cx, src, w);
        let other = self.expr(cx, w, 1, r, pool);
        let self_rhs = match self.rng.below(4) {
            0 => E::Bit("&", Box::new(own), Box::new(other)),
            1 => E::Bit("^", Box::new(other), Box::new(own)),
            2 if w >= 2 => E::Ari("+", Box::new(own), Box::new(other)),
            _ => {
                let c = self.cond(cx, r, pool);
                E::Mux(Box::new(c), Box::new(own), Box::new(other))
            }
        };
        let self_branch = vec![S::Assign(whole.clone(), self_rhs)];
        // sibling: nested if without else, or case without default, writing the whole variable or a part of it
        let (sel, pw) = if w >= 2 && self.rng.chance(1, 3) {
            let lo = self.rng.usize(w);
            let hi = lo + self.rng.usize(w - lo);
            self.feat("comb:feedback-sibling-writes-part");
            (Some((hi, lo)), hi - lo + 1)
        } else {
            (None, w)
        };
        let inner_assign = S::Assign(Ref { sel, ..whole.clone() }, self.expr(cx, pw, 1, r, pool));
        let sibling = if self.rng.chance(1, 3) {
            self.feat("comb:feedback-sibling-case-without-default");
            let sel_e = self.leaf_sig(cx, 2, r, pool);
            let l = self.rng.below(4);
            vec![S::Case(sel_e, 2, vec![(l, vec![inner_assign])], None)]
        } else if self.rng.chance(1, 5) {
            self.feat("comb:feedback-sibling-empty");
            vec![]
        } else {
            self.feat("comb:feedback-sibling-nested-if");
            let c2 = self.cond(cx, r, pool);
            vec![S::If(c2, vec![inner_assign], vec![])]
        };
        let c1 = self.cond(cx, r, pool);
        if self.rng.bool() {
            self.feat("comb:feedback-self-read-in-first-branch");
            S::If(c1, self_branch, sibling)
        } else {
            self.feat("comb:feedback-self-read-in-second-branch");
            S::If(c1, sibling, self_branch)
        }
    }

    fn feedback_shape(&mut self, cx: &MCtx, t: usize, w: usize, partner: Option<usize>, r: usize, pool: &[usize]) -> Vec<S> {
        // operands other than the deliberate self / partner read come from outside the block
        let mut cx3 = MCtx { vars: cx.vars.clone(), rank: cx.rank.clone(), funcs: cx.funcs.clone(), blocked: cx.blocked.clone() };
        cx3.blocked.insert(t);
        if let Some(p) = partner {
            cx3.blocked.insert(p);
        }
        let save = self.p_any;
        self.p_any = 0;
        let mut out = vec![];
        let with_default = self.rng.bool();
        self.feat("comb:feedback-shape");
        self.feat(if with_default { "comb:feedback-with-prior-default" } else { "comb:feedback-without-default" });
        let mut targets = vec![t];
        targets.extend(partner);
        if with_default {
            for &v in &targets {
                let vw = ty_width(&self.structs, &cx.vars[v].ty);
                out.push(S::Assign(Ref { var: v, elem: None, field: None, sel: None }, self.expr(&cx3, vw, 1, r, pool)));
            }
        }
        match partner {
            None => out.push(self.feedback_if(&cx3, t, w, t, r, pool)),
            Some(p) => {
                self.feat("comb:feedback-cross-variable");
                let pw = ty_width(&self.structs, &cx.vars[p].ty);
                out.push(self.feedback_if(&cx3, t, w, p, r, pool));
                out.push(self.feedback_if(&cx3, p, pw, t, r, pool));
            }
        }
        self.p_any = save;
        out
    }

    fn comb_block(&mut self, cx: &MCtx, targets: &[usize], r: usize, pool: &[usize]) -> Vec<S> {
        let mut out = vec![];
        // defaults first: every unit of every target, reading only lower ranks or earlier targets
        let mut cx2 = MCtx { vars: cx.vars.clone(), rank: cx.rank.clone(), funcs: cx.funcs.clone(), blocked: targets.iter().copied().collect() };
        let mut done: BTreeSet<usize> = BTreeSet::new();
        for (k, &t) in targets.iter().enumerate() {
            if done.contains(&t) {
                continue;
            }
            // conditional self-reference / retained-state shapes (plain Bits targets only)
            if let Ty::Bits(w) = cx.vars[t].ty
                && self.rng.chance(3, 10)
            {
                // cross-variable partner: another plain target of this block that has no statements yet
                let partner = targets[k + 1..].iter().copied().find(|p| matches!(cx.vars[*p].ty, Ty::Bits(_)) && !done.contains(p)).filter(|_| self.rng.chance(1, 2));
                out.extend(self.feedback_shape(&cx2, t, w, partner, r, pool));
                cx2.rank[t] = 0;
                cx2.blocked.remove(&t);
                done.insert(t);
                if let Some(p) = partner {
                    cx2.rank[p] = 0;
                    cx2.blocked.remove(&p);
                    done.insert(p);
                }
                continue;
            }
            for (elem, field, uw) in self.units(&cx.vars[t]) {
                let e = self.expr(&cx2, uw, 2, r, pool);
                out.push(S::Assign(Ref { var: t, elem, field, sel: None }, e));
            }
            // from now on this target counts as "already defined" for the acyclic rank rule:
            // a later read of it inside the block sees the block's own version
            cx2.rank[t] = 0;
            cx2.blocked.remove(&t);
            let _ = k;
        }
        // now every read of a target sees an SSA version, never the variable's final value
        let n = 1 + self.rng.usize(4);
        for _ in 0..n {
            match self.rng.below(10) {
                0..=4 => out.push(self.comb_assign(&cx2, targets, r, pool, true)),
                5..=7 => {
                    self.feat("comb:if");
                    let c = self.cond(&cx2, r, pool);
                    let t = (0..1 + self.rng.usize(2)).map(|_| self.comb_assign(&cx2, targets, r, pool, true)).collect();
                    let f = if self.rng.bool() {
                        self.feat("comb:if-else");
                        (0..1 + self.rng.usize(2)).map(|_| self.comb_assign(&cx2, targets, r, pool, true)).collect()
                    } else {
                        vec![]
                    };
                    let mut st = S::If(c, t, f);
                    if self.rng.chance(1, 4) {
                        self.feat("comb:nested-if");
                        let c2 = self.cond(&cx2, r, pool);
                        let other = self.comb_assign(&cx2, targets, r, pool, true);
                        st = S::If(c2, vec![st, other], vec![]);
                    }
                    out.push(st);
                }
                _ => {
                    self.feat("comb:case");
                    let sw = 1 + self.rng.usize(2);
                    let sel = self.leaf_sig(&cx2, sw, r, pool);
                    let narms = 1 + self.rng.usize((1usize << sw).min(3));
                    let mut labels: Vec<u64> = (0..(1u64 << sw)).collect();
                    self.rng.shuffle(&mut labels);
                    let arms = labels[..narms].iter().map(|l| (*l, vec![self.comb_assign(&cx2, targets, r, pool, true)])).collect();
                    let default = if self.rng.bool() {
                        self.feat("comb:case-default");
                        Some(vec![self.comb_assign(&cx2, targets, r, pool, true)])
                    } else {
                        None
                    };
                    out.push(S::Case(sel, sw, arms, default));
                }
            }
        }
        out
    }

    fn module(&mut self, name: &str, top: bool, children: &[Module], child_base: usize, allow_inst: bool) -> Module {
        let mut vars = vec![Var { name: "i_clk".into(), ty: Ty::Bits(1), kind: Kind::Clock }];
        let maxw = if top { 8 } else { 4 };
        let nin = 2 + self.rng.usize(if top { 3 } else { 2 });
        for k in 0..nin {
            vars.push(Var { name: format!("i{k}"), ty: Ty::Bits(1 + self.rng.usize(maxw)), kind: Kind::In });
        }
        let nout = 1 + self.rng.usize(if top { 3 } else { 2 });
        for k in 0..nout {
            vars.push(Var { name: format!("o{k}"), ty: Ty::Bits(1 + self.rng.usize(maxw)), kind: Kind::Out });
        }
        let nvar = if top { 3 + self.rng.usize(5) } else { self.rng.usize(3) };
        for k in 0..nvar {
            let ty = match self.rng.below(10) {
                0..=6 => Ty::Bits(1 + self.rng.usize(maxw)),
                7..=8 => {
                    self.feat("type:array");
                    Ty::Arr(1 + self.rng.usize(4), 2 + self.rng.usize(2))
                }
                _ => {
                    self.feat("type:struct");
                    if self.structs.is_empty() || self.rng.chance(1, 3) {
                        let n = 2 + self.rng.usize(2);
                        let fields = (0..n).map(|_| 1 + self.rng.usize(4)).collect();
                        self.structs.push(StructDef { name: format!("S{}", self.structs.len()), fields });
                    }
                    Ty::Struct(self.rng.usize(self.structs.len()))
                }
            };
            vars.push(Var { name: format!("v{k}"), ty, kind: Kind::Var });
        }
        let mut funcs = vec![];
        if self.rng.chance(2, 5) {
            let n = 1 + self.rng.usize(2);
            for k in 0..n {
                funcs.push(self.function(k));
            }
            self.feat("module:function");
        }

        // instances: each output drives a fresh parent variable
        let mut items: Vec<Item> = vec![];
        let mut inst_plans: Vec<(usize, Vec<(usize, usize)>)> = vec![]; // (child module, [(child out port, parent var)])
        if allow_inst && !children.is_empty() {
            let n = if self.rng.chance(3, 5) { 1 + self.rng.usize(2) } else { 0 };
            for _ in 0..n {
                let ci = self.rng.usize(children.len());
                let mut outs = vec![];
                for (pi, p) in children[ci].vars.iter().enumerate() {
                    if p.kind == Kind::Out {
                        vars.push(Var { name: format!("z{}", vars.len()), ty: p.ty.clone(), kind: Kind::Var });
                        outs.push((pi, vars.len() - 1));
                    }
                }
                inst_plans.push((ci, outs));
            }
        }
        // sv black box
        let mut sv_plan: Option<usize> = None;
        if top && self.rng.chance(1, 12) {
            vars.push(Var { name: format!("z{}", vars.len()), ty: Ty::Bits(1 + self.rng.usize(4)), kind: Kind::Var });
            sv_plan = Some(vars.len() - 1);
        }

        // rank order over driven variables
        let mut driven: Vec<usize> = (0..vars.len()).filter(|i| matches!(vars[*i].kind, Kind::Out | Kind::Var)).collect();
        self.rng.shuffle(&mut driven);
        let mut rank = vec![0usize; vars.len()];
        for (k, v) in driven.iter().enumerate() {
            rank[*v] = k + 1;
        }
        // registers: a few plain Bits variables become flip-flops (rank 0: readable anywhere without a comb path)
        let inst_driven: BTreeSet<usize> = inst_plans.iter().flat_map(|p| p.1.iter().map(|x| x.1)).chain(sv_plan).collect();
        let mut regs = BTreeSet::new();
        for &v in &driven {
            if !inst_driven.contains(&v) && matches!(vars[v].ty, Ty::Bits(_)) && self.rng.chance(1, 7) {
                regs.insert(v);
                rank[v] = 0;
            }
        }
        let cx = MCtx { vars: vars.clone(), rank, funcs: funcs.clone(), blocked: BTreeSet::new() };
        let pool: Vec<usize> = (0..vars.len()).filter(|i| vars[*i].kind != Kind::Clock).collect();

        // instance items
        for (k, (ci, outs)) in inst_plans.iter().enumerate() {
            let child = &children[*ci];
            // the instance's inputs may read anything whose rank is below the lowest output var's rank
            let r = outs.iter().map(|o| cx.rank[o.1]).min().unwrap_or(1);
            let mut conns = vec![];
            for (pi, p) in child.vars.iter().enumerate() {
                match p.kind {
                    Kind::Clock => conns.push(Conn::Clock),
                    Kind::In => {
                        let w = ty_width(&self.structs, &p.ty);
                        let e = if self.rng.chance(2, 3) { self.leaf(&cx, w, r, &pool) } else { self.expr(&cx, w, 1, r, &pool) };
                        conns.push(Conn::In(pi, e));
                    }
                    Kind::Out => conns.push(Conn::Out(pi, outs.iter().find(|o| o.0 == pi).unwrap().1)),
                    Kind::Var => {}
                }
            }
            self.feat("module:instance");
            items.push(Item::Inst { name: format!("u{k}"), module: child_base + *ci, conns });
        }
        if let Some(z) = sv_plan {
            let n = 1 + self.rng.usize(2);
            let mut ins = vec![];
            for _ in 0..n {
                let v = *self.rng.pick(&pool);
                if v != z && matches!(vars[v].ty, Ty::Bits(_)) && !ins.contains(&v) {
                    ins.push(v);
                }
            }
            self.feat("module:sv-blackbox");
            items.push(Item::Sv { name: "bb".into(), ins, outs: vec![z] });
        }

        // drivers for everything else
        let mut todo: Vec<usize> = driven.iter().copied().filter(|v| !inst_driven.contains(v)).collect();
        while let Some(v) = todo.pop() {
            if regs.contains(&v) {
                let w = ty_width(&self.structs, &vars[v].ty);
                // a register may read anything, itself included
                let save = self.p_any;
                self.p_any = self.p_any.max(300);
                let e = self.expr(&cx, w, 2, usize::MAX, &pool);
                self.p_any = save;
                self.feat("module:always_ff");
                items.push(Item::Ff(vec![(Ref { var: v, elem: None, field: None, sel: None }, e)]));
                continue;
            }
            let r = cx.rank[v];
            let style = self.rng.below(10);
            if style < 3 {
                // always_comb driving this and maybe up to two more not-yet-driven variables
                let mut targets = vec![v];
                while targets.len() < 3 && self.rng.chance(1, 3) {
                    if let Some(pos) = todo.iter().rposition(|x| !regs.contains(x)) {
                        targets.push(todo.remove(pos));
                    } else {
                        break;
                    }
                }
                let r = targets.iter().map(|t| cx.rank[*t]).min().unwrap();
                self.feat("module:always_comb");
                items.push(Item::Comb(self.comb_block(&cx, &targets, r, &pool)));
                continue;
            }
            // assign statements, unit by unit, possibly split into ranges
            for (elem, field, uw) in self.units(&vars[v]) {
                if elem.is_some() {
                    self.feat("write:array-element");
                }
                if field.is_some() {
                    self.feat("write:struct-member");
                }
                if uw >= 2 && style >= 6 {
                    // split into 2..3 contiguous ranges
                    let mut cuts = vec![0, uw];
                    let n = 1 + self.rng.usize(2.min(uw - 1));
                    while cuts.len() < n + 2 {
                        let c = 1 + self.rng.usize(uw - 1);
                        if !cuts.contains(&c) {
                            cuts.push(c);
                        }
                    }
                    cuts.sort();
                    for p in cuts.windows(2) {
                        let (lo, hi) = (p[0], p[1] - 1);
                        let w = hi - lo + 1;
                        self.feat(if w == 1 { "write:bit-select" } else { "write:part-select" });
                        items.push(Item::Assign(Ref { var: v, elem, field, sel: Some((hi, lo)) }, self.expr(&cx, w, 2, r, &pool)));
                    }
                } else {
                    items.push(Item::Assign(Ref { var: v, elem, field, sel: None }, self.expr(&cx, uw, 2, r, &pool)));
                }
            }
        }
        self.rng.shuffle(&mut items);
        Module { name: name.to_string(), vars, funcs, items }
    }
}

fn generate(rng: &mut Rng) -> Design {
    let p_any = *rng.pick(&[0u64, 0, 30, 60, 120, 250]);
    let mut g = Gen { rng, structs: vec![], feats: BTreeSet::new(), p_any };
    let mut modules: Vec<Module> = vec![];
    // leaf children
    let nleaf = g.rng.usize(3);
    for k in 0..nleaf {
        // a feed-through-heavy child now and then: `assign o = i`-like bodies come out of p_any = 0 and depth-0 leaves
        let m = g.module(&format!("Leaf{k}"), false, &[], 0, false);
        modules.push(m);
    }
    // mid-level child instantiating leaves
    if nleaf > 0 && g.rng.chance(1, 3) {
        let leaves = modules.clone();
        let m = g.module("Mid0", false, &leaves, 0, true);
        if m.items.iter().any(|i| matches!(i, Item::Inst { .. })) {
            g.feat("hierarchy:three-level");
        }
        modules.push(m);
    }
    let children = modules.clone();
    let top = g.module("Top", true, &children, 0, true);
    modules.push(top);
    let feats = g.feats.clone();
    let structs = g.structs.clone();
    let mut d = Design { structs, modules, feats };
    // hierarchy features
    let mut f = BTreeSet::new();
    classify_children(&d, &mut f);
    d.feats.extend(f);
    d
}

/// Which kinds of child ports exist (feed-through vs registered), from the reference graph of each child alone.
fn classify_children(d: &Design, out: &mut BTreeSet<String>) {
    for mi in 0..d.modules.len() - 1 {
        let mut f = Flat { g: Graph::default(), labels: vec![], unsupported: None };
        let ids = flatten(d, mi, "", true, Mode::Precise, Collapse::default(), &mut f);
        let m = &d.modules[mi];
        let mut any_ft = false;
        for (oi, o) in m.vars.iter().enumerate() {
            if o.kind != Kind::Out {
                continue;
            }
            // reachable from any input?
            let mut reach = false;
            for (ii, i) in m.vars.iter().enumerate() {
                if i.kind != Kind::In {
                    continue;
                }
                for &s in &ids[ii] {
                    if reaches(&f.g, s, &ids[oi]) {
                        reach = true;
                    }
                }
            }
            if reach {
                any_ft = true;
            } else {
                out.insert("child:non-feedthrough-output".into());
            }
        }
        if any_ft {
            out.insert("child:feedthrough-output".into());
        }
        if m.items.iter().any(|i| matches!(i, Item::Ff(_))) {
            out.insert("child:registered".into());
        }
    }
}

fn reaches(g: &Graph, s: u32, targets: &[u32]) -> bool {
    let mut seen = vec![false; g.adj.len()];
    let mut st = vec![s];
    seen[s as usize] = true;
    while let Some(u) = st.pop() {
        if targets.contains(&u) {
            return true;
        }
        for &(v, _) in &g.adj[u as usize] {
            if !seen[v as usize] {
                seen[v as usize] = true;
                st.push(v);
            }
        }
    }
    false
}

// ───────────────────────────── renderer ─────────────────────────────

fn ty_text(d: &Design, ty: &Ty) -> String {
    match ty {
        Ty::Bits(1) => "logic".into(),
        Ty::Bits(w) => format!("logic<{w}>"),
        Ty::Arr(1, n) => format!("logic [{n}]"),
        Ty::Arr(w, n) => format!("logic<{w}> [{n}]"),
        Ty::Struct(s) => format!("LabPkg::{}", d.structs[*s].name),
    }
}

fn ref_text(vars: &[Var], r: &Ref) -> String {
    let mut s = vars[r.var].name.clone();
    if let Some(k) = r.elem {
        s.push_str(&format!("[{k}]"));
    }
    if let Some(f) = r.field {
        s.push_str(&format!(".m{f}"));
    }
    if let Some((hi, lo)) = r.sel {
        if hi == lo {
            s.push_str(&format!("[{hi}]"));
        } else {
            s.push_str(&format!("[{hi}:{lo}]"));
        }
    }
    s
}

fn expr_text(m: &Module, vars: &[Var], e: &E) -> String {
    match e {
        E::K(w, v) => format!("{w}'h{v:x}"),
        E::R(r) => ref_text(vars, r),
        E::Not(a) => format!("(~{})", expr_text(m, vars, a)),
        E::Neg(a) => format!("(-{})", expr_text(m, vars, a)),
        E::Bit(op, a, b) | E::Ari(op, a, b) | E::Cmp(op, a, b) => format!("({} {} {})", expr_text(m, vars, a), op, expr_text(m, vars, b)),
        E::Red(op, a) => format!("({}{})", op, expr_text(m, vars, a)),
        E::LNot(a) => format!("(!{})", expr_text(m, vars, a)),
        E::Shc(l, a, k) => format!("({} {} {})", expr_text(m, vars, a), if *l { "<<" } else { ">>" }, k),
        E::Shv(l, a, b) => format!("({} {} {})", expr_text(m, vars, a), if *l { "<<" } else { ">>" }, expr_text(m, vars, b)),
        E::Mux(c, a, b) => format!("(if {} ? {} : {})", expr_text(m, vars, c), expr_text(m, vars, a), expr_text(m, vars, b)),
        E::Cat(p) => format!("{{{}}}", p.iter().map(|x| expr_text(m, vars, x)).collect::<Vec<_>>().join(", ")),
        E::Call(f, args) => format!("{}({})", m.funcs[*f].name, args.iter().map(|x| expr_text(m, vars, x)).collect::<Vec<_>>().join(", ")),
    }
}

fn stmts_text(m: &Module, vars: &[Var], s: &[S], ind: &str, out: &mut String) {
    let ind2 = format!("{ind}    ");
    for x in s {
        match x {
            S::Assign(r, e) => out.push_str(&format!("{ind}{} = {};\n", ref_text(vars, r), expr_text(m, vars, e))),
            S::If(c, t, f) => {
                out.push_str(&format!("{ind}if {} {{\n", expr_text(m, vars, c)));
                stmts_text(m, vars, t, &ind2, out);
                if f.is_empty() {
                    out.push_str(&format!("{ind}}}\n"));
                } else {
                    out.push_str(&format!("{ind}}} else {{\n"));
                    stmts_text(m, vars, f, &ind2, out);
                    out.push_str(&format!("{ind}}}\n"));
                }
            }
            S::Case(sel, sw, arms, d) => {
                out.push_str(&format!("{ind}case {} {{\n", expr_text(m, vars, sel)));
                for (l, b) in arms {
                    out.push_str(&format!("{ind2}{sw}'d{l}: {{\n"));
                    stmts_text(m, vars, b, &format!("{ind2}    "), out);
                    out.push_str(&format!("{ind2}}}\n"));
                }
                if let Some(b) = d {
                    out.push_str(&format!("{ind2}default: {{\n"));
                    stmts_text(m, vars, b, &format!("{ind2}    "), out);
                    out.push_str(&format!("{ind2}}}\n"));
                }
                out.push_str(&format!("{ind}}}\n"));
            }
        }
    }
}

fn render(d: &Design) -> String {
    let mut o = String::new();
    if !d.structs.is_empty() {
        o.push_str("package LabPkg {\n");
        for s in &d.structs {
            o.push_str(&format!("    struct {} {{\n", s.name));
            for (k, w) in s.fields.iter().enumerate() {
                o.push_str(&format!("        m{k}: {},\n", ty_text(d, &Ty::Bits(*w))));
            }
            o.push_str("    }\n");
        }
        o.push_str("}\n\n");
    }
    for m in &d.modules {
        o.push_str(&format!("module {} (\n", m.name));
        for v in &m.vars {
            match v.kind {
                Kind::Clock => o.push_str(&format!("    {}: input clock,\n", v.name)),
                Kind::In => o.push_str(&format!("    {}: input {},\n", v.name, ty_text(d, &v.ty))),
                Kind::Out => o.push_str(&format!("    {}: output {},\n", v.name, ty_text(d, &v.ty))),
                Kind::Var => {}
            }
        }
        o.push_str(") {\n");
        for v in &m.vars {
            if v.kind == Kind::Var {
                o.push_str(&format!("    var {}: {};\n", v.name, ty_text(d, &v.ty)));
            }
        }
        for f in &m.funcs {
            o.push_str(&format!("    function {} (\n", f.name));
            for a in &f.locals[..f.nargs] {
                o.push_str(&format!("        {}: input {},\n", a.name, ty_text(d, &a.ty)));
            }
            o.push_str(&format!("    ) -> {} {{\n", ty_text(d, &Ty::Bits(f.ret))));
            o.push_str(&format!("        var r: {};\n", ty_text(d, &Ty::Bits(f.ret))));
            stmts_text(m, &f.locals, &f.body, "        ", &mut o);
            o.push_str("        return r;\n    }\n");
        }
        for it in &m.items {
            match it {
                Item::Assign(r, e) => o.push_str(&format!("    assign {} = {};\n", ref_text(&m.vars, r), expr_text(m, &m.vars, e))),
                Item::Comb(s) => {
                    o.push_str("    always_comb {\n");
                    stmts_text(m, &m.vars, s, "        ", &mut o);
                    o.push_str("    }\n");
                }
                Item::Ff(a) => {
                    o.push_str("    always_ff (i_clk) {\n");
                    for (r, e) in a {
                        o.push_str(&format!("        {} = {};\n", ref_text(&m.vars, r), expr_text(m, &m.vars, e)));
                    }
                    o.push_str("    }\n");
                }
                Item::Inst { name, module, conns } => {
                    let child = &d.modules[*module];
                    o.push_str(&format!("    inst {}: {} (\n", name, child.name));
                    for c in conns {
                        match c {
                            Conn::Clock => o.push_str("        i_clk: i_clk,\n"),
                            Conn::In(p, e) => o.push_str(&format!("        {}: {},\n", child.vars[*p].name, expr_text(m, &m.vars, e))),
                            Conn::Out(p, v) => o.push_str(&format!("        {}: {},\n", child.vars[*p].name, m.vars[*v].name)),
                        }
                    }
                    o.push_str("    );\n");
                }
                Item::Sv { name, ins, outs } => {
                    o.push_str(&format!("    inst {}: $sv::LabBlackBox (\n", name));
                    for (k, v) in ins.iter().enumerate() {
                        o.push_str(&format!("        a{k}: {},\n", m.vars[*v].name));
                    }
                    for (k, v) in outs.iter().enumerate() {
                        o.push_str(&format!("        y{k}: {},\n", m.vars[*v].name));
                    }
                    o.push_str("    );\n");
                }
            }
        }
        o.push_str("}\n\n");
    }
    o
}

// ───────────────────────────── one case ─────────────────────────────

#[derive(Debug, Clone)]
struct CaseOut {
    text: String,
    feats: Vec<String>,
    precise_cycle: bool,
    struct_cycle: bool,
    port_collapsed_cycle: bool,
    range_collapsed_cycle: bool,
    both_collapsed_cycle: bool,
    inplace_cycle: bool,
    neg_parallel_cycle: bool,
    cycle_witness: Vec<String>,
    cycle_labels: Vec<String>,
    unsupported: Option<String>,
    nodes: usize,
    edges: usize,
    an: AnOut,
    /// simulator backup detector on accepted designs: None = not run
    sim: Option<Result<(), String>>,
    sim_panic: Option<String>,
    has_sv: bool,
}

fn run_design(d: &Design, want_sim: bool) -> CaseOut {
    let text = render(d);
    let gp = build(d, Mode::Precise, Collapse::default());
    let gs = build(d, Mode::Struct, Collapse::default());
    let precise_cycle = gp.g.is_cyclic();
    let struct_cycle = gs.g.is_cyclic();
    let (mut witness, mut labels) = (vec![], vec![]);
    if let Some((nodes, labs)) = gp.g.find_cycle() {
        witness = nodes.iter().map(|n| gp.g.names[*n as usize].clone()).collect();
        let mut l: Vec<String> = labs.iter().map(|x| gp.labels[*x as usize].clone()).collect();
        l.sort();
        l.dedup();
        labels = l;
    }
    let (an, analyzed) = lab::analyze(&text);
    let mut port_collapsed_cycle = false;
    let mut range_collapsed_cycle = false;
    let mut both_collapsed_cycle = false;
    let mut inplace_cycle = false;
    let mut neg_parallel_cycle = false;
    let reported = an.has("combinational_loop");
    if reported && !struct_cycle {
        port_collapsed_cycle = build(d, Mode::Struct, Collapse { ports: true, ..Default::default() }).g.is_cyclic();
        range_collapsed_cycle = build(d, Mode::Struct, Collapse { ranges: true, ..Default::default() }).g.is_cyclic();
        inplace_cycle = build(d, Mode::Struct, Collapse { inplace: true, ..Default::default() }).g.is_cyclic();
        both_collapsed_cycle = build(d, Mode::Struct, Collapse { ports: true, ranges: true, inplace: true }).g.is_cyclic();
    }
    if !reported && precise_cycle {
        neg_parallel_cycle = build(d, Mode::PreciseNegParallel, Collapse::default()).g.is_cyclic();
        inplace_cycle = build(d, Mode::Precise, Collapse { inplace: true, ..Default::default() }).g.is_cyclic();
        both_collapsed_cycle = build(d, Mode::PreciseNegParallel, Collapse { inplace: true, ..Default::default() }).g.is_cyclic();
    }
    let has_sv = d.modules.iter().any(|m| m.items.iter().any(|i| matches!(i, Item::Sv { .. })));
    let mut sim = None;
    let mut sim_panic = None;
    if want_sim && an.parse_error.is_none() && !an.diags.iter().any(|x| x.error) && !has_sv {
        if let Some(a) = &analyzed {
            let r = std::panic::catch_unwind(std::panic::AssertUnwindSafe(|| sim_settle(a, d)));
            match r {
                Ok(x) => sim = Some(x),
                Err(_) => sim_panic = Some("panic in simulator build/settle".into()),
            }
        }
    }
    CaseOut {
        text,
        feats: d.feats.iter().cloned().collect(),
        precise_cycle,
        struct_cycle,
        port_collapsed_cycle,
        range_collapsed_cycle,
        both_collapsed_cycle,
        inplace_cycle,
        neg_parallel_cycle,
        cycle_witness: witness,
        cycle_labels: labels,
        unsupported: gp.unsupported.or(gs.unsupported),
        nodes: gp.g.adj.len(),
        edges: gp.g.edges(),
        an,
        sim,
        sim_panic,
        has_sv,
    }
}

fn sim_settle(a: &vcommon::pipeline::Analyzed, d: &Design) -> Result<(), String> {
    use veryl_simulator::ir::{Value, build_ir};
    use veryl_simulator::{Config, Simulator};
    let config = Config::default();
    let ir = build_ir(&a.ir, "Top".into(), &config).map_err(|e| {
        use miette::Diagnostic;
        let code = e.code().map(|c| c.to_string()).unwrap_or_default();
        format!("{code}: {e}")
    })?;
    let mut sim = Simulator::new(ir, None);
    let top = d.modules.last().unwrap();
    for v in &top.vars {
        if v.kind == Kind::In {
            let w = ty_width(&d.structs, &v.ty);
            sim.set(&v.name, Value::new(0x5a5a_5a5a_5a5a_5a5au64 & ((1u64 << w) - 1), w, false));
        }
    }
    for v in &top.vars {
        if v.kind == Kind::Out {
            let _ = sim.get(&v.name);
        }
    }
    if let Some(clk) = sim.get_clock("i_clk") {
        sim.step(&clk);
    }
    for v in &top.vars {
        if v.kind == Kind::Out {
            let _ = sim.get(&v.name);
        }
    }
    Ok(())
}

fn case(seed: u64, i: u64, want_sim: bool) -> CaseOut {
    let mut rng = Rng::for_case(seed, "C14", i);
    let d = generate(&mut rng);
    run_design(&d, want_sim)
}

// ───────────────────────────── verdicts ─────────────────────────────

fn judge(run: &Run, hist: &Hist, i: u64, seed: u64, o: &CaseOut) {
    run.eval();
    if let Some(p) = &o.an.parse_error {
        run.count("discarded_parse_error", 1);
        run.note(format!("case {i}: generator produced unparsable text: {p}"));
        return;
    }
    if let Some(u) = &o.unsupported {
        run.count("discarded_reference_unsupported", 1);
        run.seen("reference_unsupported_reasons", u);
        return;
    }
    let others = o.an.other_errors(&["combinational_loop"]);
    if !others.is_empty() {
        run.count("discarded_unrelated_error", 1);
        for c in &others {
            run.seen("unrelated_error_codes", c);
        }
        return;
    }
    if o.precise_cycle && !o.struct_cycle {
        run.inconclusive(format!("case {i}: reference envelope broken (G_precise cyclic, G_struct acyclic)"));
        return;
    }
    let reported = o.an.has("combinational_loop");
    run.count("designs_judged", 1);
    run.count("graph_nodes", o.nodes as i64);
    run.count("graph_edges", o.edges as i64);
    run.nontrivial(hash_str(&o.text));
    for w in o.an.other_codes(&["combinational_loop"]) {
        run.seen("warning_codes_on_judged_designs", &w);
    }
    let class = if o.precise_cycle {
        "expected_report"
    } else if !o.struct_cycle {
        "expected_clean"
    } else {
        "no_verdict_between_envelopes"
    };
    run.count(class, 1);
    for f in &o.feats {
        hist.add(&format!("{f}|{class}"));
        hist.add(f);
    }
    if o.feats.iter().any(|f| f == "comb:feedback-shape") {
        run.count("feedback_shape_designs", 1);
        run.count(&format!("feedback_shape_{class}"), 1);
        for f in ["comb:feedback-without-default", "comb:feedback-with-prior-default", "comb:feedback-cross-variable", "comb:feedback-self-read-in-first-branch", "comb:feedback-self-read-in-second-branch"] {
            if o.feats.iter().any(|x| x == f) {
                run.count(&format!("feedback_shape:{}|{class}", &f[14..]), 1);
            }
        }
    }
    if reported {
        run.count("analyzer_reported", 1);
    } else {
        run.count("analyzer_silent", 1);
    }
    let replay = |extra: Json| {
        json!({
            "seed": seed, "case_index": i, "text": o.text,
            "expected": {"precise_cycle": o.precise_cycle, "struct_cycle": o.struct_cycle, "class": class,
                          "cycle_witness": o.cycle_witness, "cycle_items": o.cycle_labels},
            "analyzer": o.an.json(), "analyzer_reported_combinational_loop": reported,
            "features": o.feats, "detail": extra,
        })
    };
    if o.precise_cycle && !reported {
        let sig = if !o.neg_parallel_cycle {
            // the cycle needs the carry of a unary minus (result bit i depends on operand bits < i)
            "false-negative:unary-minus-carry".to_string()
        } else if !o.inplace_cycle {
            // the cycle disappears when `v = f(v)` statements are evaluated bit by bit in place
            "false-negative:self-referencing-assignment-in-place-update".to_string()
        } else if !o.both_collapsed_cycle {
            "false-negative:unary-minus-carry+self-referencing-assignment-in-place-update".to_string()
        } else {
            let kinds: BTreeSet<&str> = o.cycle_labels.iter().map(|l| l.split(':').nth(1).unwrap_or(l).split('[').next().unwrap_or("")).collect();
            format!("false-negative:unclassified:{}", kinds.into_iter().collect::<Vec<_>>().join("+"))
        };
        run.count("false_negatives", 1);
        run.violation(
            &sig,
            &format!("bit-level combinational cycle {} exists (items: {}) but the analyzer reports no combinational_loop", o.cycle_witness.join(" -> "), o.cycle_labels.join(", ")),
            replay(json!({"cycle_disappears_when_unary_minus_is_treated_bit_parallel": !o.neg_parallel_cycle,
                          "cycle_disappears_when_self_referencing_assignments_update_in_place": !o.inplace_cycle})),
        );
    } else if !o.struct_cycle && reported {
        let sig = if o.port_collapsed_cycle {
            // the cycle exists as soon as an instance's ports are collapsed to whole ports
            "false-positive:instance-feedthrough-port-granularity".to_string()
        } else if o.range_collapsed_cycle {
            // no instance needed: the cycle exists when bits of a variable that no select in the
            // text separates are merged (shifted copy chains such as `x = {y[2:0], a}; y = ~x`)
            "false-positive:access-range-granularity".to_string()
        } else if o.inplace_cycle {
            // the cycle appears when `v = f(v)` statements are evaluated bit by bit in place
            "false-positive:self-referencing-assignment-in-place-update".to_string()
        } else if o.both_collapsed_cycle {
            "false-positive:combined-coarsenings".to_string()
        } else {
            let fs: Vec<&str> = o.feats.iter().map(|s| s.as_str()).filter(|s| s.starts_with("module:")).map(|s| &s[7..]).collect();
            format!("false-positive:unclassified:{}", fs.join("+"))
        };
        run.count("false_positives", 1);
        let msg = o.an.diags.iter().find(|x| x.code == "combinational_loop").map(|x| x.message.clone()).unwrap_or_default();
        run.violation(
            &sig,
            &format!(
                "analyzer reports `{msg}` but the design has no cycle even in the structural bit graph (a cycle appears with instance ports collapsed: {}, with access ranges collapsed: {})",
                o.port_collapsed_cycle, o.range_collapsed_cycle
            ),
            replay(json!({"cycle_when_instance_ports_are_collapsed": o.port_collapsed_cycle, "cycle_when_access_ranges_are_collapsed": o.range_collapsed_cycle,
                          "cycle_when_self_referencing_assignments_update_in_place": o.inplace_cycle,
                          "cycle_when_all_coarsenings_are_combined": o.both_collapsed_cycle})),
        );
    } else {
        run.count("agreements", 1);
        if class != "no_verdict_between_envelopes" {
            run.sample(json!({"class": class, "analyzer_reported": reported, "features": o.feats, "text": o.text, "cycle": o.cycle_witness}));
        }
    }
    // simulator backup detector
    if let Some(p) = &o.sim_panic {
        run.count("sim_backup_panics", 1);
        run.violation("sim-backup:panic", &format!("simulator build/settle panicked on a design the analyzer accepts: {p}"), replay(json!({"sim": p})));
    }
    match &o.sim {
        None => {
            if o.has_sv {
                run.count("sim_backup_skipped_sv_blackbox", 1);
            }
        }
        Some(Ok(())) => run.count("sim_backup_settled", 1),
        Some(Err(e)) => {
            run.seen("sim_backup_errors", e.split(':').next().unwrap_or(""));
            if e.starts_with("combinational_loop") {
                if o.precise_cycle {
                    run.count("sim_backup_caught_loop_analyzer_missed", 1);
                } else if !o.struct_cycle {
                    run.count("sim_backup_false_loops", 1);
                    run.violation("sim-backup:loop-on-acyclic-design", &format!("simulator backup detector rejects an acyclic design the analyzer accepts: {e}"), replay(json!({"sim": e})));
                } else {
                    run.count("sim_backup_loop_between_envelopes", 1);
                }
            } else {
                run.count("sim_backup_other_errors", 1);
                run.violation(&format!("sim-backup:error:{}", e.split(':').next().unwrap_or("")), &format!("simulator cannot build/settle a design the analyzer accepts: {e}"), replay(json!({"sim": e})));
            }
        }
    }
}

pub fn main(args: Args) {
    let run = Arc::new(Run::new(
        args.clone(),
        // a replay re-runs one recorded case: not a coverage claim
        if args.replay.is_some() { "other" } else { "exploration" },
        "LoopLab: random 1-3 level designs (signals 1-8 bits; assign with bit/part selects on both sides, array elements at constant \
         index, struct members, concatenation; always_comb with defaults then partial/whole reassignment under if/else, nested if, case \
         with and without default; pure functions with local reassignment; instances with feed-through, registered and mixed child ports; \
         always_ff registers; now and then a $sv black box).  Ground truth = cycle search on a flattened bit-level dependency graph built \
         from the generator's AST, in a precise and a structural variant.  A design is non-trivial when the analyzer accepts everything but \
         possibly combinational_loop; distinct = distinct generated texts",
    ));
    run.assume("bitgraph reference (mon_sem/src/c14.rs): SSA evaluation of always_comb in statement order, functions inlined, instances flattened bit-precisely");
    run.assume("G_precise: bitwise ops/selects/concats/ternary data bit-parallel, +/-/unary minus result bit i depends on operand bits <= i, compares/reductions/variable shifts on all bits; G_struct: every non-bitwise operator all-to-all");
    run.assume("designs whose reference model meets a latch or a read-before-assign inside always_comb are discarded (the generator does not build them)");
    run.assume("a cycle that exists only in G_struct (between the envelopes, or through a $sv black box) gets no verdict");

    if args.get("flip") == Some("ff-is-comb") {
        FLIP_FF_IS_COMB.store(true, std::sync::atomic::Ordering::Relaxed);
        run.note("SENSITIVITY RUN: reference deliberately wrong (flip=ff-is-comb)".into());
    }
    let hist = Arc::new(Hist::default());
    if let Some(rp) = &args.replay {
        run.set_extra("explanation", json!("replay of one recorded case against the current tree; no coverage is claimed"));
        let v: Json = serde_json::from_str(&std::fs::read_to_string(rp).expect("replay file")).expect("replay json");
        let seed = v["case"]["seed"].as_u64().unwrap_or(args.seed);
        let i = v["case"]["case_index"].as_u64().expect("case_index");
        let stored = v["case"]["text"].as_str().unwrap_or("").to_string();
        let o = fresh_thread(STACK_64M, move || case(seed, i, true)).expect("no panic");
        if o.text != stored {
            run.inconclusive("replay: regenerated text differs from the stored text (generator changed)".into());
        }
        println!("{}", o.text);
        println!("expected: precise_cycle={} struct_cycle={} witness={:?}", o.precise_cycle, o.struct_cycle, o.cycle_witness);
        println!("analyzer: {}", o.an.json());
        run.sample(json!({"replayed_case": i, "seed": seed, "text": o.text}));
        judge(&run, &hist, i, seed, &o);
        run.finish(&[]);
    }

    if let Some(path) = args.get("file") {
        // hand experiments: analyze + simulator settle of a given text (top module must be `Top`, clock `i_clk`)
        let text = std::fs::read_to_string(path).expect("file");
        let r = fresh_thread(STACK_64M, move || {
            let (an, analyzed) = lab::analyze(&text);
            let sim = analyzed.as_ref().map(|a| {
                use veryl_simulator::ir::build_ir;
                use veryl_simulator::{Config, Simulator};
                match build_ir(&a.ir, "Top".into(), &Config::default()) {
                    Ok(ir) => {
                        let mut sim = Simulator::new(ir, None);
                        sim.ensure_comb_updated();
                        "ok".to_string()
                    }
                    Err(e) => format!("{e}"),
                }
            });
            (an, sim)
        });
        match r {
            Ok((an, sim)) => println!("analyzer: {}\nsim: {:?}", an.json(), sim),
            Err(p) => println!("panic at {}: {}", p.location, p.message),
        }
        std::process::exit(0);
    }
    let n = args.budget("cases", 800, 60_000);
    let seed = args.seed;
    let want_sim = args.get("sim").map(|x| x != "0").unwrap_or(true);
    let run2 = run.clone();
    let hist2 = hist.clone();
    par_cases(
        n,
        args.jobs,
        STACK_64M,
        move |i| case(seed, i, want_sim),
        move |i, r| match r {
            Err(p) => {
                run2.eval();
                run2.count("cases_panicked", 1);
                run2.note(format!("case {i} panicked at {}: {}", p.location, p.message));
                // a panic of the analyzer on generated input is C11's business; here it is not judged,
                // but too many of them make the run inconclusive through the floors
            }
            Ok(o) => judge(&run2, &hist2, i, seed, &o),
        },
    );
    run.set_extra("feature_histogram", hist.json());
    let scale = |x: i64| (x * n as i64 / 800).max(1);
    run.finish(&[
        ("designs_judged", scale(250)),
        ("expected_report", scale(50)),
        ("expected_clean", scale(150)),
        ("agreements", scale(250)),
        ("feedback_shape_designs", scale(120)),
        ("feedback_shape_expected_report", scale(40)),
        ("feedback_shape_expected_clean", scale(30)),
        ("sim_backup_settled", if want_sim { scale(150) } else { 0 }),
    ]);
}
