//! C15 — driver, latch and read-before-assign checks are exact.
//!
//! AssignLab: tiny designs made of constant-position bit/part writes from
//! several processes (assign, always_comb, always_ff, instance outputs),
//! branches (if / else-if / else, case and switch with and without default),
//! constant-bound for loops.  The reference (assignref) is computed on the
//! generator's AST:
//!   * per-process writer sets per bit            -> multiple_assignment
//!   * per-path write sets in always_comb         -> uncovered_branch
//!   * never-assigned-but-read bits, and reads before the assignment in
//!     statement order inside always_comb         -> unassign_variable
//! Where the property text leaves the granularity open, several readings are
//! computed and a verdict is only expected when all of them agree.
//! Diagnostics are matched by code string (multiple_assignment is an error,
//! uncovered_branch / unassign_variable are warnings).

use crate::lab::{self, AnOut, Hist};
use std::collections::{BTreeMap, BTreeSet};
use std::sync::Arc;
use vcommon::pool::{STACK_64M, fresh_thread, par_cases};
use vcommon::rng::hash_str;
use vcommon::{Args, Json, Rng, Run, json};

/// Sensitivity knob (`--set flip=ignore-default`): the *reference* then ignores `default` arms of
/// case/switch, so the check must fire (uncovered_branch false negatives).  Off by default.
static FLIP_IGNORE_DEFAULT: std::sync::atomic::AtomicBool = std::sync::atomic::AtomicBool::new(false);

// ───────────────────────────── AST ─────────────────────────────

type Bit = (usize, usize); // (variable, flat bit)
type Bits = BTreeSet<Bit>;

#[derive(Clone, Copy, Debug, PartialEq, Eq)]
enum Kind {
    Clock,
    In,
    Out,
    Var,
}

#[derive(Clone, Debug)]
struct Var {
    name: String,
    width: usize,
    /// unpacked array length (elements are `width` wide)
    arr: Option<usize>,
    kind: Kind,
}

/// bit position inside an element: constant range, or the loop variable (+ constant offset)
#[derive(Clone, Debug)]
enum Sel {
    Whole,
    Range(usize, usize), // hi, lo
    Loop(usize),         // [i + k]  (rendered `[i]` when k == 0)
}

#[derive(Clone, Debug)]
struct Ref {
    var: usize,
    elem: Option<usize>,
    sel: Sel,
}

#[derive(Clone, Debug)]
enum E {
    K(usize, u64),
    R(Ref),
    Not(Box<E>),
    Bin(&'static str, Box<E>, Box<E>),
    Cmp(&'static str, Box<E>, Box<E>),
    Red(&'static str, Box<E>),
    Mux(Box<E>, Box<E>, Box<E>),
    Cat(Vec<E>),
}

#[derive(Clone, Debug)]
enum S {
    Assign(Ref, E),
    /// if c0 {b0} else if c1 {b1} … [else {e}]
    If(Vec<(E, Vec<S>)>, Option<Vec<S>>),
    Case(E, usize, Vec<(u64, Vec<S>)>, Option<Vec<S>>),
    Switch(Vec<(E, Vec<S>)>, Option<Vec<S>>),
    /// for i in 0..n { body }  (body uses Sel::Loop)
    For(usize, Vec<S>),
}

#[derive(Clone, Debug)]
enum Item {
    Assign(Ref, E),
    Comb(Vec<S>),
    Ff(Vec<S>),
    /// child: one input port `i` (width wi) fed by an expression, one output port `o` (width wo) driving a parent reference
    Inst { name: String, wi: usize, wo: usize, input: E, out: Ref },
}

#[derive(Clone, Debug)]
struct Design {
    vars: Vec<Var>,
    items: Vec<Item>,
    feats: BTreeSet<String>,
}

// ───────────────────────────── assignref ─────────────────────────────

#[derive(Clone, Copy, Debug, PartialEq, Eq, PartialOrd, Ord)]
enum Reader {
    AssignRhs,
    CombRhs,
    CombCond,
    FfRhs,
    FfCond,
    InstInput,
}

impl Reader {
    fn name(self) -> &'static str {
        match self {
            Reader::AssignRhs => "assign-rhs",
            Reader::CombRhs => "comb-rhs",
            Reader::CombCond => "comb-condition",
            Reader::FfRhs => "ff-rhs",
            Reader::FfCond => "ff-condition",
            Reader::InstInput => "inst-input",
        }
    }
}

fn ref_bits(vars: &[Var], r: &Ref, loop_i: Option<usize>) -> Bits {
    let v = &vars[r.var];
    let base = r.elem.unwrap_or(0) * v.width;
    let mut out = Bits::new();
    match (&r.sel, v.arr, r.elem) {
        (Sel::Whole, Some(n), None) => {
            for b in 0..v.width * n {
                out.insert((r.var, b));
            }
        }
        (Sel::Whole, _, _) => {
            for b in 0..v.width {
                out.insert((r.var, base + b));
            }
        }
        (Sel::Range(hi, lo), _, _) => {
            for b in *lo..=*hi {
                out.insert((r.var, base + b));
            }
        }
        (Sel::Loop(k), _, _) => {
            out.insert((r.var, base + loop_i.expect("loop variable outside a loop") + k));
        }
    }
    out
}

/// the bits of every single reference in `e` (one set per `x`, `x[3:1]`, `a[2]`, …)
fn expr_groups(vars: &[Var], e: &E, loop_i: Option<usize>) -> Vec<Bits> {
    fn go(vars: &[Var], e: &E, loop_i: Option<usize>, out: &mut Vec<Bits>) {
        match e {
            E::K(..) => {}
            E::R(r) => out.push(ref_bits(vars, r, loop_i)),
            E::Not(a) | E::Red(_, a) => go(vars, a, loop_i, out),
            E::Bin(_, a, b) | E::Cmp(_, a, b) => {
                go(vars, a, loop_i, out);
                go(vars, b, loop_i, out);
            }
            E::Mux(c, a, b) => {
                go(vars, c, loop_i, out);
                go(vars, a, loop_i, out);
                go(vars, b, loop_i, out);
            }
            E::Cat(p) => p.iter().for_each(|x| go(vars, x, loop_i, out)),
        }
    }
    let mut out = vec![];
    go(vars, e, loop_i, &mut out);
    out
}

fn expr_reads(vars: &[Var], e: &E, loop_i: Option<usize>, out: &mut Bits) {
    match e {
        E::K(..) => {}
        E::R(r) => out.extend(ref_bits(vars, r, loop_i)),
        E::Not(a) | E::Red(_, a) => expr_reads(vars, a, loop_i, out),
        E::Bin(_, a, b) | E::Cmp(_, a, b) => {
            expr_reads(vars, a, loop_i, out);
            expr_reads(vars, b, loop_i, out);
        }
        E::Mux(c, a, b) => {
            expr_reads(vars, c, loop_i, out);
            expr_reads(vars, a, loop_i, out);
            expr_reads(vars, b, loop_i, out);
        }
        E::Cat(p) => p.iter().for_each(|x| expr_reads(vars, x, loop_i, out)),
    }
}

#[derive(Clone, Debug)]
enum Ev {
    /// bits, in a condition?, read site (expression identity, loop iteration)
    Read(Bits, bool, (usize, usize), Vec<Bits>),
    Write(Bits),
}

fn site(e: &E, loop_i: Option<usize>) -> (usize, usize) {
    (e as *const E as usize, loop_i.map(|i| i + 1).unwrap_or(0))
}

/// All execution paths of a statement list as event sequences (reads of the
/// right-hand side happen before the write of the left-hand side).  None when
/// there are more than `cap` paths.
fn paths(vars: &[Var], stmts: &[S], loop_i: Option<usize>, cap: usize) -> Option<Vec<Vec<Ev>>> {
    let mut acc: Vec<Vec<Ev>> = vec![vec![]];
    for s in stmts {
        let alts: Vec<Vec<Ev>> = match s {
            S::Assign(r, e) => {
                let mut rd = Bits::new();
                expr_reads(vars, e, loop_i, &mut rd);
                vec![vec![Ev::Read(rd, false, site(e, loop_i), expr_groups(vars, e, loop_i)), Ev::Write(ref_bits(vars, r, loop_i))]]
            }
            S::If(arms, els) | S::Switch(arms, els) => {
                let flip = matches!(s, S::Switch(..)) && FLIP_IGNORE_DEFAULT.load(std::sync::atomic::Ordering::Relaxed);
                let els = if flip { &None } else { els };
                let mut out = vec![];
                let mut conds: Vec<Ev> = vec![];
                for (c, body) in arms {
                    let mut rd = Bits::new();
                    expr_reads(vars, c, loop_i, &mut rd);
                    conds.push(Ev::Read(rd, true, site(c, loop_i), expr_groups(vars, c, loop_i)));
                    for p in paths(vars, body, loop_i, cap)? {
                        let mut q = conds.clone();
                        q.extend(p);
                        out.push(q);
                    }
                }
                match els {
                    Some(body) => {
                        for p in paths(vars, body, loop_i, cap)? {
                            let mut q = conds.clone();
                            q.extend(p);
                            out.push(q);
                        }
                    }
                    None => out.push(conds.clone()),
                }
                out
            }
            S::Case(sel, _, arms, def) => {
                let mut rd = Bits::new();
                expr_reads(vars, sel, loop_i, &mut rd);
                let head = Ev::Read(rd, true, site(sel, loop_i), expr_groups(vars, sel, loop_i));
                let def = if FLIP_IGNORE_DEFAULT.load(std::sync::atomic::Ordering::Relaxed) { &None } else { def };
                let mut out = vec![];
                for (_, body) in arms {
                    for p in paths(vars, body, loop_i, cap)? {
                        let mut q = vec![head.clone()];
                        q.extend(p);
                        out.push(q);
                    }
                }
                match def {
                    Some(body) => {
                        for p in paths(vars, body, loop_i, cap)? {
                            let mut q = vec![head.clone()];
                            q.extend(p);
                            out.push(q);
                        }
                    }
                    None => out.push(vec![head.clone()]),
                }
                out
            }
            S::For(n, body) => {
                // constant bounds, n >= 1: the body runs for i = 0..n in order
                let mut seq: Vec<Vec<Ev>> = vec![vec![]];
                for i in 0..*n {
                    let ps = paths(vars, body, Some(i), cap)?;
                    let mut next = vec![];
                    for a in &seq {
                        for p in &ps {
                            let mut q = a.clone();
                            q.extend(p.iter().cloned());
                            next.push(q);
                        }
                    }
                    if next.len() > cap {
                        return None;
                    }
                    seq = next;
                }
                seq
            }
        };
        let mut next = vec![];
        for a in &acc {
            for p in &alts {
                let mut q = a.clone();
                q.extend(p.iter().cloned());
                next.push(q);
            }
        }
        if next.len() > cap {
            return None;
        }
        acc = next;
    }
    Some(acc)
}

/// Text order: every event of the block in the order it is written (branches one after the other).
fn text_events(vars: &[Var], stmts: &[S], loop_i: Option<usize>, out: &mut Vec<Ev>) {
    for s in stmts {
        match s {
            S::Assign(r, e) => {
                let mut rd = Bits::new();
                expr_reads(vars, e, loop_i, &mut rd);
                out.push(Ev::Read(rd, false, site(e, loop_i), expr_groups(vars, e, loop_i)));
                out.push(Ev::Write(ref_bits(vars, r, loop_i)));
            }
            S::If(arms, els) | S::Switch(arms, els) => {
                for (c, body) in arms {
                    let mut rd = Bits::new();
                    expr_reads(vars, c, loop_i, &mut rd);
                    out.push(Ev::Read(rd, true, site(c, loop_i), expr_groups(vars, c, loop_i)));
                    text_events(vars, body, loop_i, out);
                }
                if let Some(b) = els {
                    text_events(vars, b, loop_i, out);
                }
            }
            S::Case(sel, _, arms, def) => {
                let mut rd = Bits::new();
                expr_reads(vars, sel, loop_i, &mut rd);
                out.push(Ev::Read(rd, true, site(sel, loop_i), expr_groups(vars, sel, loop_i)));
                for (_, b) in arms {
                    text_events(vars, b, loop_i, out);
                }
                if let Some(b) = def {
                    text_events(vars, b, loop_i, out);
                }
            }
            S::For(n, body) => {
                for i in 0..*n {
                    text_events(vars, body, Some(i), out);
                }
            }
        }
    }
}

#[derive(Clone, Debug, Default)]
struct CombFacts {
    /// bit written on some but not all paths
    ub_bit: bool,
    /// variable (any bit) written on some but not all paths
    ub_var: bool,
    /// some *prefix* of the block's top-level statements has ub_bit although the whole block does not
    ub_only_in_prefix: bool,
    /// branches of one statement write different bits of a variable that every path writes somewhere
    rba_strict: bool,
    rba_loose: bool,
    rba_text: bool,
    /// some read site is a read-before-assign under all three readings
    rba_all: bool,
    /// the read-before-assign read sits in a condition (if/case/switch) / in a right-hand side
    rba_in_cond: bool,
    rba_in_rhs: bool,
}

fn may_must(ps: &[Vec<Ev>]) -> (Bits, Bits) {
    let mut may = Bits::new();
    let mut must: Option<Bits> = None;
    for p in ps {
        let mut w = Bits::new();
        for e in p {
            if let Ev::Write(b) = e {
                w.extend(b.iter().copied());
            }
        }
        may.extend(w.iter().copied());
        must = Some(match must {
            None => w,
            Some(m) => m.intersection(&w).copied().collect(),
        });
    }
    (may, must.unwrap_or_default())
}

fn comb_facts(vars: &[Var], stmts: &[S]) -> Option<CombFacts> {
    let ps = paths(vars, stmts, None, 512)?;
    let mut f = CombFacts::default();
    let (may, must) = may_must(&ps);
    f.ub_bit = may.iter().any(|b| !must.contains(b));
    let may_v: BTreeSet<usize> = may.iter().map(|b| b.0).collect();
    // variable-level: a path writes v when it writes any bit of v
    let mut must_v: Option<BTreeSet<usize>> = None;
    for p in &ps {
        let mut w = BTreeSet::new();
        for e in p {
            if let Ev::Write(b) = e {
                w.extend(b.iter().map(|x| x.0));
            }
        }
        must_v = Some(match must_v {
            None => w,
            Some(m) => m.intersection(&w).copied().collect(),
        });
    }
    let must_v = must_v.unwrap_or_default();
    f.ub_var = may_v.iter().any(|v| !must_v.contains(v));
    if !f.ub_bit {
        for k in 1..stmts.len() {
            if let Some(pp) = paths(vars, &stmts[..k], None, 512) {
                let (ma, mu) = may_must(&pp);
                if ma.iter().any(|b| !mu.contains(b)) {
                    f.ub_only_in_prefix = true;
                }
            }
        }
    }
    // read-before-assign: three readings, evaluated per read site
    //   strict: on some path the bit is not written before the read and is written after it (same path)
    //   loose : on some path no bit of the variable is written before the read and some bit of it after
    //   text  : in text order (branches one after the other) the bit is not written before and is written after
    let mut strict: BTreeSet<((usize, usize), Bit)> = BTreeSet::new();
    let mut loose: BTreeSet<((usize, usize), Bit)> = BTreeSet::new();
    let mut text: BTreeSet<((usize, usize), Bit)> = BTreeSet::new();
    let mut text_range: BTreeSet<((usize, usize), Bit)> = BTreeSet::new();
    let mut cond_sites: BTreeSet<(usize, usize)> = BTreeSet::new();
    for p in &ps {
        for (i, e) in p.iter().enumerate() {
            let Ev::Read(rd, in_cond, st, groups) = e else { continue };
            if *in_cond {
                cond_sites.insert(*st);
            }
            let mut written_before = Bits::new();
            for e2 in &p[..i] {
                if let Ev::Write(b) = e2 {
                    written_before.extend(b.iter().copied());
                }
            }
            let mut written_after = Bits::new();
            for e2 in &p[i + 1..] {
                if let Ev::Write(b) = e2 {
                    written_after.extend(b.iter().copied());
                }
            }
            let vars_before: BTreeSet<usize> = written_before.iter().map(|b| b.0).collect();
            let vars_after: BTreeSet<usize> = written_after.iter().map(|b| b.0).collect();
            for b in rd {
                if !written_before.contains(b) && written_after.contains(b) {
                    strict.insert((*st, *b));
                }
                let _ = (&vars_before, &vars_after);
            }
            // range reading: the *reference* that is read holds no bit assigned so far, and the
            // first later write that covers the bit is a reference holding no bit assigned before it
            for g in groups {
                if g.iter().any(|b| written_before.contains(b)) {
                    continue;
                }
                for b in g {
                    let mut before_w = written_before.clone();
                    for e2 in &p[i + 1..] {
                        if let Ev::Write(wb) = e2 {
                            if wb.contains(b) {
                                if !wb.iter().any(|x| before_w.contains(x)) {
                                    loose.insert((*st, *b));
                                }
                                break;
                            }
                            before_w.extend(wb.iter().copied());
                        }
                    }
                }
            }
        }
    }
    let mut ev = vec![];
    text_events(vars, stmts, None, &mut ev);
    for (i, e) in ev.iter().enumerate() {
        let Ev::Read(rd, _, st, groups) = e else { continue };
        let mut before = Bits::new();
        for e2 in &ev[..i] {
            if let Ev::Write(b) = e2 {
                before.extend(b.iter().copied());
            }
        }
        let mut after = Bits::new();
        for e2 in &ev[i + 1..] {
            if let Ev::Write(b) = e2 {
                after.extend(b.iter().copied());
            }
        }
        for b in rd {
            if !before.contains(b) && after.contains(b) {
                text.insert((*st, *b));
            }
        }
        // the same at reference granularity in text order
        for g in groups {
            if g.iter().any(|b| before.contains(b)) {
                continue;
            }
            for b in g {
                let mut before_w = before.clone();
                for e2 in &ev[i + 1..] {
                    if let Ev::Write(wb) = e2 {
                        if wb.contains(b) {
                            if !wb.iter().any(|x| before_w.contains(x)) {
                                text_range.insert((*st, *b));
                            }
                            break;
                        }
                        before_w.extend(wb.iter().copied());
                    }
                }
            }
        }
    }
    f.rba_strict = !strict.is_empty();
    f.rba_loose = !loose.is_empty();
    f.rba_text = !text.is_empty();
    for (st, b) in &strict {
        if text.contains(&(*st, *b)) && loose.contains(&(*st, *b)) && text_range.contains(&(*st, *b)) {
            f.rba_all = true;
            if cond_sites.contains(st) { f.rba_in_cond = true } else { f.rba_in_rhs = true }
        }
    }
    Some(f)
}

fn stmt_writes(vars: &[Var], stmts: &[S], loop_i: Option<usize>, out: &mut Bits) {
    let mut ev = vec![];
    text_events(vars, stmts, loop_i, &mut ev);
    for e in ev {
        if let Ev::Write(b) = e {
            out.extend(b);
        }
    }
}

fn stmt_reads(vars: &[Var], stmts: &[S], out_rhs: &mut Bits, out_cond: &mut Bits) {
    let mut ev = vec![];
    text_events(vars, stmts, None, &mut ev);
    for e in ev {
        if let Ev::Read(b, c, _, _) = e {
            if c { out_cond.extend(b) } else { out_rhs.extend(b) }
        }
    }
}

#[derive(Clone, Copy, Debug, PartialEq, Eq)]
enum Exp {
    Report,
    Clean,
    NoVerdict,
}

impl Exp {
    fn name(self) -> &'static str {
        match self {
            Exp::Report => "expected_report",
            Exp::Clean => "expected_clean",
            Exp::NoVerdict => "no_verdict",
        }
    }
}

#[derive(Clone, Debug)]
struct Expected {
    ma: Exp,
    ma_detail: String,
    ub: Exp,
    ub_only_in_prefix: bool,
    uv: Exp,
    uv_detail: String,
    /// classification of an expected unassign report
    uv_never_assigned_readers: BTreeSet<Reader>,
    uv_rba_in_cond: bool,
    uv_rba_in_rhs: bool,
    uv_never: bool,
    uv_rba: bool,
    /// an `assign` statement whose right-hand side reads other bits of its own destination variable
    assign_self_ref: bool,
    unsupported: Option<String>,
}

fn reference(d: &Design) -> Expected {
    let vars = &d.vars;
    let mut unsupported = None;
    // ── writer sets per process ──
    let mut proc_writes: Vec<(String, Bits)> = vec![];
    let mut reads: BTreeMap<Bit, BTreeSet<Reader>> = BTreeMap::new();
    let mut add_reads = |b: &Bits, k: Reader| {
        for x in b {
            reads.entry(*x).or_default().insert(k);
        }
    };
    let mut assign_self_ref = false;
    let mut comb: Vec<CombFacts> = vec![];
    for it in &d.items {
        match it {
            Item::Assign(r, e) => {
                let w = ref_bits(vars, r, None);
                let mut rd = Bits::new();
                expr_reads(vars, e, None, &mut rd);
                if rd.iter().any(|b| b.0 == r.var) {
                    assign_self_ref = true;
                }
                add_reads(&rd, Reader::AssignRhs);
                proc_writes.push(("assign".into(), w));
            }
            Item::Comb(s) => {
                let mut w = Bits::new();
                stmt_writes(vars, s, None, &mut w);
                let (mut a, mut c) = (Bits::new(), Bits::new());
                stmt_reads(vars, s, &mut a, &mut c);
                add_reads(&a, Reader::CombRhs);
                add_reads(&c, Reader::CombCond);
                proc_writes.push(("always_comb".into(), w));
                match comb_facts(vars, s) {
                    Some(f) => comb.push(f),
                    None => unsupported = Some("more than 512 paths in one always_comb".to_string()),
                }
            }
            Item::Ff(s) => {
                let mut w = Bits::new();
                stmt_writes(vars, s, None, &mut w);
                let (mut a, mut c) = (Bits::new(), Bits::new());
                stmt_reads(vars, s, &mut a, &mut c);
                add_reads(&a, Reader::FfRhs);
                add_reads(&c, Reader::FfCond);
                proc_writes.push(("always_ff".into(), w));
            }
            Item::Inst { input, out, .. } => {
                let mut rd = Bits::new();
                expr_reads(vars, input, None, &mut rd);
                add_reads(&rd, Reader::InstInput);
                proc_writes.push(("inst-output".into(), ref_bits(vars, out, None)));
            }
        }
    }
    // ── multiple assignment: some bit written by two different processes ──
    let mut ma = Exp::Clean;
    let mut ma_detail = String::new();
    'outer: for i in 0..proc_writes.len() {
        for j in i + 1..proc_writes.len() {
            if let Some(b) = proc_writes[i].1.intersection(&proc_writes[j].1).next() {
                ma = Exp::Report;
                ma_detail = format!("{}[{}] written by {} and {}", vars[b.0].name, b.1, proc_writes[i].0, proc_writes[j].0);
                break 'outer;
            }
        }
    }
    // ── uncovered branch ──
    let ub_bit = comb.iter().any(|f| f.ub_bit);
    let ub_var = comb.iter().any(|f| f.ub_var);
    let ub = if ub_var {
        Exp::Report
    } else if !ub_bit {
        Exp::Clean
    } else {
        Exp::NoVerdict
    };
    let ub_only_in_prefix = comb.iter().any(|f| f.ub_only_in_prefix);
    // ── unassigned ──
    let mut assigned = Bits::new();
    for (_, w) in &proc_writes {
        assigned.extend(w.iter().copied());
    }
    let mut never_readers = BTreeSet::new();
    let mut uv_never = false;
    let mut uv_gray = false;
    let mut uv_detail = String::new();
    for (vi, v) in vars.iter().enumerate() {
        if !matches!(v.kind, Kind::Out | Kind::Var) {
            continue;
        }
        let total = v.width * v.arr.unwrap_or(1);
        let un: Vec<usize> = (0..total).filter(|b| !assigned.contains(&(vi, *b))).collect();
        if un.is_empty() {
            continue;
        }
        let read_un: Vec<usize> = un.iter().copied().filter(|b| reads.contains_key(&(vi, *b))).collect();
        if !read_un.is_empty() {
            uv_never = true;
            uv_detail = format!("{}[{}] is read but never assigned", v.name, read_un[0]);
            for b in &read_un {
                never_readers.extend(reads[&(vi, *b)].iter().copied());
            }
        } else if v.kind == Kind::Out || un.len() == total {
            // unassigned output bits nobody inside reads (read by the parent?) and
            // wholly unassigned, unread variables: the text does not decide
            uv_gray = true;
        }
    }
    let all3 = comb.iter().any(|f| f.rba_all);
    let any3 = comb.iter().any(|f| f.rba_strict || f.rba_loose || f.rba_text);
    if all3 && uv_detail.is_empty() {
        uv_detail = "a bit is read in always_comb before its assignment in the same block".into();
    }
    let uv = if uv_never || all3 {
        Exp::Report
    } else if !any3 && !uv_gray {
        Exp::Clean
    } else {
        Exp::NoVerdict
    };
    Expected {
        ma,
        ma_detail,
        ub,
        ub_only_in_prefix,
        uv,
        uv_detail,
        uv_never_assigned_readers: never_readers,
        uv_rba_in_cond: comb.iter().any(|f| f.rba_in_cond),
        uv_rba_in_rhs: comb.iter().any(|f| f.rba_in_rhs),
        uv_never,
        uv_rba: all3,
        assign_self_ref,
        unsupported,
    }
}

// ───────────────────────────── generator ─────────────────────────────

struct Gen<'a> {
    rng: &'a mut Rng,
    vars: Vec<Var>,
    feats: BTreeSet<String>,
}

impl<'a> Gen<'a> {
    fn feat(&mut self, s: &str) {
        self.feats.insert(s.to_string());
    }

    /// a `w`-bit reference to something readable; `pool` = candidate variables
    fn leaf_ref(&mut self, w: usize, pool: &[usize]) -> Option<Ref> {
        for _ in 0..10 {
            let vi = *self.rng.pick(pool);
            let v = &self.vars[vi];
            if v.width < w {
                continue;
            }
            let elem = v.arr.map(|n| self.rng.usize(n));
            let sel = if v.width == w && self.rng.chance(2, 3) {
                Sel::Whole
            } else {
                let lo = self.rng.usize(v.width - w + 1);
                Sel::Range(lo + w - 1, lo)
            };
            return Some(Ref { var: vi, elem, sel });
        }
        None
    }

    fn leaf(&mut self, w: usize, pool: &[usize]) -> E {
        if self.rng.chance(1, 12) {
            return E::K(w, self.rng.below(1 << w.min(16)));
        }
        if let Some(r) = self.leaf_ref(w, pool) {
            return E::R(r);
        }
        if w >= 2 {
            let a = 1 + self.rng.usize(w - 1);
            return E::Cat(vec![self.leaf(w - a, pool), self.leaf(a, pool)]);
        }
        E::K(w, 1)
    }

    fn leaf_sig(&mut self, w: usize, pool: &[usize]) -> E {
        for _ in 0..8 {
            let e = self.leaf(w, pool);
            let mut b = Bits::new();
            expr_reads(&self.vars, &e, Some(0), &mut b);
            if !b.is_empty() {
                return e;
            }
        }
        self.leaf(w, pool)
    }

    fn expr(&mut self, w: usize, depth: usize, pool: &[usize]) -> E {
        if depth == 0 {
            return self.leaf(w, pool);
        }
        match self.rng.below(10) {
            0..=3 => self.leaf(w, pool),
            4 => E::Not(Box::new(self.expr(w, depth - 1, pool))),
            5..=6 => {
                let op = *self.rng.pick(&["&", "|", "^"]);
                E::Bin(op, Box::new(self.expr(w, depth - 1, pool)), Box::new(self.expr(w, depth - 1, pool)))
            }
            7 => {
                let c = self.cond(pool);
                E::Mux(Box::new(c), Box::new(self.expr(w, depth - 1, pool)), Box::new(self.expr(w, depth - 1, pool)))
            }
            8 if w >= 2 => {
                let a = 1 + self.rng.usize(w - 1);
                E::Cat(vec![self.expr(w - a, depth - 1, pool), self.expr(a, depth - 1, pool)])
            }
            _ if w == 1 => self.cond(pool),
            _ => self.leaf(w, pool),
        }
    }

    fn cond(&mut self, pool: &[usize]) -> E {
        match self.rng.below(4) {
            0 => {
                let w = 1 + self.rng.usize(3);
                let op = *self.rng.pick(&["==", "!=", "<:", ">="]);
                E::Cmp(op, Box::new(self.leaf_sig(w, pool)), Box::new(self.leaf(w, pool)))
            }
            1 => {
                let w = 2 + self.rng.usize(3);
                let op = *self.rng.pick(&["&", "|", "^"]);
                E::Red(op, Box::new(self.leaf_sig(w, pool)))
            }
            _ => self.leaf_sig(1, pool),
        }
    }

    /// one assignment to (part of) `t`
    fn assign_to(&mut self, t: usize, partial: bool, pool: &[usize]) -> S {
        let v = self.vars[t].clone();
        let elem = v.arr.map(|n| self.rng.usize(n));
        let (sel, w) = if partial && v.width >= 2 {
            let lo = self.rng.usize(v.width);
            let hi = lo + self.rng.usize(v.width - lo);
            (Sel::Range(hi, lo), hi - lo + 1)
        } else {
            (Sel::Whole, v.width)
        };
        S::Assign(Ref { var: t, elem, sel }, self.expr(w, 2, pool))
    }

    /// whole-variable assignment (all elements of an array)
    fn assign_whole(&mut self, t: usize, pool: &[usize]) -> Vec<S> {
        let v = self.vars[t].clone();
        match v.arr {
            None => vec![S::Assign(Ref { var: t, elem: None, sel: Sel::Whole }, self.expr(v.width, 2, pool))],
            Some(n) => (0..n).map(|k| S::Assign(Ref { var: t, elem: Some(k), sel: Sel::Whole }, self.expr(v.width, 2, pool))).collect(),
        }
    }

    fn branchy(&mut self, bodies: Vec<Vec<S>>, with_else: bool, pool: &[usize], ctx: &str) -> S {
        // bodies.len() >= 1 ; when with_else the last body is the else/default
        let n = bodies.len();
        let mut bodies = bodies;
        let els = if with_else && n >= 2 { bodies.pop() } else { None };
        match self.rng.below(3) {
            0 => {
                self.feat(&format!("{ctx}:if{}", if els.is_some() { "-else" } else { "-no-else" }));
                if bodies.len() > 1 {
                    self.feat(&format!("{ctx}:else-if"));
                }
                S::If(bodies.into_iter().map(|b| (self.cond(pool), b)).collect(), els)
            }
            1 => {
                // case: non-exhaustive label set so that "no default" really leaves a path
                let sw = 2;
                let mut labels: Vec<u64> = (0..4).collect();
                self.rng.shuffle(&mut labels);
                let k = bodies.len().min(3);
                let mut arms = vec![];
                let mut it = bodies.into_iter();
                for l in labels.iter().take(k) {
                    arms.push((*l, it.next().unwrap()));
                }
                self.feat(&format!("{ctx}:case{}", if els.is_some() { "-default" } else { "-no-default" }));
                S::Case(self.leaf_sig(sw, pool), sw, arms, els)
            }
            _ => {
                self.feat(&format!("{ctx}:switch{}", if els.is_some() { "-default" } else { "-no-default" }));
                S::Switch(bodies.into_iter().map(|b| (self.cond(pool), b)).collect(), els)
            }
        }
    }

    /// Mixed partial writes and partial reads of one variable inside one always_comb: the variable is
    /// cut into 2-4 ranges (or array elements); each range is assigned-then-read, read-then-assigned
    /// (only when `allow_rba`) or assigned and never read; the statement pairs are interleaved.
    /// Reads land in fresh sink variables `m<k>` driven by this block.
    fn mixed_partial(&mut self, t: usize, pool: &[usize], allow_rba: bool) -> Vec<S> {
        let v = self.vars[t].clone();
        // units: (elem, hi, lo)
        let mut units: Vec<(Option<usize>, usize, usize)> = vec![];
        match v.arr {
            Some(n) => {
                for k in 0..n {
                    if v.width >= 2 && self.rng.bool() {
                        let cut = 1 + self.rng.usize(v.width - 1);
                        units.push((Some(k), cut - 1, 0));
                        units.push((Some(k), v.width - 1, cut));
                    } else {
                        units.push((Some(k), v.width - 1, 0));
                    }
                }
                self.feat("mixed-partial:array-element");
            }
            None => {
                let mut cuts = vec![0, v.width];
                let n = 1 + self.rng.usize(3.min(v.width - 1));
                while cuts.len() < n + 2 {
                    let c = 1 + self.rng.usize(v.width - 1);
                    if !cuts.contains(&c) {
                        cuts.push(c);
                    }
                }
                cuts.sort();
                for p in cuts.windows(2) {
                    units.push((None, p[1] - 1, p[0]));
                }
            }
        }
        let mk = |v: &Var, u: &(Option<usize>, usize, usize)| -> Ref {
            let sel = if u.1 + 1 == v.width && u.2 == 0 { Sel::Whole } else { Sel::Range(u.1, u.2) };
            Ref { var: t, elem: u.0, sel }
        };
        self.feat("comb:mixed-partial-read-write");
        // per unit a little statement list; then a random interleaving that keeps each list's order
        let mut lists: Vec<Vec<S>> = vec![];
        let mut any_rba = false;
        let nunits = units.len();
        for (k, u) in units.iter().enumerate() {
            let w = u.1 - u.2 + 1;
            let r = mk(&v, u);
            if w == 1 {
                self.feat("mixed-partial:bit");
            } else if !matches!(r.sel, Sel::Whole) {
                self.feat("mixed-partial:part-select");
            }
            let wr = S::Assign(r.clone(), self.expr(w, 1, pool));
            let mut sink = |g: &mut Self| -> S {
                g.vars.push(Var { name: format!("m{}", g.vars.len()), width: w, arr: None, kind: Kind::Var });
                let nv = g.vars.len() - 1;
                let rd = E::R(r.clone());
                let e = if g.rng.bool() { rd } else { E::Bin("^", Box::new(rd), Box::new(g.leaf(w, pool))) };
                S::Assign(Ref { var: nv, elem: None, sel: Sel::Whole }, e)
            };
            // the last unit takes the read-then-assign role when it is wanted and none was drawn yet
            let role = if allow_rba && ((k + 1 == nunits && !any_rba) || self.rng.chance(1, 3)) { 1 } else if self.rng.chance(2, 3) { 0 } else { 2 };
            match role {
                0 => {
                    self.feat("mixed-partial:assigned-then-read");
                    let rd = sink(self);
                    lists.push(vec![wr, rd]);
                }
                1 => {
                    self.feat("mixed-partial:read-then-assigned");
                    any_rba = true;
                    let rd = sink(self);
                    lists.push(vec![rd, wr]);
                }
                _ => {
                    self.feat("mixed-partial:assigned-never-read");
                    lists.push(vec![wr]);
                }
            }
        }
        let mut out = vec![];
        while lists.iter().any(|l| !l.is_empty()) {
            let live: Vec<usize> = (0..lists.len()).filter(|i| !lists[*i].is_empty()).collect();
            let i = *self.rng.pick(&live);
            out.push(lists[i].remove(0));
        }
        out
    }

    fn comb_block(&mut self, targets: &[usize], inputs: &[usize], others: &[usize]) -> Vec<S> {
        // groups of statements per target, later concatenated; reads mostly come from
        // inputs / other processes' variables, sometimes from this block's own targets
        let mut groups: Vec<Vec<S>> = vec![];
        let mut safe: Vec<usize> = inputs.to_vec();
        safe.extend_from_slice(others);
        for &t in targets {
            let mut pool = safe.clone();
            // reading this block's own variables: usually fine after their assignment, a read-before-assign otherwise
            if self.rng.chance(1, 4) {
                pool.extend_from_slice(targets);
                self.feat("comb:reads-own-block-variable");
            }
            let w = self.vars[t].width;
            let mut g = vec![];
            if (w >= 2 || self.vars[t].arr.is_some()) && self.rng.chance(1, 4) {
                let rba = self.rng.bool();
                groups.push(self.mixed_partial(t, &safe, rba));
                continue;
            }
            match self.rng.below(100) {
                0..=44 => {
                    self.feat("comb:default-then-override");
                    g.extend(self.assign_whole(t, &pool));
                    let mut p2 = pool.clone();
                    p2.push(t);
                    let n = self.rng.usize(3);
                    for _ in 0..n {
                        let nb = 1 + self.rng.usize(3);
                        let bodies = (0..nb).map(|_| vec![self.assign_to(t, true, &p2)]).collect();
                        let with_else = self.rng.bool();
                        g.push(self.branchy(bodies, with_else, &p2, "comb"));
                    }
                }
                45..=62 => {
                    self.feat("comb:every-branch-assigns");
                    let nb = 2 + self.rng.usize(2);
                    let bodies = (0..nb).map(|_| self.assign_whole(t, &pool)).collect();
                    g.push(self.branchy(bodies, true, &pool, "comb"));
                }
                63..=76 => {
                    self.feat("comb:branch-without-else");
                    let nb = 1 + self.rng.usize(2);
                    let bodies = (0..nb).map(|_| self.assign_whole(t, &pool)).collect();
                    g.push(self.branchy(bodies, false, &pool, "comb"));
                }
                77..=83 => {
                    self.feat("comb:covered-by-later-assignment");
                    let bodies = vec![self.assign_whole(t, &pool)];
                    g.push(self.branchy(bodies, false, &pool, "comb"));
                    g.extend(self.assign_whole(t, &pool));
                }
                84..=88 if w >= 2 && self.vars[t].arr.is_none() => {
                    self.feat("comb:branches-write-different-bits");
                    let cut = 1 + self.rng.usize(w - 1);
                    let a = S::Assign(Ref { var: t, elem: None, sel: Sel::Range(cut - 1, 0) }, self.expr(cut, 1, &pool));
                    let b = S::Assign(Ref { var: t, elem: None, sel: Sel::Range(w - 1, cut) }, self.expr(w - cut, 1, &pool));
                    g.push(S::If(vec![(self.cond(&pool), vec![a])], Some(vec![b])));
                }
                89..=96 if w >= 2 && self.vars[t].arr.is_none() => {
                    self.feat("comb:for-loop");
                    // for i in 0..n { t[i] = src[i] op … }
                    let n = if self.rng.chance(3, 4) { w } else { 1 + self.rng.usize(w - 1) };
                    if n < w {
                        self.feat("comb:for-loop-partial-cover");
                    }
                    let srcs: Vec<usize> = pool.iter().copied().filter(|s| self.vars[*s].width >= n && self.vars[*s].arr.is_none() && *s != t).collect();
                    let rhs = if srcs.is_empty() {
                        E::K(1, 1)
                    } else {
                        let s = *self.rng.pick(&srcs);
                        let a = E::R(Ref { var: s, elem: None, sel: Sel::Loop(0) });
                        if self.rng.bool() { E::Not(Box::new(a)) } else { E::Bin("^", Box::new(a), Box::new(self.leaf(1, &safe))) }
                    };
                    g.push(S::For(n, vec![S::Assign(Ref { var: t, elem: None, sel: Sel::Loop(0) }, rhs)]));
                    if n < w && self.rng.chance(2, 3) {
                        g.push(S::Assign(Ref { var: t, elem: None, sel: Sel::Range(w - 1, n) }, self.expr(w - n, 1, &pool)));
                    }
                }
                _ => {
                    self.feat("comb:plain");
                    g.extend(self.assign_whole(t, &pool));
                }
            }
            groups.push(g);
        }
        self.rng.shuffle(&mut groups);
        groups.into_iter().flatten().collect()
    }

    fn ff_block(&mut self, t: usize, range: Option<(usize, usize)>, pool: &[usize]) -> Vec<S> {
        let v = self.vars[t].clone();
        let mk = |g: &mut Self| -> Vec<S> {
            match range {
                Some((hi, lo)) => vec![S::Assign(Ref { var: t, elem: v.arr.map(|_| 0), sel: Sel::Range(hi, lo) }, g.expr(hi - lo + 1, 2, pool))],
                None => g.assign_whole(t, pool),
            }
        };
        if self.rng.bool() {
            mk(self)
        } else {
            let b = mk(self);
            let with_else = self.rng.bool();
            let bodies = if with_else { vec![b, mk(self)] } else { vec![b] };
            vec![self.branchy(bodies, with_else, pool, "ff")]
        }
    }
}

fn generate(rng: &mut Rng) -> Design {
    let mut g = Gen { rng, vars: vec![], feats: BTreeSet::new() };
    g.vars.push(Var { name: "i_clk".into(), width: 1, arr: None, kind: Kind::Clock });
    let nin = 2 + g.rng.usize(3);
    for k in 0..nin {
        let w = 1 + g.rng.usize(8);
        g.vars.push(Var { name: format!("i{k}"), width: w, arr: None, kind: Kind::In });
    }
    let nout = 1 + g.rng.usize(3);
    for k in 0..nout {
        let w = 1 + g.rng.usize(8);
        g.vars.push(Var { name: format!("o{k}"), width: w, arr: None, kind: Kind::Out });
    }
    let nvar = 2 + g.rng.usize(4);
    for k in 0..nvar {
        let w = 1 + g.rng.usize(8);
        let arr = if g.rng.chance(1, 8) { Some(2 + g.rng.usize(2)) } else { None };
        if arr.is_some() {
            g.feat("type:array");
        }
        g.vars.push(Var { name: format!("v{k}"), width: w, arr, kind: Kind::Var });
    }
    let inputs: Vec<usize> = (0..g.vars.len()).filter(|i| g.vars[*i].kind == Kind::In).collect();
    let mut targets: Vec<usize> = (0..g.vars.len()).filter(|i| matches!(g.vars[*i].kind, Kind::Out | Kind::Var)).collect();
    g.rng.shuffle(&mut targets);
    let all_read: Vec<usize> = (0..g.vars.len()).filter(|i| g.vars[*i].kind != Kind::Clock).collect();
    let mut items: Vec<Item> = vec![];
    // how "dirty" this design is allowed to be: half of the designs are built without any deliberate defect
    let dirty = g.rng.chance(1, 2);
    let mut ninst = 0;
    let mut todo = targets.clone();
    // variables whose drivers are already built: reading only those keeps the design free of combinational loops
    let mut defined: Vec<usize> = inputs.clone();
    while let Some(t) = todo.pop() {
        let v = g.vars[t].clone();
        let others: Vec<usize> = defined.clone();
        // coverage plan
        let partial = dirty && v.width >= 2 && v.arr.is_none() && g.rng.chance(1, 6);
        let range = if partial {
            let lo = g.rng.usize(v.width);
            let hi = lo + g.rng.usize(v.width - lo);
            if hi - lo + 1 == v.width {
                None
            } else {
                g.feat("cover:partly-assigned-variable");
                Some((hi, lo))
            }
        } else {
            None
        };
        match g.rng.below(100) {
            0..=34 => {
                // assign statement(s)
                match (range, v.arr) {
                    (Some((hi, lo)), _) => items.push(Item::Assign(Ref { var: t, elem: None, sel: Sel::Range(hi, lo) }, g.expr(hi - lo + 1, 2, &others))),
                    (None, Some(n)) => {
                        for k in 0..n {
                            items.push(Item::Assign(Ref { var: t, elem: Some(k), sel: Sel::Whole }, g.expr(v.width, 2, &others)));
                        }
                    }
                    (None, None) => {
                        if v.width >= 2 && g.rng.chance(1, 3) {
                            // two assigns on disjoint ranges; now and then the upper one reads the lower bits of the same variable
                            let cut = 1 + g.rng.usize(v.width - 1);
                            g.feat("cover:split-between-two-assigns");
                            items.push(Item::Assign(Ref { var: t, elem: None, sel: Sel::Range(cut - 1, 0) }, g.expr(cut, 2, &others)));
                            let wu = v.width - cut;
                            let e = if dirty && wu <= cut && g.rng.chance(1, 3) {
                                g.feat("assign:reads-other-bits-of-own-variable");
                                let own = E::R(Ref { var: t, elem: None, sel: Sel::Range(wu - 1, 0) });
                                E::Bin("^", Box::new(own), Box::new(g.expr(wu, 1, &others)))
                            } else {
                                g.expr(wu, 2, &others)
                            };
                            items.push(Item::Assign(Ref { var: t, elem: None, sel: Sel::Range(v.width - 1, cut) }, e));
                        } else {
                            items.push(Item::Assign(Ref { var: t, elem: None, sel: Sel::Whole }, g.expr(v.width, 2, &others)));
                        }
                    }
                }
                g.feat("process:assign");
            }
            35..=69 => {
                // always_comb for this and maybe more targets
                let mut ts = vec![t];
                while ts.len() < 3 && !todo.is_empty() && g.rng.chance(1, 3) {
                    ts.push(todo.pop().unwrap());
                }
                let oth: Vec<usize> = defined.iter().copied().filter(|x| !inputs.contains(x)).collect();
                // clean designs stay clean: no deliberately defective shapes
                let blk = if dirty { g.comb_block(&ts, &inputs, &oth) } else { clean_block(&mut g, &ts, &inputs, &oth) };
                items.push(Item::Comb(blk));
                g.feat("process:always_comb");
                for x in &ts {
                    if *x != t {
                        defined.push(*x);
                    }
                }
            }
            70..=84 => {
                let blk = g.ff_block(t, range, &all_read);
                items.push(Item::Ff(blk));
                g.feat("process:always_ff");
            }
            _ => {
                if v.arr.is_some() {
                    todo.push(t);
                    continue;
                }
                let (out, wo) = match range {
                    Some((hi, lo)) => (Ref { var: t, elem: None, sel: Sel::Range(hi, lo) }, hi - lo + 1),
                    None => (Ref { var: t, elem: None, sel: Sel::Whole }, v.width),
                };
                let wi = 1 + g.rng.usize(4);
                let input = g.expr(wi, 1, &others);
                items.push(Item::Inst { name: format!("u{ninst}"), wi, wo, input, out });
                ninst += 1;
                g.feat("process:inst-output");
            }
        }
        defined.push(t);
    }
    // extra writer on an already driven variable: overlapping -> multiple assignment, disjoint -> legal
    if dirty && g.rng.chance(1, 2) {
        let t = *g.rng.pick(&targets);
        let v = g.vars[t].clone();
        if v.arr.is_none() {
            let lo = g.rng.usize(v.width);
            let hi = lo + g.rng.usize(v.width - lo);
            let others: Vec<usize> = inputs.clone();
            let r = Ref { var: t, elem: None, sel: if hi - lo + 1 == v.width { Sel::Whole } else { Sel::Range(hi, lo) } };
            g.feat("cover:second-writer-on-a-driven-variable");
            match g.rng.below(4) {
                0 => items.push(Item::Assign(r, g.expr(hi - lo + 1, 1, &others))),
                1 => items.push(Item::Comb(vec![S::Assign(r, g.expr(hi - lo + 1, 1, &others))])),
                2 => items.push(Item::Ff(vec![S::Assign(r, g.expr(hi - lo + 1, 1, &others))])),
                _ => {
                    let wi = 1 + g.rng.usize(3);
                    let input = g.expr(wi, 1, &others);
                    items.push(Item::Inst { name: format!("u{ninst}"), wi, wo: hi - lo + 1, input, out: r });
                    ninst += 1;
                }
            }
        }
    }
    // extra readers of (possibly unassigned) bits in the kinds of places the property names
    let nread = g.rng.usize(3);
    for k in 0..nread {
        let w = 1 + g.rng.usize(2);
        match g.rng.below(3) {
            0 => {
                // a condition in a fresh always_comb driving a fresh variable
                let c = g.cond(&all_read);
                g.vars.push(Var { name: format!("x{k}"), width: w, arr: None, kind: Kind::Var });
                let nv = g.vars.len() - 1;
                let a = g.assign_whole(nv, &inputs);
                let b = g.assign_whole(nv, &inputs);
                g.feat("reader:condition");
                items.push(Item::Comb(vec![S::If(vec![(c, a)], Some(b))]));
            }
            1 => {
                g.vars.push(Var { name: format!("x{k}"), width: w, arr: None, kind: Kind::Var });
                let nv = g.vars.len() - 1;
                let wi = 1 + g.rng.usize(4);
                let input = g.leaf_sig(wi, &all_read);
                g.feat("reader:inst-input");
                items.push(Item::Inst { name: format!("u{ninst}"), wi, wo: w, input, out: Ref { var: nv, elem: None, sel: Sel::Whole } });
                ninst += 1;
            }
            _ => {
                g.vars.push(Var { name: format!("x{k}"), width: w, arr: None, kind: Kind::Var });
                let nv = g.vars.len() - 1;
                let e = g.expr(w, 1, &all_read);
                g.feat("reader:assign-rhs");
                items.push(Item::Assign(Ref { var: nv, elem: None, sel: Sel::Whole }, e));
            }
        }
    }
    g.rng.shuffle(&mut items);
    let feats = g.feats.clone();
    Design { vars: g.vars, items, feats }
}

/// a block in which every target gets a default first and reads only touch inputs / other processes
fn clean_block(g: &mut Gen, ts: &[usize], inputs: &[usize], others: &[usize]) -> Vec<S> {
    let mut pool: Vec<usize> = inputs.to_vec();
    pool.extend_from_slice(others);
    let mut out = vec![];
    let mut _mixed: Vec<usize> = vec![];
    for &t in ts {
        if (g.vars[t].width >= 2 || g.vars[t].arr.is_some()) && g.rng.chance(1, 4) {
            // partial writes and reads in mixed order, every read after its write: still clean
            out.extend(g.mixed_partial(t, &pool, false));
            _mixed.push(t);
            continue;
        }
        out.extend(g.assign_whole(t, &pool));
    }
    for &t in ts {
        let mut p2 = pool.clone();
        p2.push(t);
        let n = g.rng.usize(3);
        for _ in 0..n {
            let nb = 1 + g.rng.usize(3);
            let bodies = (0..nb).map(|_| vec![g.assign_to(t, true, &p2)]).collect();
            let with_else = g.rng.bool();
            out.push(g.branchy(bodies, with_else, &p2, "comb"));
        }
        pool.push(t);
    }
    g.feat("comb:default-then-override");
    out
}

// ───────────────────────────── renderer ─────────────────────────────

fn ty(w: usize, arr: Option<usize>) -> String {
    let b = if w == 1 { "logic".to_string() } else { format!("logic<{w}>") };
    match arr {
        Some(n) => format!("{b} [{n}]"),
        None => b,
    }
}

fn ref_text(vars: &[Var], r: &Ref) -> String {
    let mut s = vars[r.var].name.clone();
    if let Some(k) = r.elem {
        s.push_str(&format!("[{k}]"));
    }
    match r.sel {
        Sel::Whole => {}
        Sel::Range(hi, lo) if hi == lo => s.push_str(&format!("[{hi}]")),
        Sel::Range(hi, lo) => s.push_str(&format!("[{hi}:{lo}]")),
        Sel::Loop(0) => s.push_str("[i]"),
        Sel::Loop(k) => s.push_str(&format!("[i + {k}]")),
    }
    s
}

fn expr_text(vars: &[Var], e: &E) -> String {
    match e {
        E::K(w, v) => format!("{w}'h{v:x}"),
        E::R(r) => ref_text(vars, r),
        E::Not(a) => format!("(~{})", expr_text(vars, a)),
        E::Bin(op, a, b) | E::Cmp(op, a, b) => format!("({} {} {})", expr_text(vars, a), op, expr_text(vars, b)),
        E::Red(op, a) => format!("({}{})", op, expr_text(vars, a)),
        E::Mux(c, a, b) => format!("(if {} ? {} : {})", expr_text(vars, c), expr_text(vars, a), expr_text(vars, b)),
        E::Cat(p) => format!("{{{}}}", p.iter().map(|x| expr_text(vars, x)).collect::<Vec<_>>().join(", ")),
    }
}

fn stmts_text(vars: &[Var], s: &[S], ind: &str, out: &mut String) {
    let ind2 = format!("{ind}    ");
    let ind3 = format!("{ind2}    ");
    for x in s {
        match x {
            S::Assign(r, e) => out.push_str(&format!("{ind}{} = {};\n", ref_text(vars, r), expr_text(vars, e))),
            S::If(arms, els) => {
                for (k, (c, b)) in arms.iter().enumerate() {
                    if k == 0 {
                        out.push_str(&format!("{ind}if {} {{\n", expr_text(vars, c)));
                    } else {
                        out.push_str(&format!("{ind}}} else if {} {{\n", expr_text(vars, c)));
                    }
                    stmts_text(vars, b, &ind2, out);
                }
                if let Some(b) = els {
                    out.push_str(&format!("{ind}}} else {{\n"));
                    stmts_text(vars, b, &ind2, out);
                }
                out.push_str(&format!("{ind}}}\n"));
            }
            S::Case(sel, sw, arms, def) => {
                out.push_str(&format!("{ind}case {} {{\n", expr_text(vars, sel)));
                for (l, b) in arms {
                    out.push_str(&format!("{ind2}{sw}'d{l}: {{\n"));
                    stmts_text(vars, b, &ind3, out);
                    out.push_str(&format!("{ind2}}}\n"));
                }
                if let Some(b) = def {
                    out.push_str(&format!("{ind2}default: {{\n"));
                    stmts_text(vars, b, &ind3, out);
                    out.push_str(&format!("{ind2}}}\n"));
                }
                out.push_str(&format!("{ind}}}\n"));
            }
            S::Switch(arms, def) => {
                out.push_str(&format!("{ind}switch {{\n"));
                for (c, b) in arms {
                    out.push_str(&format!("{ind2}{}: {{\n", expr_text(vars, c)));
                    stmts_text(vars, b, &ind3, out);
                    out.push_str(&format!("{ind2}}}\n"));
                }
                if let Some(b) = def {
                    out.push_str(&format!("{ind2}default: {{\n"));
                    stmts_text(vars, b, &ind3, out);
                    out.push_str(&format!("{ind2}}}\n"));
                }
                out.push_str(&format!("{ind}}}\n"));
            }
            S::For(n, b) => {
                out.push_str(&format!("{ind}for i in 0..{n} {{\n"));
                stmts_text(vars, b, &ind2, out);
                out.push_str(&format!("{ind}}}\n"));
            }
        }
    }
}

fn render(d: &Design) -> String {
    let mut o = String::new();
    // children
    let mut shapes: BTreeSet<(usize, usize)> = BTreeSet::new();
    for it in &d.items {
        if let Item::Inst { wi, wo, .. } = it {
            shapes.insert((*wi, *wo));
        }
    }
    for (wi, wo) in &shapes {
        o.push_str(&format!("module Sub{wi}x{wo} (\n    i: input {},\n    o: output {},\n) {{\n", ty(*wi, None), ty(*wo, None)));
        // o = replicate the reduction of i
        if *wo == 1 {
            o.push_str("    assign o = ^i;\n");
        } else {
            o.push_str(&format!("    assign o = {{(^i) repeat {wo}}};\n"));
        }
        o.push_str("}\n\n");
    }
    o.push_str("module Top (\n");
    for v in &d.vars {
        match v.kind {
            Kind::Clock => o.push_str(&format!("    {}: input clock,\n", v.name)),
            Kind::In => o.push_str(&format!("    {}: input {},\n", v.name, ty(v.width, v.arr))),
            Kind::Out => o.push_str(&format!("    {}: output {},\n", v.name, ty(v.width, v.arr))),
            Kind::Var => {}
        }
    }
    o.push_str(") {\n");
    for v in &d.vars {
        if v.kind == Kind::Var {
            o.push_str(&format!("    var {}: {};\n", v.name, ty(v.width, v.arr)));
        }
    }
    for it in &d.items {
        match it {
            Item::Assign(r, e) => o.push_str(&format!("    assign {} = {};\n", ref_text(&d.vars, r), expr_text(&d.vars, e))),
            Item::Comb(s) => {
                o.push_str("    always_comb {\n");
                stmts_text(&d.vars, s, "        ", &mut o);
                o.push_str("    }\n");
            }
            Item::Ff(s) => {
                o.push_str("    always_ff (i_clk) {\n");
                stmts_text(&d.vars, s, "        ", &mut o);
                o.push_str("    }\n");
            }
            Item::Inst { name, wi, wo, input, out } => {
                o.push_str(&format!("    inst {name}: Sub{wi}x{wo} (\n        i: {},\n        o: {},\n    );\n", expr_text(&d.vars, input), ref_text(&d.vars, out)));
            }
        }
    }
    o.push_str("}\n");
    o
}

// ───────────────────────────── case + verdicts ─────────────────────────────

#[derive(Clone, Debug)]
struct CaseOut {
    text: String,
    feats: Vec<String>,
    exp: Expected,
    an: AnOut,
}

fn run_design(d: &Design) -> CaseOut {
    let text = render(d);
    let exp = reference(d);
    let (an, _) = lab::analyze(&text);
    CaseOut { text, feats: d.feats.iter().cloned().collect(), exp, an }
}

fn case(seed: u64, i: u64) -> CaseOut {
    let mut rng = Rng::for_case(seed, "C15", i);
    let d = generate(&mut rng);
    run_design(&d)
}

const CODES: [&str; 3] = ["multiple_assignment", "uncovered_branch", "unassign_variable"];

fn judge(run: &Run, hist: &Hist, i: u64, seed: u64, o: &CaseOut) {
    run.eval();
    if let Some(p) = &o.an.parse_error {
        run.count("discarded_parse_error", 1);
        run.note(format!("case {i}: generator produced unparsable text: {p}"));
        return;
    }
    if let Some(u) = &o.exp.unsupported {
        run.count("discarded_reference_unsupported", 1);
        run.seen("reference_unsupported_reasons", u);
        return;
    }
    let others = o.an.other_errors(&CODES);
    if !others.is_empty() {
        run.count("discarded_unrelated_error", 1);
        for c in &others {
            run.seen("unrelated_error_codes", c);
        }
        return;
    }
    run.count("designs_judged", 1);
    run.nontrivial(hash_str(&o.text));
    for w in o.an.other_codes(&CODES) {
        run.seen("other_warning_codes_on_judged_designs", &w);
    }
    let replay = |code: &str, exp: Exp, got: bool, detail: Json| {
        json!({
            "seed": seed, "case_index": i, "text": o.text, "diagnostic": code,
            "expected": exp.name(), "analyzer_reported": got,
            "expected_all": {"multiple_assignment": o.exp.ma.name(), "uncovered_branch": o.exp.ub.name(), "unassign_variable": o.exp.uv.name()},
            "analyzer": o.an.json(), "features": o.feats, "detail": detail,
        })
    };
    if o.feats.iter().any(|f| f == "comb:mixed-partial-read-write") {
        run.count("mixed_partial_read_write_designs", 1);
        run.count(&format!("mixed_partial_read_write_{}", o.exp.uv.name()), 1);
    }
    let mut all_agree = true;
    for (code, exp) in [("multiple_assignment", o.exp.ma), ("uncovered_branch", o.exp.ub), ("unassign_variable", o.exp.uv)] {
        let got = o.an.has(code);
        run.count(&format!("{code}:{}", exp.name()), 1);
        if got {
            run.count(&format!("{code}:analyzer_reported"), 1);
        }
        for f in &o.feats {
            hist.add(&format!("{f}|{code}:{}", exp.name()));
        }
        let bad = match exp {
            Exp::Report => !got,
            Exp::Clean => got,
            Exp::NoVerdict => false,
        };
        if !bad {
            if exp != Exp::NoVerdict {
                run.count("verdicts_compared_and_agreed", 1);
            }
            continue;
        }
        all_agree = false;
        let dir = if got { "false-positive" } else { "false-negative" };
        let (class, what, detail) = match (code, got) {
            ("multiple_assignment", false) => ("unclassified".to_string(), format!("{} but no multiple_assignment is reported", o.exp.ma_detail), json!({"witness": o.exp.ma_detail})),
            ("multiple_assignment", true) => ("unclassified".to_string(), "multiple_assignment reported although no bit has two writer processes".to_string(), json!({})),
            ("uncovered_branch", true) => {
                let class = if o.exp.ub_only_in_prefix { "covered-by-later-assignment" } else { "unclassified" };
                (class.to_string(), "uncovered_branch reported although every always_comb variable is written on all paths of its block".to_string(), json!({"some_prefix_of_the_block_is_uncovered": o.exp.ub_only_in_prefix}))
            }
            ("uncovered_branch", false) => ("unclassified".to_string(), "a variable is written on some but not all paths of an always_comb, no uncovered_branch reported".to_string(), json!({})),
            ("unassign_variable", false) => {
                let mut parts = vec![];
                if o.exp.uv_never {
                    // two places where reads are not recorded explain every miss seen so far: conditions
                    // (if / case / switch, in always_comb or always_ff) and instance inputs
                    let mut rs: BTreeSet<&str> = BTreeSet::new();
                    for r in &o.exp.uv_never_assigned_readers {
                        rs.insert(match r {
                            Reader::CombCond | Reader::FfCond => "condition",
                            Reader::InstInput => "inst-input",
                            Reader::AssignRhs | Reader::CombRhs | Reader::FfRhs => "rhs",
                        });
                    }
                    parts.push(format!("never-assigned-bit-read-only-in:{}", rs.into_iter().collect::<Vec<_>>().join("+")));
                }
                if o.exp.uv_rba && !o.exp.uv_never {
                    let mut w = vec![];
                    if o.exp.uv_rba_in_cond {
                        w.push("condition");
                    }
                    if o.exp.uv_rba_in_rhs {
                        w.push("rhs");
                    }
                    parts.push(format!("read-before-assign-in:{}", w.join("+")));
                }
                (parts.join(","), format!("{}; no unassign_variable reported", o.exp.uv_detail), json!({"witness": o.exp.uv_detail}))
            }
            ("unassign_variable", true) => {
                let class = if o.exp.assign_self_ref { "assign-statement-reads-other-bits-of-its-variable" } else { "unclassified" };
                let msg = o.an.diags.iter().find(|x| x.code == code).map(|x| x.message.clone()).unwrap_or_default();
                (class.to_string(), format!("unassign_variable reported ({msg}) although every read bit is assigned and no always_comb reads a bit before assigning it"), json!({"assign_statement_self_reference_present": o.exp.assign_self_ref}))
            }
            _ => unreachable!(),
        };
        run.count(&format!("{code}:{dir}"), 1);
        run.violation(&format!("{code}:{dir}:{class}"), &what, replay(code, exp, got, detail));
    }
    if all_agree {
        run.count("designs_fully_agreeing", 1);
        run.sample(json!({
            "expected": {"multiple_assignment": o.exp.ma.name(), "uncovered_branch": o.exp.ub.name(), "unassign_variable": o.exp.uv.name()},
            "analyzer_codes": o.an.diags.iter().map(|d| d.code.clone()).collect::<BTreeSet<_>>(),
            "features": o.feats, "text": o.text,
        }));
    }
}

pub fn main(args: Args) {
    let run = Arc::new(Run::new(
        args.clone(),
        // a replay re-runs one recorded case: not a coverage claim
        if args.replay.is_some() { "other" } else { "exploration" },
        "AssignLab: one module with 2-4 inputs and 3-9 driven variables (1-8 bits, some unpacked arrays); drivers are assign statements \
         (whole, split ranges), always_comb blocks (default-then-override, every-branch-assigns, branch without else/default, covered by a \
         later assignment, branches writing different bits, constant-bound for loops; if/else-if/else, case, switch), always_ff blocks, \
         instance outputs (whole or part-selected); half of the designs get deliberate defects (partly assigned variables, a second writer, \
         reads of a block's own variables, extra readers in conditions / instance inputs / right-hand sides).  Reference = per-bit writer \
         sets per process, exhaustive path enumeration of every always_comb, never-assigned-but-read bits.  Non-trivial = the analyzer \
         raises no unrelated error; distinct = distinct texts",
    ));
    run.assume("assignref (mon_sem/src/c15.rs): path enumeration up to 512 paths per always_comb; loops unrolled (constant bounds)");
    run.assume("uncovered_branch: report expected only when a whole variable is unwritten on some path, clean only when every bit is written on all paths; in between no verdict");
    run.assume("unassign_variable: read-before-assign expected only when the path-sensitive per-bit, the path-sensitive per-variable and the text-order reading all agree; unassigned output bits / wholly unassigned unread variables give no verdict");
    run.assume("diagnostics matched by code; severity (multiple_assignment error, the others warnings) is not judged");

    if args.get("flip") == Some("ignore-default") {
        FLIP_IGNORE_DEFAULT.store(true, std::sync::atomic::Ordering::Relaxed);
        run.note("SENSITIVITY RUN: reference deliberately wrong (flip=ignore-default)".into());
    }
    let hist = Arc::new(Hist::default());
    if let Some(rp) = &args.replay {
        run.set_extra("explanation", json!("replay of one recorded case against the current tree; no coverage is claimed"));
        let v: Json = serde_json::from_str(&std::fs::read_to_string(rp).expect("replay file")).expect("replay json");
        let seed = v["case"]["seed"].as_u64().unwrap_or(args.seed);
        let i = v["case"]["case_index"].as_u64().expect("case_index");
        let stored = v["case"]["text"].as_str().unwrap_or("").to_string();
        let o = fresh_thread(STACK_64M, move || case(seed, i)).expect("no panic");
        if o.text != stored {
            run.inconclusive("replay: regenerated text differs from the stored text (generator changed)".into());
        }
        println!("{}", o.text);
        println!("expected: {:?}", o.exp);
        println!("analyzer: {}", o.an.json());
        run.sample(json!({"replayed_case": i, "seed": seed, "text": o.text}));
        judge(&run, &hist, i, seed, &o);
        run.finish(&[]);
    }
    if let Some(path) = args.get("file") {
        let text = std::fs::read_to_string(path).expect("file");
        let r = fresh_thread(STACK_64M, move || lab::analyze(&text).0).expect("no panic");
        println!("analyzer: {}", r.json());
        std::process::exit(0);
    }

    let n = args.budget("cases", 800, 60_000);
    let seed = args.seed;
    let run2 = run.clone();
    let hist2 = hist.clone();
    par_cases(
        n,
        args.jobs,
        STACK_64M,
        move |i| case(seed, i),
        move |i, r| match r {
            Err(p) => {
                run2.eval();
                run2.count("cases_panicked", 1);
                run2.note(format!("case {i} panicked at {}: {}", p.location, p.message));
            }
            Ok(o) => judge(&run2, &hist2, i, seed, &o),
        },
    );
    run.set_extra("feature_histogram", hist.json());
    let sc = |x: i64| (x * n as i64 / 800).max(1);
    run.finish(&[
        ("designs_judged", sc(250)),
        ("multiple_assignment:expected_report", sc(15)),
        ("multiple_assignment:expected_clean", sc(150)),
        ("uncovered_branch:expected_report", sc(15)),
        ("uncovered_branch:expected_clean", sc(150)),
        ("unassign_variable:expected_report", sc(15)),
        ("unassign_variable:expected_clean", sc(100)),
        ("verdicts_compared_and_agreed", sc(600)),
        ("mixed_partial_read_write_designs", sc(60)),
        ("mixed_partial_read_write_expected_report", sc(15)),
        ("mixed_partial_read_write_expected_clean", sc(15)),
    ]);
}
