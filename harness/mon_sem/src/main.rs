//! mon_sem — semantic-check monitors (labs); dispatches on --prop.

use vcommon::Args;

mod c14;
mod c15;
mod c16;
mod lab;

fn main() {
    vcommon::pool::install_panic_hook();
    let args = Args::parse();
    match args.prop.as_str() {
        "C14" => c14::main(args),
        "C15" => c15::main(args),
        "C16" => c16::main(args),
        p => {
            eprintln!("mon_sem: unknown property {p}");
            std::process::exit(2);
        }
    }
}
