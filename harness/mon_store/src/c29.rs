//! C29 — the cache store behaves like a versioned key-value map.
//!
//! Random operation sequences run on the real `veryl_cache::Store` in a private
//! directory; after every (re)open the store's `entry` / `load` /
//! `load_diagnostics` are compared, for each source path, with **kvmodel** below
//! ("the entries and blob bytes of the last save under that key; nothing under
//! another key or schema"), and after every `save` each blob the saved manifest
//! references must exist on disk and read back.  Every blob has unique content
//! (sequence op counter), so a read identifies the write it observed.
//!
//! Events that refute: see `Bad` signatures (`reopen:*`, `other-key-visible`,
//! `other-schema-visible`, `blob-missing-after-save`).

use std::collections::BTreeMap;
use std::path::{Path, PathBuf};
use std::sync::Arc;
use vcommon::pool::{STACK_64M, par_cases};
use vcommon::rng::hash_str;
use vcommon::{Args, Json, Rng, Run, json};
use veryl_cache::Store;

// ------------------------------------------------------------------------------------------------
// kvmodel: the executable specification (deliberately dumb)
// ------------------------------------------------------------------------------------------------

#[derive(Clone, Debug, PartialEq, Eq, Default)]
struct MEntry {
    hash: String,
    frag: Option<Vec<u8>>,
    deps: Vec<String>,
    tests: Vec<String>,
    diag: Option<Vec<u8>>,
}

type Files = BTreeMap<String, MEntry>;

#[derive(Clone, Debug, Default)]
struct KvModel {
    /// what the last successful `save` left on disk: (schema is current, key, entries)
    disk: Option<(bool, String, Files)>,
    /// the open session: (key, entries visible through `entry()`, build in progress)
    session: Option<(String, Files, Files)>,
}

impl KvModel {
    fn open(&mut self, key: &str) {
        let view = match &self.disk {
            Some((true, k, files)) if k == key => files.clone(),
            _ => Files::new(),
        };
        self.session = Some((key.to_string(), view, Files::new()));
    }
    fn close(&mut self) {
        self.session = None;
    }
    fn put(&mut self, p: &str, hash: &str, blob: Option<&[u8]>) {
        if let Some((_, _, next)) = &mut self.session {
            next.insert(p.into(), MEntry { hash: hash.into(), frag: blob.map(|b| b.to_vec()), ..Default::default() });
        }
    }
    fn keep(&mut self, p: &str) {
        if let Some((_, view, next)) = &mut self.session
            && let Some(e) = view.get(p)
        {
            next.insert(p.into(), e.clone());
        }
    }
    fn with_next(&mut self, p: &str, f: impl FnOnce(&mut MEntry)) {
        if let Some((_, _, next)) = &mut self.session
            && let Some(e) = next.get_mut(p)
        {
            f(e);
        }
    }
    fn invalidate(&mut self, p: &str) {
        self.with_next(p, |e| e.frag = None);
    }
    fn set_dependents(&mut self, p: &str, d: &[String]) {
        self.with_next(p, |e| e.deps = d.to_vec());
    }
    fn set_tests(&mut self, p: &str, t: &[String]) {
        self.with_next(p, |e| e.tests = t.to_vec());
    }
    fn set_diagnostics(&mut self, p: &str, b: &[u8]) {
        // documented: skipped for files without a fragment
        self.with_next(p, |e| {
            if e.frag.is_some() {
                e.diag = Some(b.to_vec())
            }
        });
    }
    fn save(&mut self) {
        if let Some((key, view, next)) = &mut self.session {
            *view = std::mem::take(next);
            self.disk = Some((true, key.clone(), view.clone()));
        }
    }
    /// a manifest written by a binary with another SCHEMA_VERSION
    fn foreign_schema(&mut self) {
        if let Some((ok, _, _)) = &mut self.disk {
            *ok = false;
        }
    }
    fn view(&self) -> Option<&Files> {
        self.session.as_ref().map(|s| &s.1)
    }
}

// ------------------------------------------------------------------------------------------------
// operations
// ------------------------------------------------------------------------------------------------

#[derive(Clone, Debug, PartialEq)]
enum Op {
    Open { key: String, try_open: bool },
    Put { path: String, hash: String, blob: Option<Vec<u8>> },
    Keep { path: String },
    Invalidate { path: String },
    SetDependents { path: String, deps: Vec<String> },
    SetTests { path: String, tests: Vec<String> },
    SetDiagnostics { path: String, blob: Vec<u8> },
    Save,
    Drop,
    /// (store closed) rewrite `schema = N` in manifest.toml to another version
    ForeignSchema { version: u32 },
}

impl Op {
    fn kind(&self) -> &'static str {
        match self {
            Op::Open { try_open: false, .. } => "open",
            Op::Open { try_open: true, .. } => "try_open",
            Op::Put { blob: Some(_), .. } => "put_blob",
            Op::Put { blob: None, .. } => "put_noblob",
            Op::Keep { .. } => "keep",
            Op::Invalidate { .. } => "invalidate",
            Op::SetDependents { .. } => "set_dependents",
            Op::SetTests { .. } => "set_tests",
            Op::SetDiagnostics { .. } => "set_diagnostics",
            Op::Save => "save",
            Op::Drop => "drop",
            Op::ForeignSchema { .. } => "foreign_schema",
        }
    }
}

fn blob_json(b: &[u8]) -> Json {
    match std::str::from_utf8(b) {
        Ok(s) if !s.chars().any(|c| c.is_control()) => json!(s),
        _ => json!({"hex": b.iter().map(|x| format!("{x:02x}")).collect::<String>()}),
    }
}

fn blob_from_json(v: &Json) -> Vec<u8> {
    if let Some(s) = v.as_str() {
        return s.as_bytes().to_vec();
    }
    let h = v["hex"].as_str().expect("blob hex");
    (0..h.len() / 2).map(|i| u8::from_str_radix(&h[2 * i..2 * i + 2], 16).unwrap()).collect()
}

fn op_json(op: &Op) -> Json {
    match op {
        Op::Open { key, try_open } => json!({"op": if *try_open {"try_open"} else {"open"}, "key": key}),
        Op::Put { path, hash, blob } => {
            json!({"op": "put", "path": path, "hash": hash, "blob": blob.as_ref().map(|b| blob_json(b))})
        }
        Op::Keep { path } => json!({"op": "keep", "path": path}),
        Op::Invalidate { path } => json!({"op": "invalidate", "path": path}),
        Op::SetDependents { path, deps } => json!({"op": "set_dependents", "path": path, "deps": deps}),
        Op::SetTests { path, tests } => json!({"op": "set_tests", "path": path, "tests": tests}),
        Op::SetDiagnostics { path, blob } => json!({"op": "set_diagnostics", "path": path, "blob": blob_json(blob)}),
        Op::Save => json!({"op": "save"}),
        Op::Drop => json!({"op": "drop"}),
        Op::ForeignSchema { version } => json!({"op": "foreign_schema", "version": version}),
    }
}

fn op_from_json(v: &Json) -> Op {
    let s = |k: &str| v[k].as_str().unwrap_or_else(|| panic!("op field {k}")).to_string();
    let list = |k: &str| -> Vec<String> {
        v[k].as_array().map(|a| a.iter().map(|x| x.as_str().unwrap().to_string()).collect()).unwrap_or_default()
    };
    match v["op"].as_str().expect("op") {
        "open" => Op::Open { key: s("key"), try_open: false },
        "try_open" => Op::Open { key: s("key"), try_open: true },
        "put" => Op::Put { path: s("path"), hash: s("hash"), blob: if v["blob"].is_null() { None } else { Some(blob_from_json(&v["blob"])) } },
        "keep" => Op::Keep { path: s("path") },
        "invalidate" => Op::Invalidate { path: s("path") },
        "set_dependents" => Op::SetDependents { path: s("path"), deps: list("deps") },
        "set_tests" => Op::SetTests { path: s("path"), tests: list("tests") },
        "set_diagnostics" => Op::SetDiagnostics { path: s("path"), blob: blob_from_json(&v["blob"]) },
        "save" => Op::Save,
        "drop" => Op::Drop,
        "foreign_schema" => Op::ForeignSchema { version: v["version"].as_u64().unwrap() as u32 },
        x => panic!("unknown op {x}"),
    }
}

fn ops_json(ops: &[Op]) -> Json {
    Json::Array(ops.iter().map(op_json).collect())
}

// ------------------------------------------------------------------------------------------------
// generator (uses the model only to aim: e.g. to produce identical re-scans)
// ------------------------------------------------------------------------------------------------

const KEYS: &[&str] = &["k0", "k1", "k2", "", "k0 ", "K0", "0123456789abcdef0123456789abcdef0123456789abcdef0123456789abcdef"];
const PATHS: &[&str] = &[
    "src/a.veryl",
    "src/b.veryl",
    "src/sub/c.veryl",
    "/abs/prj/src/d.veryl",
    "src/with space/e.veryl",
    "src\\win\\f.veryl",
    "src/日本語/g.veryl",
    "dependencies/std/a.b.c.veryl",
    "src/quote\"and'x.veryl",
    "src/#hash=[x].veryl",
];

fn gen_ops(rng: &mut Rng, max_ops: usize) -> Vec<Op> {
    let mut ops: Vec<Op> = vec![];
    let mut model = KvModel::default();
    // each sequence works on a few paths and keys so that collisions are frequent
    let np = 1 + rng.usize(5);
    let mut paths: Vec<&str> = PATHS.to_vec();
    rng.shuffle(&mut paths);
    paths.truncate(np);
    let nk = 1 + rng.usize(3);
    let mut keys: Vec<&str> = KEYS.to_vec();
    rng.shuffle(&mut keys);
    keys.truncate(nk);
    let mut last_key: Option<String> = None;
    let mut counter = 0u64;
    let mut old_blobs: Vec<Vec<u8>> = vec![];
    let target = 4 + rng.usize(max_ops.saturating_sub(3).max(1));
    let structured = rng.chance(2, 3);

    let fresh_blob = |rng: &mut Rng, counter: &mut u64, what: &str, old: &mut Vec<Vec<u8>>| -> Vec<u8> {
        *counter += 1;
        // mostly unique content; sometimes identical to an earlier blob (content-address sharing),
        // sometimes empty, sometimes binary
        let b = match rng.below(20) {
            0 if !old.is_empty() => old[rng.usize(old.len())].clone(),
            1 => vec![],
            2 => {
                let mut v = format!("{what}#{counter}:").into_bytes();
                for _ in 0..rng.below(40) {
                    v.push(rng.below(256) as u8);
                }
                v
            }
            _ => format!("{what}#{counter}{}", "~".repeat(rng.usize(30))).into_bytes(),
        };
        old.push(b.clone());
        b
    };

    while ops.len() < target.min(max_ops) {
        let open = model.session.is_some();
        if !open {
            if model.disk.is_some() && rng.chance(1, 12) {
                let version = *rng.pick(&[0u32, 1, 3, 99]);
                model.foreign_schema();
                ops.push(Op::ForeignSchema { version });
                continue;
            }
            let key = match &last_key {
                Some(k) if rng.chance(2, 3) => k.clone(),
                _ => rng.pick(&keys).to_string(),
            };
            last_key = Some(key.clone());
            model.open(&key);
            ops.push(Op::Open { key, try_open: rng.chance(1, 6) });
            continue;
        }
        let p = rng.pick(&paths).to_string();
        if structured && rng.chance(1, 3) {
            // one "build": every path is re-put (changed), kept (cache hit) or left out (deleted),
            // then the post-build bookkeeping, then save (or a drop without save = failed build)
            for q in paths.clone() {
                if ops.len() + 3 >= max_ops {
                    break;
                }
                let q = q.to_string();
                match rng.below(10) {
                    0..=3 => {
                        counter += 1;
                        let hash = format!("h{counter}");
                        let blob = if rng.chance(5, 6) { Some(fresh_blob(rng, &mut counter, "frag", &mut old_blobs)) } else { None };
                        model.put(&q, &hash, blob.as_deref());
                        ops.push(Op::Put { path: q.clone(), hash, blob });
                        if rng.chance(1, 3) {
                            let blob = fresh_blob(rng, &mut counter, "diag", &mut old_blobs);
                            model.set_diagnostics(&q, &blob);
                            ops.push(Op::SetDiagnostics { path: q.clone(), blob });
                        }
                    }
                    4..=8 => {
                        model.keep(&q);
                        ops.push(Op::Keep { path: q.clone() });
                    }
                    _ => {}
                }
                if rng.chance(1, 3) && ops.len() + 2 < max_ops {
                    let n = rng.usize(3);
                    let deps: Vec<String> = (0..n).map(|_| rng.pick(&paths).to_string()).collect();
                    model.set_dependents(&q, &deps);
                    ops.push(Op::SetDependents { path: q.clone(), deps });
                }
                if rng.chance(1, 8) {
                    model.invalidate(&q);
                    ops.push(Op::Invalidate { path: q });
                }
            }
            if rng.chance(5, 6) {
                model.save();
                ops.push(Op::Save);
            } else {
                model.close();
                ops.push(Op::Drop);
            }
            continue;
        }
        match rng.below(100) {
            0..=21 => {
                counter += 1;
                let hash = if rng.chance(1, 5) { "h-same".to_string() } else { format!("h{counter}") };
                let blob = if rng.chance(4, 5) { Some(fresh_blob(rng, &mut counter, "frag", &mut old_blobs)) } else { None };
                model.put(&p, &hash, blob.as_deref());
                ops.push(Op::Put { path: p, hash, blob });
            }
            22..=35 => {
                model.keep(&p);
                ops.push(Op::Keep { path: p });
            }
            36..=41 => {
                model.invalidate(&p);
                ops.push(Op::Invalidate { path: p });
            }
            42..=49 => {
                let n = rng.usize(3);
                let deps: Vec<String> = (0..n).map(|_| rng.pick(&paths).to_string()).collect();
                model.set_dependents(&p, &deps);
                ops.push(Op::SetDependents { path: p, deps });
            }
            50..=54 => {
                let n = rng.usize(3);
                let tests: Vec<String> = (0..n).map(|k| format!("test_{k}_{}", rng.below(5))).collect();
                model.set_tests(&p, &tests);
                ops.push(Op::SetTests { path: p, tests });
            }
            55..=62 => {
                let blob = fresh_blob(rng, &mut counter, "diag", &mut old_blobs);
                model.set_diagnostics(&p, &blob);
                ops.push(Op::SetDiagnostics { path: p, blob });
            }
            63..=74 => {
                model.save();
                ops.push(Op::Save);
            }
            75..=84 => {
                // identical re-scan: keep everything the previous build had, then save
                let view: Vec<String> = model.view().map(|v| v.keys().cloned().collect()).unwrap_or_default();
                for q in view {
                    if ops.len() + 1 >= max_ops {
                        break;
                    }
                    model.keep(&q);
                    ops.push(Op::Keep { path: q });
                }
                model.save();
                ops.push(Op::Save);
            }
            85..=86 => {
                // a second store on the same root while the first is alive (must not be handed out)
                ops.push(Op::Open { key: rng.pick(&keys).to_string(), try_open: true });
            }
            _ => {
                model.close();
                ops.push(Op::Drop);
            }
        }
    }
    ops
}

// ------------------------------------------------------------------------------------------------
// executor + oracle
// ------------------------------------------------------------------------------------------------

#[derive(Debug, Default, Clone)]
struct Obs {
    ops_by_kind: BTreeMap<&'static str, u64>,
    reopen_checks: u64,
    reopen_checks_with_entries: u64,
    entries_compared: u64,
    blobs_compared: u64,
    diag_blobs_compared: u64,
    absent_paths_compared: u64,
    other_key_opens_empty: u64,
    other_schema_opens_empty: u64,
    saves_written: u64,
    saves_skipped_unchanged: u64,
    saves_skipped_nonempty: u64,
    saves_empty_after_key_change: u64,
    post_save_blob_checks: u64,
    blobs_deleted_by_gc: u64,
    shared_blob_entries: u64,
    try_open_refused_while_held: u64,
    try_open_granted_while_held: u64,
    /// (signature, detail)
    bad: Vec<(String, String)>,
    harness_errors: Vec<String>,
}

fn walk_blobs(root: &Path) -> Vec<PathBuf> {
    let mut ret = vec![];
    if let Ok(dirs) = std::fs::read_dir(root.join("fragments")) {
        for dir in dirs.flatten() {
            if let Ok(files) = std::fs::read_dir(dir.path()) {
                for file in files.flatten() {
                    if file.path().extension().is_some_and(|x| x == "frag") {
                        ret.push(file.path());
                    }
                }
            }
        }
    }
    ret
}

fn manifest_stamp(root: &Path) -> Option<(u64, i64, i64, u64)> {
    use std::os::unix::fs::MetadataExt;
    let m = std::fs::metadata(root.join("manifest.toml")).ok()?;
    Some((m.ino(), m.mtime(), m.mtime_nsec(), m.len()))
}

fn show(b: &Option<Vec<u8>>) -> String {
    match b {
        None => "None".into(),
        Some(b) => format!("{:?}", String::from_utf8_lossy(&b[..b.len().min(48)])),
    }
}

/// Compare what the open real store shows for every path with `expect`.
fn compare(store: &Store, expect: &Files, universe: &[String], when: &str, obs: &mut Obs, prefix: &str) {
    for p in universe {
        let real = store.entry(p);
        match (real, expect.get(p)) {
            (None, None) => obs.absent_paths_compared += 1,
            (Some(r), None) => obs.bad.push((
                format!("{prefix}:entry-unexpected"),
                format!("{when}: entry({p:?}) = {{hash {:?}, fragment {:?}}} but the last saved build has no entry for it", r.hash, r.fragment),
            )),
            (None, Some(m)) => obs.bad.push((
                format!("{prefix}:entry-missing"),
                format!("{when}: entry({p:?}) is None but the last saved build recorded hash {:?}", m.hash),
            )),
            (Some(r), Some(m)) => {
                obs.entries_compared += 1;
                if r.hash != m.hash {
                    obs.bad.push((format!("{prefix}:hash"), format!("{when}: entry({p:?}).hash = {:?}, last save wrote {:?}", r.hash, m.hash)));
                }
                if r.dependents != m.deps {
                    obs.bad.push((format!("{prefix}:dependents"), format!("{when}: entry({p:?}).dependents = {:?}, last save wrote {:?}", r.dependents, m.deps)));
                }
                if r.tests != m.tests {
                    obs.bad.push((format!("{prefix}:tests"), format!("{when}: entry({p:?}).tests = {:?}, last save wrote {:?}", r.tests, m.tests)));
                }
                if r.fragment.is_some() != m.frag.is_some() {
                    obs.bad.push((
                        format!("{prefix}:fragment-presence"),
                        format!("{when}: entry({p:?}).fragment = {:?}, last save wrote blob {}", r.fragment, show(&m.frag)),
                    ));
                }
                if r.diagnostics.is_some() != m.diag.is_some() {
                    obs.bad.push((
                        format!("{prefix}:diagnostics-presence"),
                        format!("{when}: entry({p:?}).diagnostics = {:?}, last save wrote blob {}", r.diagnostics, show(&m.diag)),
                    ));
                }
                let got = store.load(r);
                if m.frag.is_some() {
                    obs.blobs_compared += 1;
                }
                if got != m.frag {
                    obs.bad.push((
                        format!("{prefix}:blob-bytes"),
                        format!("{when}: load(entry({p:?})) = {}, last save wrote {}", show(&got), show(&m.frag)),
                    ));
                }
                let got = store.load_diagnostics(r);
                if m.diag.is_some() {
                    obs.diag_blobs_compared += 1;
                }
                if got != m.diag {
                    obs.bad.push((
                        format!("{prefix}:diag-bytes"),
                        format!("{when}: load_diagnostics(entry({p:?})) = {}, last save wrote {}", show(&got), show(&m.diag)),
                    ));
                }
            }
        }
    }
}

/// Run `ops` on the real store in `root` (must not exist) and on the model.
/// Closed-store ops on an open-store op (and vice versa) are no-ops on both
/// sides, so every subsequence of a sequence is executable (needed to shrink).
fn execute(ops: &[Op], root: &Path, stale_model: bool) -> Obs {
    let mut obs = Obs::default();
    let mut model = KvModel::default();
    let mut prev_disk: Option<(bool, String, Files)> = None; // only for the sensitivity switch
    let mut store: Option<Store> = None;
    let mut universe: Vec<String> = vec!["src/never-used.veryl".to_string()];
    for op in ops {
        if let Op::Put { path, .. } | Op::Keep { path } | Op::Invalidate { path } | Op::SetDependents { path, .. } | Op::SetTests { path, .. } | Op::SetDiagnostics { path, .. } = op
            && !universe.contains(path)
        {
            universe.push(path.clone());
        }
    }
    let mut step = 0usize;
    let mut run_op = |op: &Op, obs: &mut Obs, model: &mut KvModel, store: &mut Option<Store>, step: usize| {
        match op {
            Op::Open { key, try_open } => {
                if store.is_some() {
                    // a second handle while the first is alive: only try_open may be attempted
                    // (Store::open would block forever on our own flock).
                    match Store::try_open(root, key) {
                        None => obs.try_open_refused_while_held += 1,
                        Some(s) => {
                            obs.try_open_granted_while_held += 1;
                            drop(s);
                        }
                    }
                    return;
                }
                let disk_before = model.disk.clone();
                let s = if *try_open {
                    match Store::try_open(root, key) {
                        Some(s) => s,
                        None => {
                            obs.harness_errors.push(format!("step {step}: try_open returned None although no store is open"));
                            return;
                        }
                    }
                } else {
                    Store::open(root, key)
                };
                model.open(key);
                let mut expect = model.view().unwrap().clone();
                if stale_model
                    && let Some((true, k, files)) = &prev_disk
                    && k == key
                {
                    expect = files.clone();
                }
                let when = format!("step {step}: after open(key {key:?})");
                obs.reopen_checks += 1;
                if !expect.is_empty() {
                    obs.reopen_checks_with_entries += 1;
                }
                let prefix = match &disk_before {
                    Some((true, k, files)) if k != key && !files.is_empty() => {
                        obs.other_key_opens_empty += 1;
                        "other-key-visible"
                    }
                    Some((false, _, files)) if !files.is_empty() => {
                        obs.other_schema_opens_empty += 1;
                        "other-schema-visible"
                    }
                    _ => "reopen",
                };
                compare(&s, &expect, &universe, &when, obs, prefix);
                *store = Some(s);
            }
            Op::Drop => {
                *store = None;
                model.close();
            }
            Op::ForeignSchema { version } => {
                if store.is_some() {
                    return;
                }
                let path = root.join("manifest.toml");
                let Ok(text) = std::fs::read_to_string(&path) else { return };
                let cur = format!("schema = {}", veryl_cache::SCHEMA_VERSION);
                if *version == veryl_cache::SCHEMA_VERSION || !text.contains(&cur) {
                    if !text.contains("schema = ") {
                        obs.harness_errors.push(format!("step {step}: manifest has no `schema = ` line"));
                    }
                    return;
                }
                let text = text.replacen(&cur, &format!("schema = {version}"), 1);
                std::fs::write(&path, text).expect("rewrite manifest");
                model.foreign_schema();
            }
            _ => {
                let Some(s) = store.as_mut() else { return };
                match op {
                    Op::Put { path, hash, blob } => {
                        s.put(path.clone(), hash.clone(), blob.as_deref());
                        model.put(path, hash, blob.as_deref());
                    }
                    Op::Keep { path } => {
                        s.keep(path);
                        model.keep(path);
                    }
                    Op::Invalidate { path } => {
                        s.invalidate(path);
                        model.invalidate(path);
                    }
                    Op::SetDependents { path, deps } => {
                        s.set_dependents(path, deps.clone());
                        model.set_dependents(path, deps);
                    }
                    Op::SetTests { path, tests } => {
                        s.set_tests(path, tests.clone());
                        model.set_tests(path, tests);
                    }
                    Op::SetDiagnostics { path, blob } => {
                        s.set_diagnostics(path, blob);
                        model.set_diagnostics(path, blob);
                    }
                    Op::Save => {
                        let before = manifest_stamp(root);
                        let blobs_before = walk_blobs(root).len();
                        s.save();
                        let after = manifest_stamp(root);
                        let blobs_after = walk_blobs(root).len();
                        obs.blobs_deleted_by_gc += blobs_before.saturating_sub(blobs_after) as u64;
                        if before.is_some() && before == after {
                            obs.saves_skipped_unchanged += 1;
                            if model.view().is_some_and(|v| !v.is_empty()) {
                                obs.saves_skipped_nonempty += 1;
                            }
                        } else {
                            obs.saves_written += 1;
                        }
                        prev_disk = model.disk.clone();
                        let key_changed = !matches!(&model.disk, Some((true, k, _)) if Some(k) == model.session.as_ref().map(|x| &x.0));
                        model.save();
                        let saved = model.view().unwrap().clone();
                        if key_changed && saved.is_empty() {
                            obs.saves_empty_after_key_change += 1;
                        }
                        // "saving never deletes a blob that the saved manifest references": every
                        // blob the manifest now in memory references exists and reads back.
                        for p in &universe {
                            if let Some(e) = s.entry(p) {
                                for (rel, what) in [(&e.fragment, "fragment"), (&e.diagnostics, "diagnostics")] {
                                    if let Some(rel) = rel {
                                        obs.post_save_blob_checks += 1;
                                        if !root.join(rel).is_file() {
                                            obs.bad.push((
                                                "blob-missing-after-save".into(),
                                                format!("step {step}: after save() the manifest entry for {p:?} references {what} blob {rel} which does not exist on disk"),
                                            ));
                                        }
                                    }
                                }
                            }
                        }
                        // and for what the model says was saved: the bytes are loadable now
                        let mut contents: BTreeMap<&[u8], u32> = BTreeMap::new();
                        for (p, m) in &saved {
                            for b in [&m.frag, &m.diag].into_iter().flatten() {
                                *contents.entry(b.as_slice()).or_default() += 1;
                            }
                            if let Some(e) = s.entry(p) {
                                if m.frag.is_some() && s.load(e) != m.frag {
                                    obs.bad.push((
                                        "blob-missing-after-save".into(),
                                        format!("step {step}: right after save(), load(entry({p:?})) = {} but the saved build's blob is {}", show(&s.load(e)), show(&m.frag)),
                                    ));
                                }
                                if m.diag.is_some() && s.load_diagnostics(e) != m.diag {
                                    obs.bad.push((
                                        "blob-missing-after-save".into(),
                                        format!("step {step}: right after save(), load_diagnostics(entry({p:?})) = {} but the saved build's blob is {}", show(&s.load_diagnostics(e)), show(&m.diag)),
                                    ));
                                }
                            }
                        }
                        obs.shared_blob_entries += contents.values().filter(|&&n| n > 1).count() as u64;
                    }
                    _ => unreachable!(),
                }
            }
        }
    };
    for op in ops {
        *obs.ops_by_kind.entry(op.kind()).or_default() += 1;
        run_op(op, &mut obs, &mut model, &mut store, step);
        step += 1;
    }
    // closing checks: same key as the last save sees exactly that build; a key never used sees nothing
    drop(store.take());
    model.close();
    if let Some((_, key, _)) = model.disk.clone() {
        run_op(&Op::Open { key, try_open: false }, &mut obs, &mut model, &mut store, step);
        drop(store.take());
        model.close();
        run_op(&Op::Open { key: "a key no sequence uses".into(), try_open: false }, &mut obs, &mut model, &mut store, step + 1);
        drop(store.take());
    }
    obs
}

fn scratch_root() -> PathBuf {
    PathBuf::from(format!("/verif/scratch/c29-{}", std::process::id()))
}

fn execute_in(ops: &[Op], dir: &Path, stale: bool) -> Obs {
    let _ = std::fs::remove_dir_all(dir);
    std::fs::create_dir_all(dir).expect("scratch dir");
    let obs = execute(ops, &dir.join("cache"), stale);
    let _ = std::fs::remove_dir_all(dir);
    obs
}

/// Greedy one-op-at-a-time shrinking while a violation with signature `sig` persists.
fn shrink(ops: &[Op], sig: &str, dir: &Path, stale: bool) -> Vec<Op> {
    let mut cur = ops.to_vec();
    let mut budget = 600;
    loop {
        let mut progressed = false;
        let mut i = 0;
        while i < cur.len() && budget > 0 {
            let mut cand = cur.clone();
            cand.remove(i);
            budget -= 1;
            let o = execute_in(&cand, dir, stale);
            if o.bad.iter().any(|(s, _)| s == sig) {
                cur = cand;
                progressed = true;
            } else {
                i += 1;
            }
        }
        if !progressed || budget == 0 {
            return cur;
        }
    }
}

pub fn main(args: Args) {
    let run = Arc::new(Run::new(
        args.clone(),
        "exploration",
        "a case is one random operation sequence (<= max_ops operations: open/try_open with one of 1-3 keys, put with/without \
         blob, keep, invalidate, set_dependents, set_tests, set_diagnostics, save, identical re-scan (keep all + save), drop, \
         foreign-schema manifest, try_open while held) on the real Store in a private directory, compared with kvmodel after \
         every open and every save; non-trivial = at least one written save with >=1 entry and one reopen that compared >=1 entry; \
         distinct = distinct operation sequences",
    ));
    run.assume("kvmodel (40 lines in c29.rs) states the intended meaning of each op: put/keep/invalidate/set_* touch only the build in progress, save replaces the saved build by it, open shows the saved build iff key and schema match");
    run.assume("a manifest of another schema version is emulated by rewriting the `schema = N` line of manifest.toml while no store is open");
    run.assume("a skipped manifest write is recognised by an unchanged (inode, mtime, size) of manifest.toml across save()");

    let stale = args.get("sensitivity") == Some("stale-model");
    let base = scratch_root();
    let _ = std::fs::remove_dir_all(&base);
    std::fs::create_dir_all(&base).expect("scratch");

    if let Some(rp) = &args.replay {
        let v: Json = serde_json::from_str(&std::fs::read_to_string(rp).expect("replay file")).unwrap();
        let ops: Vec<Op> = v["case"]["ops"].as_array().expect("case.ops").iter().map(op_from_json).collect();
        let o = execute_in(&ops, &base.join("replay"), stale);
        run.eval();
        for (sig, detail) in &o.bad {
            run.violation(sig, detail, v["case"].clone());
        }
        let _ = std::fs::remove_dir_all(&base);
        run.finish(&[]);
    }

    let n = args.budget("sequences", 2_000, 500_000);
    let max_ops = args.budget("max_ops", 40, 40) as usize;
    let seed = args.seed;
    let run2 = run.clone();
    let base2 = base.clone();
    let base3 = base.clone();
    par_cases(
        n,
        args.jobs,
        STACK_64M,
        move |i| {
            let mut rng = Rng::for_case(seed, "C29", i);
            let ops = gen_ops(&mut rng, max_ops);
            let o = execute_in(&ops, &base2.join(format!("s{i}")), stale);
            (ops, o)
        },
        move |i, r| {
            run2.eval();
            match r {
                Err(p) => {
                    // the store API documents "never fails a build": a panic is reported, as inconclusive
                    // for this property (C29 is about values, not panics)
                    run2.inconclusive(format!("sequence {i} panicked at {}: {}", p.location, p.message));
                }
                Ok((ops, o)) => {
                    run2.count("sequences", 1);
                    run2.count("ops_total", ops.len() as i64);
                    for (k, v) in &o.ops_by_kind {
                        run2.count(&format!("op_{k}"), *v as i64);
                    }
                    run2.count("reopen_checks", o.reopen_checks as i64);
                    run2.count("reopen_checks_with_entries", o.reopen_checks_with_entries as i64);
                    run2.count("entries_compared", o.entries_compared as i64);
                    run2.count("blobs_compared", o.blobs_compared as i64);
                    run2.count("diag_blobs_compared", o.diag_blobs_compared as i64);
                    run2.count("absent_paths_compared", o.absent_paths_compared as i64);
                    run2.count("other_key_opens_checked_empty", o.other_key_opens_empty as i64);
                    run2.count("other_schema_opens_checked_empty", o.other_schema_opens_empty as i64);
                    run2.count("saves_written", o.saves_written as i64);
                    run2.count("saves_skipped_unchanged", o.saves_skipped_unchanged as i64);
                    run2.count("saves_skipped_unchanged_with_entries", o.saves_skipped_nonempty as i64);
                    run2.count("saves_empty_after_key_change", o.saves_empty_after_key_change as i64);
                    run2.count("post_save_blob_checks", o.post_save_blob_checks as i64);
                    run2.count("blobs_deleted_by_gc", o.blobs_deleted_by_gc as i64);
                    run2.count("saved_builds_sharing_a_blob", o.shared_blob_entries as i64);
                    run2.count("try_open_refused_while_held", o.try_open_refused_while_held as i64);
                    run2.count("try_open_granted_while_held", o.try_open_granted_while_held as i64);
                    for e in &o.harness_errors {
                        run2.inconclusive(format!("sequence {i}: {e}"));
                    }
                    let text = ops_json(&ops).to_string();
                    if o.saves_written > 0 && o.entries_compared > 0 {
                        run2.nontrivial(hash_str(&text));
                    }
                    if o.bad.is_empty() && o.saves_skipped_unchanged > 0 && o.other_key_opens_empty > 0 && ops.len() <= 24 {
                        run2.sample(json!({"sequence": i, "ops": ops_json(&ops), "reopen_checks": o.reopen_checks,
                            "entries_compared": o.entries_compared, "saves_written": o.saves_written, "saves_skipped": o.saves_skipped_unchanged}));
                    }
                    let mut seen = std::collections::HashSet::new();
                    for (sig, detail) in &o.bad {
                        run2.count("mismatches_observed", 1);
                        if !seen.insert(sig.clone()) {
                            continue;
                        }
                        let small = shrink(&ops, sig, &base3.join(format!("shrink{i}")), stale);
                        let so = execute_in(&small, &base3.join(format!("shrink{i}")), stale);
                        let d = so.bad.iter().find(|(s, _)| s == sig).map(|x| x.1.clone()).unwrap_or(detail.clone());
                        run2.violation(
                            sig,
                            &format!("{d} (sequence {i}, shrunk from {} to {} ops)", ops.len(), small.len()),
                            json!({"sequence": i, "ops": ops_json(&small), "original_ops": ops_json(&ops), "detail": d}),
                        );
                    }
                }
            }
        },
    );
    let _ = std::fs::remove_dir_all(&base);
    // floors: >= 3x below what the quick tier observes at every seed
    let q = |quick: i64| -> i64 { if n >= 2_000 { quick } else { 0 } };
    run.finish(&[
        ("sequences", (n as i64 * 9) / 10),
        ("ops_total", q(10_000)),
        ("op_put_blob", q(1_000)),
        ("op_keep", q(1_000)),
        ("op_invalidate", q(200)),
        ("op_set_dependents", q(300)),
        ("op_set_tests", q(150)),
        ("op_set_diagnostics", q(300)),
        ("op_save", q(1_000)),
        ("op_drop", q(300)),
        ("reopen_checks", q(2_000)),
        ("reopen_checks_with_entries", q(300)),
        ("entries_compared", q(500)),
        ("blobs_compared", q(300)),
        ("diag_blobs_compared", q(30)),
        ("other_key_opens_checked_empty", q(100)),
        ("other_schema_opens_checked_empty", q(10)),
        ("saves_skipped_unchanged", q(300)),
        ("saves_skipped_unchanged_with_entries", q(200)),
        ("saves_written", q(1_000)),
        ("post_save_blob_checks", q(1_000)),
        ("blobs_deleted_by_gc", q(300)),
        ("distinct_nontrivial", q(500)),
    ]);
}
