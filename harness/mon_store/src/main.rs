//! mon_store — monitors; dispatches on --prop.

mod c29;

use vcommon::Args;

fn main() {
    vcommon::pool::install_panic_hook();
    let args = Args::parse();
    match args.prop.as_str() {
        "C29" => c29::main(args),
        p => {
            eprintln!("mon_store: unknown property {p}");
            std::process::exit(2);
        }
    }
}
