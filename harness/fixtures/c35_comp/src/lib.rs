//! C35 fixture components.  The same source is (a) built as a cdylib and
//! dlopen'ed by the simulator and (b) `#[path]`-included into `mon_comp` and
//! registered in the simulator's in-process static registry, so both native
//! transports run literally the same component code through the real
//! `veryl_component::export` vtable glue.
//!
//! `C35_SABOTAGE` (env, read once per instance at `new`) is the sensitivity
//! switch used to prove the monitor fires; it is never set by a normal run.
//!   late       : the echo writes what it saw at the *previous* hook (its output
//!                becomes visible one edge late)
//!   drop_mask  : the echo clears the highest X/Z mask word before writing
//!   flip_bit   : the echo flips payload bit width-1
//!   stale_mask : c35_mix's scalar write keeps the X/Z mask of its previous write
//!                (emulates a write_u64 that does not clear the port's mask word)

use veryl_component::{
    BuildCtx, Component, ComponentKind, InputPort, OutputPort, Result, SimCtx, Value, bail,
    veryl_component_export,
};

fn sabotage() -> u32 {
    match std::env::var("C35_SABOTAGE").ok().as_deref() {
        Some("late") => 1,
        Some("drop_mask") => 2,
        Some("flip_bit") => 3,
        Some("stale_mask") => 4,
        _ => 0,
    }
}

fn bits(words: &[u64], mask: &[u64], width: u32) -> Value {
    Value::from_bits(
        words.iter().copied().collect(),
        mask.iter().copied().collect(),
        width,
    )
}

// ---------------------------------------------------------------------------
// Echo via the full Value path (payload + X/Z mask): q <= d
// ---------------------------------------------------------------------------
pub struct Echo {
    d: InputPort,
    q: OutputPort,
    sab: u32,
    prev: Option<(Vec<u64>, Vec<u64>)>,
}

impl Component for Echo {
    const KIND: ComponentKind = ComponentKind::Clocked;
    fn new(ctx: &mut BuildCtx) -> Result<Self> {
        ctx.clock("clk")?;
        Ok(Self {
            d: ctx.input("d")?,
            q: ctx.output("q")?,
            sab: sabotage(),
            prev: None,
        })
    }
    fn on_clock(&mut self, ctx: &mut SimCtx) -> Result<()> {
        let v = ctx.read(self.d);
        let Value::Bits {
            words,
            mask_xz,
            width,
        } = &v
        else {
            bail!("expected bits");
        };
        let mut w: Vec<u64> = words.to_vec();
        let mut m: Vec<u64> = mask_xz.to_vec();
        match self.sab {
            1 => {
                let now = (w.clone(), m.clone());
                if let Some((pw, pm)) = self.prev.take() {
                    w = pw;
                    m = pm;
                }
                self.prev = Some(now);
            }
            2 => {
                if let Some(l) = m.last_mut() {
                    *l = 0;
                }
            }
            3 => {
                let b = (*width - 1) as usize;
                w[b / 64] ^= 1u64 << (b % 64);
            }
            _ => {}
        }
        ctx.write(self.q, bits(&w, &m, *width));
        Ok(())
    }
}

// ---------------------------------------------------------------------------
// Echo with reset hook: on_reset q <= 0; on_clock q <= d
// ---------------------------------------------------------------------------
pub struct EchoRst {
    d: InputPort,
    q: OutputPort,
}

impl Component for EchoRst {
    const KIND: ComponentKind = ComponentKind::Clocked;
    fn new(ctx: &mut BuildCtx) -> Result<Self> {
        ctx.clock("clk")?;
        ctx.reset("rst")?;
        Ok(Self {
            d: ctx.input("d")?,
            q: ctx.output("q")?,
        })
    }
    fn on_reset(&mut self, ctx: &mut SimCtx) -> Result<()> {
        ctx.write(self.q, Value::from_u64(0, self.q.width()));
        Ok(())
    }
    fn on_clock(&mut self, ctx: &mut SimCtx) -> Result<()> {
        let v = ctx.read(self.d);
        ctx.write(self.q, v);
        Ok(())
    }
}

// ---------------------------------------------------------------------------
// Echo via the word fast path (read_words / write_words; drops X/Z by contract)
// ---------------------------------------------------------------------------
pub struct EchoWords {
    d: InputPort,
    q: OutputPort,
    buf: Vec<u64>,
}

impl Component for EchoWords {
    const KIND: ComponentKind = ComponentKind::Clocked;
    fn new(ctx: &mut BuildCtx) -> Result<Self> {
        ctx.clock("clk")?;
        let d = ctx.input("d")?;
        let q = ctx.output("q")?;
        Ok(Self {
            buf: vec![0; d.words().max(q.words())],
            d,
            q,
        })
    }
    fn on_clock(&mut self, ctx: &mut SimCtx) -> Result<()> {
        ctx.read_words(self.d, &mut self.buf);
        ctx.write_words(self.q, &self.buf);
        Ok(())
    }
}

// ---------------------------------------------------------------------------
// Echo via the scalar fast path (read_u64 / write_u64; <= 64 bits, drops X/Z)
// ---------------------------------------------------------------------------
pub struct EchoU64 {
    d: InputPort,
    q: OutputPort,
}

impl Component for EchoU64 {
    const KIND: ComponentKind = ComponentKind::Clocked;
    fn new(ctx: &mut BuildCtx) -> Result<Self> {
        ctx.clock("clk")?;
        let d = ctx.input("d")?;
        let q = ctx.output("q")?;
        if d.width() > 64 || q.width() > 64 {
            bail!("c35_echo_u64 needs <= 64-bit ports");
        }
        Ok(Self { d, q })
    }
    fn on_clock(&mut self, ctx: &mut SimCtx) -> Result<()> {
        let v = ctx.read_u64(self.d);
        ctx.write_u64(self.q, v);
        Ok(())
    }
}

// ---------------------------------------------------------------------------
// Recorder: remembers what it saw on `d` at every clock hook; zero-time
// methods hand the history back (payload and mask separately, because method
// returns are two-state by ABI contract).
// ---------------------------------------------------------------------------
pub struct Rec {
    d: InputPort,
    seen: Vec<(Vec<u64>, Vec<u64>, u64)>,
}

impl Component for Rec {
    const KIND: ComponentKind = ComponentKind::Clocked;
    fn new(ctx: &mut BuildCtx) -> Result<Self> {
        ctx.clock("clk")?;
        Ok(Self {
            d: ctx.input("d")?,
            seen: vec![],
        })
    }
    fn on_clock(&mut self, ctx: &mut SimCtx) -> Result<()> {
        let v = ctx.read(self.d);
        let Value::Bits { words, mask_xz, .. } = &v else {
            bail!("expected bits");
        };
        self.seen.push((words.to_vec(), mask_xz.to_vec(), ctx.cycle()));
        Ok(())
    }
    fn method(&mut self, name: &str, args: &[Value], _ctx: &mut SimCtx) -> Result<Value> {
        let idx = |args: &[Value]| -> Result<usize> {
            let i = args
                .first()
                .ok_or_else(|| veryl_component::anyhow!("missing index"))?
                .as_u64()? as usize;
            Ok(i)
        };
        match name {
            "count" => Ok(Value::from_u64(self.seen.len() as u64, 64)),
            "seen_words" => {
                let i = idx(args)?;
                let Some(e) = self.seen.get(i) else {
                    bail!("no record {i}")
                };
                Ok(bits(&e.0, &[], self.d.width()))
            }
            "seen_mask" => {
                let i = idx(args)?;
                let Some(e) = self.seen.get(i) else {
                    bail!("no record {i}")
                };
                Ok(bits(&e.1, &[], self.d.width()))
            }
            "seen_cycle" => {
                let i = idx(args)?;
                let Some(e) = self.seen.get(i) else {
                    bail!("no record {i}")
                };
                Ok(Value::from_u64(e.2, 64))
            }
            _ => bail!("unknown method: {name}"),
        }
    }
}

// ---------------------------------------------------------------------------
// Probe: parameters and method arguments / returns round trip.
// ---------------------------------------------------------------------------
pub struct Probe {
    p: Option<Value>,
    s: Option<String>,
}

impl Component for Probe {
    fn new(ctx: &mut BuildCtx) -> Result<Self> {
        let p = ctx.param("P").ok();
        let s = match ctx.param("S") {
            Ok(Value::Str(s)) => Some(s),
            _ => None,
        };
        Ok(Self { p, s })
    }
    fn on_clock(&mut self, _ctx: &mut SimCtx) -> Result<()> {
        Ok(())
    }
    fn method(&mut self, name: &str, args: &[Value], _ctx: &mut SimCtx) -> Result<Value> {
        match name {
            // the parameter exactly as it arrived
            "param" | "get_p" => match &self.p {
                Some(v @ Value::Bits { .. }) => Ok(v.clone()),
                _ => bail!("no bits parameter P"),
            },
            "param_width" => Ok(Value::from_u64(
                self.p.as_ref().map(|v| v.width() as u64).unwrap_or(u64::MAX),
                64,
            )),
            // FNV-1a of the string parameter, and its length
            "s_hash" => {
                let Some(s) = &self.s else {
                    bail!("no string parameter S")
                };
                Ok(Value::from_u64(fnv(s.as_bytes()), 64))
            }
            "s_len" => Ok(Value::from_u64(
                self.s.as_ref().map(|s| s.len() as u64).unwrap_or(u64::MAX),
                64,
            )),
            // argument 0 exactly as it arrived
            "echo" => match args.first() {
                Some(v @ Value::Bits { .. }) => Ok(v.clone()),
                _ => bail!("echo needs one bits argument"),
            },
            "width_of" => Ok(Value::from_u64(
                args.first().map(|v| v.width() as u64).unwrap_or(u64::MAX),
                64,
            )),
            "nargs" => Ok(Value::from_u64(args.len() as u64, 64)),
            // last argument exactly as it arrived (argument order / indexing)
            "last" => match args.last() {
                Some(v @ Value::Bits { .. }) => Ok(v.clone()),
                _ => bail!("last needs bits arguments"),
            },
            // bitwise xor of two equally wide arguments
            "xor" => {
                let (Some(Value::Bits { words: a, width, .. }), Some(Value::Bits { words: b, .. })) =
                    (args.first(), args.get(1))
                else {
                    bail!("xor needs two bits arguments")
                };
                let w: Vec<u64> = a.iter().zip(b.iter()).map(|(x, y)| x ^ y).collect();
                Ok(bits(&w, &[], *width))
            }
            "str_hash" => {
                let Some(Value::Str(s)) = args.first() else {
                    bail!("str_hash needs a string")
                };
                Ok(Value::from_u64(fnv(s.as_bytes()), 64))
            }
            "unit" => Ok(Value::unit()),
            _ => bail!("unknown method: {name}"),
        }
    }
}

// ---------------------------------------------------------------------------
// Mix: per clock hook, `sel` chooses which read API samples `d` and which write
// API drives `q` (the SAME ports over time):
//   sel[3:2] read : 0/3 ctx.read (payload + mask) | 1 ctx.read_words | 2 ctx.read_u64 (<= 64 bits, else read_words)
//   sel[1:0] write: 0 ctx.write(Value with the mask that was read) | 1 ctx.write_words
//                   | 2 ctx.write_u64 (<= 64 bits, else write_words) | 3 ctx.write(fully known Value)
// What it writes is therefore (payload of d, mask of d iff read==full && write==0).
// ---------------------------------------------------------------------------
pub struct Mix {
    d: InputPort,
    sel: InputPort,
    q: OutputPort,
    buf: Vec<u64>,
    sab: u32,
    last_mask: Vec<u64>,
}

impl Component for Mix {
    const KIND: ComponentKind = ComponentKind::Clocked;
    fn new(ctx: &mut BuildCtx) -> Result<Self> {
        ctx.clock("clk")?;
        let d = ctx.input("d")?;
        let sel = ctx.input("sel")?;
        let q = ctx.output("q")?;
        if d.width() != q.width() {
            bail!("c35_mix needs equally wide d and q");
        }
        Ok(Self {
            buf: vec![0; d.words()],
            sab: sabotage(),
            last_mask: vec![0; d.words()],
            d,
            sel,
            q,
        })
    }
    fn on_clock(&mut self, ctx: &mut SimCtx) -> Result<()> {
        let s = ctx.read_u64(self.sel);
        let (wmode, rmode) = (s & 3, (s >> 2) & 3);
        let w = self.d.width();
        let n = self.d.words();
        let (words, mask): (Vec<u64>, Vec<u64>) = match rmode {
            2 if w <= 64 => (vec![ctx.read_u64(self.d)], vec![0]),
            1 | 2 => {
                ctx.read_words(self.d, &mut self.buf);
                (self.buf.clone(), vec![0; n])
            }
            _ => {
                let v = ctx.read(self.d);
                let Value::Bits { words, mask_xz, .. } = &v else {
                    bail!("expected bits");
                };
                (words.to_vec(), mask_xz.to_vec())
            }
        };
        match wmode {
            0 => {
                self.last_mask = mask.clone();
                ctx.write(self.q, bits(&words, &mask, w))
            }
            2 if w <= 64 && self.sab == 4 => {
                let stale = self.last_mask.clone();
                ctx.write(self.q, bits(&words, &stale, w))
            }
            2 if w <= 64 => ctx.write_u64(self.q, words[0]),
            1 | 2 => ctx.write_words(self.q, &words),
            _ => ctx.write(self.q, bits(&words, &[], w)),
        }
        Ok(())
    }
}

// ---------------------------------------------------------------------------
// Init: drives its parameter P onto `q` in on_init (visible from the first settle).
// ---------------------------------------------------------------------------
pub struct Init {
    q: OutputPort,
    p: Value,
}

impl Component for Init {
    fn new(ctx: &mut BuildCtx) -> Result<Self> {
        Ok(Self {
            q: ctx.output("q")?,
            p: ctx.param("P")?,
        })
    }
    fn on_init(&mut self, ctx: &mut SimCtx) -> Result<()> {
        ctx.write(self.q, self.p.clone());
        Ok(())
    }
    fn on_clock(&mut self, _ctx: &mut SimCtx) -> Result<()> {
        Ok(())
    }
}

fn fnv(b: &[u8]) -> u64 {
    let mut h: u64 = 0xcbf2_9ce4_8422_2325;
    for c in b {
        h ^= *c as u64;
        h = h.wrapping_mul(0x0000_0100_0000_01b3);
    }
    h
}

veryl_component_export!(
    "c35_echo" => Echo,
    "c35_echo_rst" => EchoRst,
    "c35_echo_words" => EchoWords,
    "c35_echo_u64" => EchoU64,
    "c35_rec" => Rec,
    "c35_probe" => Probe,
    "c35_init" => Init,
    "c35_mix" => Mix,
);
