/* C35 fixture: the component logic of fixtures/c35_comp, written once in
 * freestanding C and exposed through BOTH component transports:
 *
 *   native  (cc -shared):            `veryl_component_lookup` + VrlComponentVTable
 *                                    (crates/component/sys/src/lib.rs)
 *   wasm32  (clang --target=wasm32): `veryl_component_*` exports + imports from the
 *                                    "veryl" module (crates/component/src/export/wasm.rs)
 *
 * The logic below the adapter layer is shared, so a difference between the two
 * builds observed by the monitor is a difference of the transports.
 *
 * Components (same names and behaviour as the Rust fixture):
 *   c35_echo        q <= d, payload and X/Z mask         (clocked: clk, d, q)
 *   c35_echo_rst    on_reset q <= 0; on_clock q <= d     (clocked: clk, rst, d, q)
 *   c35_echo_words  q <= d with NULL mask pointers (two-state fast path contract:
 *                   "a null mask_xz skips it" / "drives a fully two-state value")
 *   c35_echo_u64    same, <= 64 bits
 *   c35_rec         records d at every clock hook; methods count, seen_words(i),
 *                   seen_mask(i), seen_cycle(i)
 *   c35_init        drives its parameter P onto q in on_init
 *   c35_mix         per hook `sel` picks the read API for d and the write API for q
 *                   (full mask / NULL mask / scalar), on the same ports over time
 *   c35_probe       params P (bits) / S (string); methods param, param_width, s_hash,
 *                   s_len, echo, width_of, nargs, last, xor, str_hash, unit
 */

typedef unsigned char uint8_t;
typedef unsigned int uint32_t;
typedef int int32_t;
typedef unsigned long long uint64_t;
typedef long long int64_t;
typedef __SIZE_TYPE__ size_t;
#define NULL ((void *)0)

#define ABI_VERSION 1u
#define KIND_UNSPECIFIED 0u
#define KIND_CLOCKED 1u
#define DIR_INPUT 0u
#define DIR_OUTPUT 1u
#define DIR_CLOCK 2u
#define DIR_RESET 3u
#define VALUE_BITS 0u
#define VALUE_STRING 1u
#define VALUE_UNIT 2u

typedef struct {
    const uint8_t *ptr;
    size_t len;
} VrlStr;

typedef struct {
    uint32_t kind;
    uint32_t width;
    const uint64_t *words;
    size_t nwords;
    const uint64_t *mask_xz;
    VrlStr str_;
} VrlValue;

#ifdef __wasm__
_Static_assert(sizeof(VrlStr) == 8, "wasm32 VrlStr layout");
_Static_assert(sizeof(VrlValue) == 28, "wasm32 VrlValue layout");
#else
_Static_assert(sizeof(VrlStr) == 16, "native VrlStr layout");
_Static_assert(sizeof(VrlValue) == 48, "native VrlValue layout");
#endif

#define MAXW 8    /* words per value: 512 bits */
#define MAXREC 160 /* recorded hooks per instance */

enum { T_ECHO, T_ECHO_RST, T_ECHO_WORDS, T_ECHO_U64, T_REC, T_PROBE, T_INIT, T_MIX, T_COUNT };
static const char *const TYPE_NAMES[T_COUNT] = {"c35_echo",     "c35_echo_rst", "c35_echo_words",
                                                "c35_echo_u64", "c35_rec",      "c35_probe",
                                                "c35_init",     "c35_mix"};
__attribute__((unused)) static const uint32_t TYPE_KINDS[T_COUNT] = {KIND_CLOCKED, KIND_CLOCKED, KIND_CLOCKED,
                                             KIND_CLOCKED, KIND_CLOCKED, KIND_UNSPECIFIED,
                                             KIND_UNSPECIFIED, KIND_CLOCKED};

typedef struct Host Host;

typedef struct {
    int used;
    int type;
    uint32_t d, q, dw, qw;
    uint32_t sel;
    uint32_t nseen;
    uint64_t seen_w[MAXREC][MAXW];
    uint64_t seen_m[MAXREC][MAXW];
    uint64_t seen_c[MAXREC];
    int has_p;
    uint32_t p_width;
    uint64_t p_words[MAXW];
    int has_s;
    uint32_t s_len;
    uint64_t s_hash;
#ifndef __wasm__
    const void *api; /* native: the VrlHostApi given to create */
#endif
} Inst;

/* ---- adapter interface (implemented per transport below) ---------------- */
static int32_t h_port_index(Host *h, const char *name, uint32_t dir);
static uint32_t h_port_width(Host *h, uint32_t idx);
static void h_read_input(Host *h, uint32_t idx, uint64_t *words, uint64_t *mask);
static void h_write_output(Host *h, uint32_t idx, const uint64_t *words, const uint64_t *mask);
/* 0 = found; value words copied into buf (<= MAXW words) / string hashed */
static int h_param_bits(Host *h, const char *name, uint32_t *width, uint64_t *buf);
static int h_param_str(Host *h, const char *name, uint32_t *len, uint64_t *hash);
static void h_fail(Host *h, const char *msg);
static uint64_t h_cycle(Host *h);

/* ---- helpers ------------------------------------------------------------- */
static size_t slen(const char *s) {
    size_t n = 0;
    while (s[n]) n++;
    return n;
}
static int name_is(const uint8_t *p, size_t len, const char *s) {
    size_t n = slen(s);
    if (n != len) return 0;
    for (size_t i = 0; i < n; i++)
        if (p[i] != (uint8_t)s[i]) return 0;
    return 1;
}
static uint32_t words_for(uint32_t width) {
    uint32_t n = (width + 63u) / 64u;
    return n ? n : 1u;
}
static uint64_t top_mask(uint32_t width) {
    uint32_t r = width % 64u;
    if (width == 0) return 0;
    return r ? ((1ull << r) - 1ull) : ~0ull;
}
static uint64_t fnv(const uint8_t *p, size_t n) {
    uint64_t h = 0xcbf29ce484222325ull;
    for (size_t i = 0; i < n; i++) {
        h ^= (uint64_t)p[i];
        h *= 0x00000100000001b3ull;
    }
    return h;
}
/* normalise a boundary value the way veryl_component::Value::from_bits does:
 * exactly words_for(width) words, excess high bits cleared */
static void norm_words(uint64_t *out, const uint64_t *in, size_t nin, uint32_t width) {
    uint32_t n = words_for(width);
    for (uint32_t i = 0; i < MAXW; i++) out[i] = 0;
    for (uint32_t i = 0; i < n && i < MAXW; i++) out[i] = (in && i < nin) ? in[i] : 0;
    if (n <= MAXW) out[n - 1] &= top_mask(width);
}
/* resize to a port: zero-extend / truncate, clear excess high bits */
static void to_port(uint64_t *out, const uint64_t *in, uint32_t in_width, uint32_t port_width) {
    uint32_t ni = words_for(in_width), no = words_for(port_width);
    for (uint32_t i = 0; i < MAXW; i++) out[i] = 0;
    for (uint32_t i = 0; i < no && i < MAXW; i++) out[i] = i < ni ? in[i] : 0;
    if (no <= MAXW) out[no - 1] &= top_mask(port_width);
}

/* ---- shared component logic ------------------------------------------------ */
static int comp_create(Inst *c, Host *h) {
    int32_t i;
    c->nseen = 0;
    c->has_p = 0;
    c->has_s = 0;
    if (c->type == T_INIT) {
        i = h_port_index(h, "q", DIR_OUTPUT);
        if (i < 0) {
            h_fail(h, "no output port named `q`");
            return 1;
        }
        c->q = (uint32_t)i;
        c->qw = h_port_width(h, c->q);
        if (words_for(c->qw) > MAXW) {
            h_fail(h, "port too wide for the C fixture");
            return 1;
        }
        if (h_param_bits(h, "P", &c->p_width, c->p_words) != 0) {
            h_fail(h, "no parameter named `P`");
            return 1;
        }
        c->has_p = 1;
        return 0;
    }
    if (c->type != T_PROBE) {
        if (h_port_index(h, "clk", DIR_CLOCK) < 0) {
            h_fail(h, "no clock port named `clk`");
            return 1;
        }
        if (c->type == T_ECHO_RST && h_port_index(h, "rst", DIR_RESET) < 0) {
            h_fail(h, "no reset port named `rst`");
            return 1;
        }
        i = h_port_index(h, "d", DIR_INPUT);
        if (i < 0) {
            h_fail(h, "no input port named `d`");
            return 1;
        }
        c->d = (uint32_t)i;
        c->dw = h_port_width(h, c->d);
        if (c->type != T_REC) {
            i = h_port_index(h, "q", DIR_OUTPUT);
            if (i < 0) {
                h_fail(h, "no output port named `q`");
                return 1;
            }
            c->q = (uint32_t)i;
            c->qw = h_port_width(h, c->q);
        } else {
            c->qw = c->dw;
        }
        if (words_for(c->dw) > MAXW || words_for(c->qw) > MAXW) {
            h_fail(h, "port too wide for the C fixture");
            return 1;
        }
        if (c->type == T_MIX) {
            i = h_port_index(h, "sel", DIR_INPUT);
            if (i < 0) {
                h_fail(h, "no input port named `sel`");
                return 1;
            }
            c->sel = (uint32_t)i;
            if (c->dw != c->qw) {
                h_fail(h, "c35_mix needs equally wide d and q");
                return 1;
            }
        }
        if (c->type == T_ECHO_U64 && (c->dw > 64 || c->qw > 64)) {
            h_fail(h, "c35_echo_u64 needs <= 64-bit ports");
            return 1;
        }
    } else {
        if (h_param_bits(h, "P", &c->p_width, c->p_words) == 0) c->has_p = 1;
        if (h_param_str(h, "S", &c->s_len, &c->s_hash) == 0) c->has_s = 1;
    }
    return 0;
}

static int comp_on_init(Inst *c, Host *h) {
    if (c->type == T_INIT) {
        uint64_t w[MAXW], m[MAXW] = {0};
        to_port(w, c->p_words, c->p_width, c->qw);
        h_write_output(h, c->q, w, m);
    }
    return 0;
}

static int comp_on_reset(Inst *c, Host *h) {
    if (c->type == T_ECHO_RST) {
        uint64_t z[MAXW] = {0}, m[MAXW] = {0};
        h_write_output(h, c->q, z, m);
    }
    return 0;
}

static int comp_on_clock(Inst *c, Host *h) {
    uint64_t w[MAXW] = {0}, m[MAXW] = {0}, ow[MAXW], om[MAXW];
    switch (c->type) {
    case T_ECHO:
    case T_ECHO_RST:
        h_read_input(h, c->d, w, m);
        to_port(ow, w, c->dw, c->qw);
        to_port(om, m, c->dw, c->qw);
        h_write_output(h, c->q, ow, om);
        return 0;
    case T_ECHO_WORDS:
    case T_ECHO_U64:
        /* two-state fast path: NULL mask pointers, as SimCtx::read_words /
         * write_words / read_u64 / write_u64 pass them */
        h_read_input(h, c->d, w, NULL);
        to_port(ow, w, c->dw, c->qw);
        h_write_output(h, c->q, ow, NULL);
        return 0;
    case T_MIX: {
        uint64_t s[MAXW] = {0}, zero[MAXW] = {0};
        h_read_input(h, c->sel, s, NULL);
        uint32_t wmode = (uint32_t)(s[0] & 3u), rmode = (uint32_t)((s[0] >> 2) & 3u);
        if (rmode == 1 || rmode == 2)
            h_read_input(h, c->d, w, NULL); /* read_words / read_u64: NULL mask */
        else
            h_read_input(h, c->d, w, m);
        to_port(ow, w, c->dw, c->qw);
        to_port(om, m, c->dw, c->qw);
        if (wmode == 0)
            h_write_output(h, c->q, ow, om); /* write(Value with mask) */
        else if (wmode == 3)
            h_write_output(h, c->q, ow, zero); /* write(fully known Value) */
        else
            h_write_output(h, c->q, ow, NULL); /* write_words / write_u64 */
        return 0;
    }
    case T_REC:
        if (c->nseen >= MAXREC) {
            h_fail(h, "recorder full");
            return 1;
        }
        h_read_input(h, c->d, w, m);
        for (int i = 0; i < MAXW; i++) {
            c->seen_w[c->nseen][i] = w[i];
            c->seen_m[c->nseen][i] = m[i];
        }
        c->seen_c[c->nseen] = h_cycle(h);
        c->nseen++;
        return 0;
    default:
        return 0;
    }
}

static int ret_bits(Host *h, VrlValue *ret, const uint64_t *words, uint32_t width) {
    uint32_t n = words_for(width);
    if (n > ret->nwords || n > MAXW) {
        h_fail(h, "method return value exceeds the host buffer");
        return 1;
    }
    uint64_t *dst = (uint64_t *)ret->words; /* host-provided buffer */
    for (uint32_t i = 0; i < n; i++) dst[i] = words[i];
    if (ret->mask_xz) {
        uint64_t *md = (uint64_t *)ret->mask_xz;
        for (uint32_t i = 0; i < n; i++) md[i] = 0;
    }
    ret->kind = VALUE_BITS;
    ret->width = width;
    ret->nwords = n;
    return 0;
}
static int ret_u64(Host *h, VrlValue *ret, uint64_t v) {
    uint64_t w[MAXW] = {0};
    w[0] = v;
    return ret_bits(h, ret, w, 64);
}
static void ret_unit(VrlValue *ret) {
    ret->kind = VALUE_UNIT;
    ret->width = 0;
    ret->nwords = 0;
}
static int arg_u64(const VrlValue *a, size_t nargs, size_t i, uint64_t *out) {
    if (i >= nargs || a[i].kind != VALUE_BITS || a[i].width > 64) return 1;
    *out = (a[i].nwords && a[i].words) ? a[i].words[0] : 0;
    if (a[i].width < 64) *out &= top_mask(a[i].width);
    return 0;
}

static int comp_method(Inst *c, Host *h, const uint8_t *name, size_t nlen, const VrlValue *args,
                       size_t nargs, VrlValue *ret) {
    uint64_t tmp[MAXW];
    if (c->type == T_REC) {
        if (name_is(name, nlen, "count")) return ret_u64(h, ret, c->nseen);
        int which = name_is(name, nlen, "seen_words") ? 0
                    : name_is(name, nlen, "seen_mask") ? 1
                    : name_is(name, nlen, "seen_cycle") ? 2
                                                         : -1;
        if (which >= 0) {
            uint64_t i;
            if (arg_u64(args, nargs, 0, &i)) {
                h_fail(h, "missing index");
                return 1;
            }
            if (i >= c->nseen) {
                h_fail(h, "no record");
                return 1;
            }
            if (which == 2) return ret_u64(h, ret, c->seen_c[i]);
            norm_words(tmp, which == 0 ? c->seen_w[i] : c->seen_m[i], MAXW, c->dw);
            return ret_bits(h, ret, tmp, c->dw);
        }
    } else if (c->type == T_PROBE) {
        if (name_is(name, nlen, "param") || name_is(name, nlen, "get_p")) {
            if (!c->has_p) {
                h_fail(h, "no bits parameter P");
                return 1;
            }
            return ret_bits(h, ret, c->p_words, c->p_width);
        }
        if (name_is(name, nlen, "param_width")) return ret_u64(h, ret, c->has_p ? c->p_width : ~0ull);
        if (name_is(name, nlen, "s_hash")) {
            if (!c->has_s) {
                h_fail(h, "no string parameter S");
                return 1;
            }
            return ret_u64(h, ret, c->s_hash);
        }
        if (name_is(name, nlen, "s_len")) return ret_u64(h, ret, c->has_s ? c->s_len : ~0ull);
        if (name_is(name, nlen, "echo") || name_is(name, nlen, "last")) {
            size_t k = name_is(name, nlen, "echo") ? 0 : (nargs ? nargs - 1 : 0);
            if (nargs == 0 || args[k].kind != VALUE_BITS || words_for(args[k].width) > MAXW) {
                h_fail(h, "needs bits arguments");
                return 1;
            }
            norm_words(tmp, args[k].words, args[k].nwords, args[k].width);
            return ret_bits(h, ret, tmp, args[k].width);
        }
        if (name_is(name, nlen, "width_of"))
            return ret_u64(h, ret, (nargs && args[0].kind == VALUE_BITS) ? args[0].width : (nargs ? 0 : ~0ull));
        if (name_is(name, nlen, "nargs")) return ret_u64(h, ret, nargs);
        if (name_is(name, nlen, "xor")) {
            uint64_t a[MAXW], b[MAXW];
            if (nargs < 2 || args[0].kind != VALUE_BITS || args[1].kind != VALUE_BITS ||
                words_for(args[0].width) > MAXW || words_for(args[1].width) > MAXW) {
                h_fail(h, "xor needs two bits arguments");
                return 1;
            }
            norm_words(a, args[0].words, args[0].nwords, args[0].width);
            norm_words(b, args[1].words, args[1].nwords, args[1].width);
            uint32_t n = words_for(args[0].width), nb = words_for(args[1].width);
            for (uint32_t i = 0; i < MAXW; i++) tmp[i] = (i < n && i < nb) ? (a[i] ^ b[i]) : 0;
            /* the Rust fixture zips the two word vectors: min(n, nb) words, then
             * from_bits resizes to the first argument's width */
            norm_words(a, tmp, n < nb ? n : nb, args[0].width);
            return ret_bits(h, ret, a, args[0].width);
        }
        if (name_is(name, nlen, "str_hash")) {
            if (nargs < 1 || args[0].kind != VALUE_STRING) {
                h_fail(h, "str_hash needs a string");
                return 1;
            }
            return ret_u64(h, ret, fnv(args[0].str_.ptr, args[0].str_.len));
        }
        if (name_is(name, nlen, "unit")) {
            ret_unit(ret);
            return 0;
        }
    }
    h_fail(h, "unknown method");
    return 1;
}

static int type_of(const uint8_t *name, size_t len) {
    for (int t = 0; t < T_COUNT; t++)
        if (name_is(name, len, TYPE_NAMES[t])) return t;
    return -1;
}

#ifdef __wasm__
/* ======================================================================== */
/* wasm transport                                                           */
/* ======================================================================== */
#define IMPORT(n) __attribute__((import_module("veryl"), import_name(n)))
#define EXPORT(n) __attribute__((export_name(n)))

IMPORT("port_index") int32_t imp_port_index(const uint8_t *name, uint32_t len, uint32_t dir);
IMPORT("port_width") uint32_t imp_port_width(uint32_t idx);
IMPORT("read_input") void imp_read_input(uint32_t idx, uint64_t *words, uint64_t *mask);
IMPORT("write_output") void imp_write_output(uint32_t idx, const uint64_t *words, const uint64_t *mask);
IMPORT("param_get")
int64_t imp_param_get(const uint8_t *name, uint32_t len, VrlValue *out, uint8_t *buf, uint32_t cap);
IMPORT("fail") void imp_fail(const uint8_t *msg, uint32_t len);
IMPORT("cycle") uint64_t imp_cycle(void);

void *memset(void *d, int c, size_t n) {
    uint8_t *p = d;
    for (size_t i = 0; i < n; i++) p[i] = (uint8_t)c;
    return d;
}
void *memcpy(void *d, const void *s, size_t n) {
    uint8_t *p = d;
    const uint8_t *q = s;
    for (size_t i = 0; i < n; i++) p[i] = q[i];
    return d;
}

struct Host {
    int unused;
};
static Host THE_HOST;

static int32_t h_port_index(Host *h, const char *name, uint32_t dir) {
    (void)h;
    return imp_port_index((const uint8_t *)name, (uint32_t)slen(name), dir);
}
static uint32_t h_port_width(Host *h, uint32_t idx) {
    (void)h;
    return imp_port_width(idx);
}
static void h_read_input(Host *h, uint32_t idx, uint64_t *w, uint64_t *m) {
    (void)h;
    imp_read_input(idx, w, m);
}
static void h_write_output(Host *h, uint32_t idx, const uint64_t *w, const uint64_t *m) {
    (void)h;
    imp_write_output(idx, w, m);
}
static uint64_t PARAM_BUF[64]; /* 512 bytes payload buffer, u64-aligned */
static int h_param_bits(Host *h, const char *name, uint32_t *width, uint64_t *buf) {
    (void)h;
    VrlValue out;
    int64_t need = imp_param_get((const uint8_t *)name, (uint32_t)slen(name), &out, (uint8_t *)PARAM_BUF,
                                 (uint32_t)sizeof(PARAM_BUF));
    if (need < 0 || need > (int64_t)sizeof(PARAM_BUF)) return 1;
    if (out.kind != VALUE_BITS || words_for(out.width) > MAXW) return 1;
    norm_words(buf, out.words, out.nwords, out.width);
    *width = out.width;
    return 0;
}
static int h_param_str(Host *h, const char *name, uint32_t *len, uint64_t *hash) {
    (void)h;
    VrlValue out;
    int64_t need = imp_param_get((const uint8_t *)name, (uint32_t)slen(name), &out, (uint8_t *)PARAM_BUF,
                                 (uint32_t)sizeof(PARAM_BUF));
    if (need < 0 || need > (int64_t)sizeof(PARAM_BUF)) return 1;
    if (out.kind != VALUE_STRING) return 1;
    *len = (uint32_t)out.str_.len;
    *hash = fnv(out.str_.ptr, out.str_.len);
    return 0;
}
static void h_fail(Host *h, const char *msg) {
    (void)h;
    imp_fail((const uint8_t *)msg, (uint32_t)slen(msg));
}
static uint64_t h_cycle(Host *h) {
    (void)h;
    return imp_cycle();
}

#define NPOOL 2
static Inst POOL[NPOOL];

/* arena for host-requested buffers: reset when everything was freed again */
static uint64_t ARENA[8192]; /* 64 KiB */
static uint32_t arena_top, arena_live;

EXPORT("veryl_component_abi_version") uint32_t veryl_component_abi_version(void) { return ABI_VERSION; }

EXPORT("veryl_component_kind") uint32_t veryl_component_kind(const uint8_t *name, uint32_t len) {
    int t = type_of(name, len);
    return t < 0 ? 0xffffffffu : TYPE_KINDS[t];
}

EXPORT("veryl_component_create") uint32_t veryl_component_create(const uint8_t *name, uint32_t len) {
    int t = type_of(name, len);
    if (t < 0) return 0;
    for (uint32_t i = 0; i < NPOOL; i++) {
        if (!POOL[i].used) {
            POOL[i].used = 1;
            POOL[i].type = t;
            if (comp_create(&POOL[i], &THE_HOST)) {
                POOL[i].used = 0;
                return 0;
            }
            return i + 1;
        }
    }
    return 0;
}

EXPORT("veryl_component_destroy") void veryl_component_destroy(uint32_t handle) {
    if (handle >= 1 && handle <= NPOOL) POOL[handle - 1].used = 0;
}

EXPORT("veryl_component_on_init") int32_t veryl_component_on_init(uint32_t handle) {
    return comp_on_init(&POOL[handle - 1], &THE_HOST);
}
EXPORT("veryl_component_on_reset") int32_t veryl_component_on_reset(uint32_t handle) {
    return comp_on_reset(&POOL[handle - 1], &THE_HOST);
}
EXPORT("veryl_component_on_clock") int32_t veryl_component_on_clock(uint32_t handle) {
    return comp_on_clock(&POOL[handle - 1], &THE_HOST);
}
EXPORT("veryl_component_on_finish") int32_t veryl_component_on_finish(uint32_t handle) {
    (void)handle;
    return 0;
}
EXPORT("veryl_component_call_method")
int32_t veryl_component_call_method(uint32_t handle, const uint8_t *name, uint32_t nlen, const VrlValue *args,
                                    uint32_t nargs, VrlValue *ret) {
    return comp_method(&POOL[handle - 1], &THE_HOST, name, nlen, args, nargs, ret);
}

EXPORT("veryl_component_alloc") uint8_t *veryl_component_alloc(uint32_t size) {
    uint32_t n = (size + 7u) / 8u;
    if (n == 0) n = 1;
    if (arena_top + n > sizeof(ARENA) / 8u) return NULL;
    uint8_t *p = (uint8_t *)&ARENA[arena_top];
    arena_top += n;
    arena_live++;
    return p;
}
EXPORT("veryl_component_free") void veryl_component_free(uint8_t *ptr, uint32_t size) {
    (void)size;
    if (!ptr) return;
    if (arena_live) arena_live--;
    if (arena_live == 0) arena_top = 0;
}

#else
/* ======================================================================== */
/* native transport                                                         */
/* ======================================================================== */
void *malloc(size_t);
void free(void *);

typedef struct VrlCtx VrlCtx;
typedef struct {
    uint64_t *words;
    uint64_t *mask_xz;
    uint8_t *dirty;
} VrlPortDirect;

typedef struct {
    size_t size;
    int32_t (*port_index)(VrlCtx *, VrlStr name, uint32_t dir);
    uint32_t (*port_width)(VrlCtx *, uint32_t idx);
    void (*read_input)(VrlCtx *, uint32_t idx, uint64_t *words, uint64_t *mask_xz);
    void (*write_output)(VrlCtx *, uint32_t idx, const uint64_t *words, const uint64_t *mask_xz);
    int32_t (*param_get)(VrlCtx *, VrlStr name, VrlValue *out);
    void (*fail)(VrlCtx *, VrlStr msg);
    void (*finish)(VrlCtx *);
    void (*log)(VrlCtx *, VrlStr msg);
    uint64_t (*cycle)(VrlCtx *);
    uint64_t (*sim_time)(VrlCtx *);
    uint64_t (*seed)(VrlCtx *);
    uint32_t (*fired_clock)(VrlCtx *);
    void (*file_open)(void);
    void (*file_read)(void);
    void (*file_write)(void);
    void (*file_seek)(void);
    void (*file_close)(void);
    void (*trace_var)(void);
    void (*trace_write)(void);
    uint32_t (*is_4state)(VrlCtx *);
    uint32_t (*port_direct)(VrlCtx *, uint32_t idx, VrlPortDirect *out);
} VrlHostApi;

typedef struct {
    uint32_t abi_version;
    uint32_t kind;
    void *(*create)(VrlCtx *, const VrlHostApi *);
    void (*destroy)(void *);
    int32_t (*on_init)(void *, VrlCtx *);
    int32_t (*on_reset)(void *, VrlCtx *);
    int32_t (*on_clock)(void *, VrlCtx *);
    int32_t (*call_method)(void *, VrlCtx *, VrlStr name, const VrlValue *args, size_t nargs, VrlValue *ret);
    int32_t (*on_finish)(void *, VrlCtx *);
} VrlComponentVTable;

struct Host {
    VrlCtx *ctx;
    const VrlHostApi *api;
};

static VrlStr str_of(const char *s) {
    VrlStr r = {(const uint8_t *)s, slen(s)};
    return r;
}
static int32_t h_port_index(Host *h, const char *name, uint32_t dir) {
    return h->api->port_index(h->ctx, str_of(name), dir);
}
static uint32_t h_port_width(Host *h, uint32_t idx) { return h->api->port_width(h->ctx, idx); }
static void h_read_input(Host *h, uint32_t idx, uint64_t *w, uint64_t *m) { h->api->read_input(h->ctx, idx, w, m); }
static void h_write_output(Host *h, uint32_t idx, const uint64_t *w, const uint64_t *m) {
    h->api->write_output(h->ctx, idx, w, m);
}
static int h_param_bits(Host *h, const char *name, uint32_t *width, uint64_t *buf) {
    VrlValue out;
    if (h->api->param_get(h->ctx, str_of(name), &out) != 0) return 1;
    if (out.kind != VALUE_BITS || words_for(out.width) > MAXW) return 1;
    norm_words(buf, out.words, out.nwords, out.width);
    *width = out.width;
    return 0;
}
static int h_param_str(Host *h, const char *name, uint32_t *len, uint64_t *hash) {
    VrlValue out;
    if (h->api->param_get(h->ctx, str_of(name), &out) != 0) return 1;
    if (out.kind != VALUE_STRING) return 1;
    *len = (uint32_t)out.str_.len;
    *hash = fnv(out.str_.ptr, out.str_.len);
    return 0;
}
static void h_fail(Host *h, const char *msg) { h->api->fail(h->ctx, str_of(msg)); }
static uint64_t h_cycle(Host *h) { return h->api->cycle(h->ctx); }

static void *create_t(int type, VrlCtx *ctx, const VrlHostApi *api) {
    Inst *c = malloc(sizeof(Inst));
    if (!c) return NULL;
    c->used = 1;
    c->type = type;
    c->api = api;
    Host h = {ctx, api};
    if (comp_create(c, &h)) {
        free(c);
        return NULL;
    }
    return c;
}
#define CREATE_FN(T) \
    static void *create_##T(VrlCtx *ctx, const VrlHostApi *api) { return create_t(T, ctx, api); }
CREATE_FN(T_ECHO)
CREATE_FN(T_ECHO_RST)
CREATE_FN(T_ECHO_WORDS)
CREATE_FN(T_ECHO_U64)
CREATE_FN(T_REC)
CREATE_FN(T_PROBE)
CREATE_FN(T_INIT)
CREATE_FN(T_MIX)

static void n_destroy(void *s) { free(s); }
static int32_t n_nop(void *s, VrlCtx *ctx) {
    (void)s;
    (void)ctx;
    return 0;
}
static int32_t n_on_init(void *s, VrlCtx *ctx) {
    Inst *c = s;
    Host h = {ctx, c->api};
    return comp_on_init(c, &h);
}
static int32_t n_on_reset(void *s, VrlCtx *ctx) {
    Inst *c = s;
    Host h = {ctx, c->api};
    return comp_on_reset(c, &h);
}
static int32_t n_on_clock(void *s, VrlCtx *ctx) {
    Inst *c = s;
    Host h = {ctx, c->api};
    return comp_on_clock(c, &h);
}
static int32_t n_call_method(void *s, VrlCtx *ctx, VrlStr name, const VrlValue *args, size_t nargs,
                             VrlValue *ret) {
    Inst *c = s;
    Host h = {ctx, c->api};
    return comp_method(c, &h, name.ptr, name.len, args, nargs, ret);
}

#define VT(T, K) {ABI_VERSION, K, create_##T, n_destroy, n_on_init, n_on_reset, n_on_clock, n_call_method, n_nop}
static const VrlComponentVTable VTABLES[T_COUNT] = {
    VT(T_ECHO, KIND_CLOCKED), VT(T_ECHO_RST, KIND_CLOCKED), VT(T_ECHO_WORDS, KIND_CLOCKED),
    VT(T_ECHO_U64, KIND_CLOCKED), VT(T_REC, KIND_CLOCKED), VT(T_PROBE, KIND_UNSPECIFIED),
    VT(T_INIT, KIND_UNSPECIFIED), VT(T_MIX, KIND_CLOCKED),
};

__attribute__((visibility("default"))) const VrlComponentVTable *veryl_component_lookup(VrlStr name) {
    int t = type_of(name.ptr, name.len);
    return t < 0 ? NULL : &VTABLES[t];
}
#endif
