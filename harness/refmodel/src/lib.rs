//! refmodel
