//! refmodel — small, deliberately dumb reference models (the trusted base).
//!
//! * [`bv4`] — IEEE 1800-2017 §11 four-state bit-vector algebra.

pub mod bv4;
