//! bv4 — a deliberately dumb IEEE 1800-2017 §11 four-state bit-vector algebra.
//!
//! Trusted base of the operator monitors (C17/C18/C36) and of svref.  It is
//! independent of `num-bigint` and of every line of veryl: a value is a
//! `Vec<u8>` of digits, LSB first, digit 0, 1, [`X`] (=2) or [`Z`] (=3); every
//! operator is implemented bit-serially (ripple-carry add, shift-and-add
//! multiply, restoring shift-subtract divide, square-and-multiply power).
//! Slow and obviously right.
//!
//! # Veryl's `(payload, mask_xz)` encoding (crates/analyzer/src/value.rs)
//!
//! | digit | payload bit | mask_xz bit |
//! |-------|-------------|-------------|
//! | 0     | 0           | 0           |
//! | 1     | 1           | 0           |
//! | X     | 0           | 1           |
//! | Z     | 1           | 1           |
//!
//! (`ValueU64::new_x` = payload 0 / mask all-ones, `new_z` = payload all-ones /
//! mask all-ones; `to_vcd_value`: mask&payload → Z, mask&!payload → X.)
//! [`Bv::from_words`] / [`Bv::to_words`] convert from/to that encoding with
//! little-endian u64 words.
//!
//! # Layers
//!
//! 1. *Self-determined primitives* on `Bv` (`add`, `shl`, `lt`, …): the caller
//!    has already sized the operands (equal widths where the operator is
//!    context-determined).  Arithmetic/relational signedness is
//!    `self.signed && rhs.signed`.
//! 2. [`eval_unary`] / [`eval_binary`]: one operator with IEEE §11.6/§11.8
//!    sizing of its operands and an optional context width.
//! 3. [`Expr`] + [`eval_expr`]: whole expression trees with the two-pass
//!    §11.6/§11.8.2 algorithm (self-determined type bottom-up, propagated type
//!    top-down, leaves extended by the propagated signedness).
//!
//! # Choices where the standard leaves room (all documented at the function)
//!
//! * `eq`/`ne`/`wild_eq`/`wild_ne` are *strict*: any X/Z in a compared position
//!   gives X.  IEEE §11.4.5 says "if the relation is ambiguous the result is
//!   x", which lets a definite mismatch in another bit decide 0; that reading
//!   is available as `eq_ambig`/`ne_ambig`/`wild_eq_ambig`/`wild_ne_ambig`.
//!   A monitor that must not raise false alarms accepts either.
//! * Bits that are merely *moved* (shifts, select, concat, sign extension,
//!   `cond` with a known selector) keep Z; bits that are *computed* turn Z
//!   into X.
//! * `self_test()` must be called by monitors at start; a failure makes the
//!   run inconclusive, never a violation.

use vcommon::Rng;

pub const X: u8 = 2;
pub const Z: u8 = 3;

/// 4-state bit vector. `bits[0]` is the LSB; `bits.len() >= 1`.
#[derive(Clone, PartialEq, Eq, Hash, Debug)]
pub struct Bv {
    pub bits: Vec<u8>,
    pub signed: bool,
}

fn known(d: u8) -> bool {
    d < 2
}

// ---------------------------------------------------------------- bit helpers (known 0/1 digits only)

fn add_bits(a: &[u8], b: &[u8], mut carry: u8) -> Vec<u8> {
    debug_assert_eq!(a.len(), b.len());
    let mut out = Vec::with_capacity(a.len());
    for i in 0..a.len() {
        let s = a[i] + b[i] + carry;
        out.push(s & 1);
        carry = s >> 1;
    }
    out
}

fn not_bits(a: &[u8]) -> Vec<u8> {
    a.iter().map(|d| 1 - d).collect()
}

fn neg_bits(a: &[u8]) -> Vec<u8> {
    let zero = vec![0u8; a.len()];
    add_bits(&not_bits(a), &zero, 1)
}

fn sub_bits(a: &[u8], b: &[u8]) -> Vec<u8> {
    add_bits(a, &not_bits(b), 1)
}

/// unsigned compare: -1, 0, 1
fn ucmp_bits(a: &[u8], b: &[u8]) -> i32 {
    debug_assert_eq!(a.len(), b.len());
    for i in (0..a.len()).rev() {
        if a[i] != b[i] {
            return if a[i] > b[i] { 1 } else { -1 };
        }
    }
    0
}

fn is_zero_bits(a: &[u8]) -> bool {
    a.iter().all(|d| *d == 0)
}

fn mul_bits(a: &[u8], b: &[u8]) -> Vec<u8> {
    let w = a.len();
    let mut acc = vec![0u8; w];
    for i in 0..w {
        if b[i] == 1 {
            // a << i, truncated to w
            let mut sh = vec![0u8; w];
            for j in i..w {
                sh[j] = a[j - i];
            }
            acc = add_bits(&acc, &sh, 0);
        }
    }
    acc
}

/// Restoring division of unsigned numbers; `b` must be non-zero.
fn udivrem_bits(a: &[u8], b: &[u8]) -> (Vec<u8>, Vec<u8>) {
    let w = a.len();
    let mut q = vec![0u8; w];
    // remainder kept one bit wider so the shift cannot overflow
    let mut rem = vec![0u8; w + 1];
    let mut bw = b.to_vec();
    bw.push(0);
    for i in (0..w).rev() {
        // rem = (rem << 1) | a[i]
        for j in (1..=w).rev() {
            rem[j] = rem[j - 1];
        }
        rem[0] = a[i];
        if ucmp_bits(&rem, &bw) >= 0 {
            rem = sub_bits(&rem, &bw);
            q[i] = 1;
        }
    }
    rem.truncate(w);
    (q, rem)
}

impl Bv {
    // ------------------------------------------------------------ construction

    pub fn new(bits: Vec<u8>, signed: bool) -> Bv {
        assert!(!bits.is_empty(), "bv4: width must be >= 1");
        assert!(bits.iter().all(|d| *d <= 3), "bv4: digit out of range");
        Bv { bits, signed }
    }

    /// Low `width` bits of `v` (bits above 63 are 0).
    pub fn from_u64(v: u64, width: usize, signed: bool) -> Bv {
        assert!(width >= 1);
        let bits = (0..width).map(|i| if i < 64 { ((v >> i) & 1) as u8 } else { 0 }).collect();
        Bv { bits, signed }
    }

    /// Low `width` bits of `v`.
    pub fn from_u128(v: u128, width: usize, signed: bool) -> Bv {
        assert!(width >= 1);
        let bits = (0..width).map(|i| if i < 128 { ((v >> i) & 1) as u8 } else { 0 }).collect();
        Bv { bits, signed }
    }

    /// Two's complement of `v` at `width` bits; result is marked signed.
    pub fn from_i128(v: i128, width: usize) -> Bv {
        assert!(width >= 1);
        let bits = (0..width).map(|i| if i < 128 { ((v >> i) & 1) as u8 } else { (v < 0) as u8 }).collect();
        Bv { bits, signed: true }
    }

    /// From veryl's encoding (see module doc): little-endian u64 words; missing words are 0.
    pub fn from_words(payload: &[u64], xz: &[u64], width: usize, signed: bool) -> Bv {
        assert!(width >= 1);
        let get = |w: &[u64], i: usize| -> u8 { w.get(i / 64).map(|x| ((x >> (i % 64)) & 1) as u8).unwrap_or(0) };
        let bits = (0..width)
            .map(|i| match (get(xz, i), get(payload, i)) {
                (0, p) => p,
                (_, 0) => X,
                _ => Z,
            })
            .collect();
        Bv { bits, signed }
    }

    /// To veryl's encoding: `(payload, mask_xz)`, each `ceil(width/64)` little-endian words.
    pub fn to_words(&self) -> (Vec<u64>, Vec<u64>) {
        let n = self.width().div_ceil(64);
        let mut p = vec![0u64; n];
        let mut m = vec![0u64; n];
        for (i, d) in self.bits.iter().enumerate() {
            let (pb, mb) = match *d {
                0 => (0, 0),
                1 => (1, 0),
                X => (0, 1),
                _ => (1, 1),
            };
            p[i / 64] |= pb << (i % 64);
            m[i / 64] |= mb << (i % 64);
        }
        (p, m)
    }

    /// MSB-first digit string, `_` ignored, digits `0 1 x X z Z`; unsigned.
    pub fn from_bitstr(s: &str) -> Bv {
        let mut bits = vec![];
        for c in s.chars().rev() {
            match c {
                '0' => bits.push(0),
                '1' => bits.push(1),
                'x' | 'X' => bits.push(X),
                'z' | 'Z' => bits.push(Z),
                '_' => {}
                _ => panic!("bv4: bad digit {c:?}"),
            }
        }
        Bv::new(bits, false)
    }

    /// Like `from_bitstr` but marked signed.
    pub fn from_bitstr_signed(s: &str) -> Bv {
        Bv::from_bitstr(s).as_signed(true)
    }

    /// MSB-first digit string.
    pub fn to_bitstr(&self) -> String {
        self.bits
            .iter()
            .rev()
            .map(|d| match *d {
                0 => '0',
                1 => '1',
                X => 'x',
                _ => 'z',
            })
            .collect()
    }

    pub fn fill(d: u8, width: usize, signed: bool) -> Bv {
        assert!(width >= 1);
        Bv { bits: vec![d; width], signed }
    }
    pub fn zeros(width: usize, signed: bool) -> Bv {
        Bv::fill(0, width, signed)
    }
    pub fn ones(width: usize, signed: bool) -> Bv {
        Bv::fill(1, width, signed)
    }
    pub fn xs(width: usize, signed: bool) -> Bv {
        Bv::fill(X, width, signed)
    }
    pub fn zs(width: usize, signed: bool) -> Bv {
        Bv::fill(Z, width, signed)
    }

    // ------------------------------------------------------------ observers

    pub fn width(&self) -> usize {
        self.bits.len()
    }
    pub fn has_xz(&self) -> bool {
        self.bits.iter().any(|d| !known(*d))
    }
    pub fn msb(&self) -> u8 {
        *self.bits.last().unwrap()
    }
    pub fn bit(&self, i: usize) -> u8 {
        self.bits.get(i).copied().unwrap_or(X)
    }
    /// `None` when a bit is X/Z or a set bit lies above bit 63.
    pub fn to_u64(&self) -> Option<u64> {
        let v = self.to_u128()?;
        u64::try_from(v).ok()
    }
    /// `None` when a bit is X/Z or a set bit lies above bit 127.
    pub fn to_u128(&self) -> Option<u128> {
        let mut v = 0u128;
        for (i, d) in self.bits.iter().enumerate() {
            match *d {
                0 => {}
                1 if i < 128 => v |= 1u128 << i,
                _ => return None,
            }
        }
        Some(v)
    }
    /// Two's-complement reading at the value's own width (width <= 128, no X/Z).
    pub fn to_i128(&self) -> Option<i128> {
        if self.width() > 128 {
            return None;
        }
        let u = self.to_u128()?;
        let w = self.width();
        if w < 128 && self.msb() == 1 { Some((u | (!0u128 << w)) as i128) } else { Some(u as i128) }
    }
    /// Same digits, different signedness flag.
    pub fn as_signed(&self, signed: bool) -> Bv {
        Bv { bits: self.bits.clone(), signed }
    }

    /// Truncate to `width`, or extend: replicate the MSB digit (0, 1, X or Z)
    /// when `self.signed`, else pad with 0.  Signedness flag is kept.
    pub fn resize(&self, width: usize) -> Bv {
        assert!(width >= 1);
        let mut bits = self.bits.clone();
        if width <= bits.len() {
            bits.truncate(width);
        } else {
            let fill = if self.signed { self.msb() } else { 0 };
            bits.resize(width, fill);
        }
        Bv { bits, signed: self.signed }
    }

    fn same_width(&self, o: &Bv, what: &str) {
        assert_eq!(self.width(), o.width(), "bv4::{what}: operands must be sized by the caller");
    }

    // ------------------------------------------------------------ bitwise (§11.4.8 tables)

    /// `~`: 0→1, 1→0, X/Z→X.
    pub fn not(&self) -> Bv {
        Bv { bits: self.bits.iter().map(|d| if known(*d) { 1 - d } else { X }).collect(), signed: self.signed }
    }
    fn bitwise(&self, o: &Bv, what: &str, f: fn(u8, u8) -> u8) -> Bv {
        self.same_width(o, what);
        Bv { bits: self.bits.iter().zip(&o.bits).map(|(a, b)| f(*a, *b)).collect(), signed: self.signed && o.signed }
    }
    pub fn and(&self, o: &Bv) -> Bv {
        self.bitwise(o, "and", |a, b| if a == 0 || b == 0 { 0 } else if a == 1 && b == 1 { 1 } else { X })
    }
    pub fn or(&self, o: &Bv) -> Bv {
        self.bitwise(o, "or", |a, b| if a == 1 || b == 1 { 1 } else if a == 0 && b == 0 { 0 } else { X })
    }
    pub fn xor(&self, o: &Bv) -> Bv {
        self.bitwise(o, "xor", |a, b| if known(a) && known(b) { a ^ b } else { X })
    }
    pub fn xnor(&self, o: &Bv) -> Bv {
        self.bitwise(o, "xnor", |a, b| if known(a) && known(b) { 1 - (a ^ b) } else { X })
    }

    // ------------------------------------------------------------ arithmetic (§11.4.2, §11.4.3)

    fn arith(&self, o: &Bv, what: &str, f: impl Fn(&[u8], &[u8], bool) -> Option<Vec<u8>>) -> Bv {
        self.same_width(o, what);
        let signed = self.signed && o.signed;
        if self.has_xz() || o.has_xz() {
            return Bv::xs(self.width(), signed);
        }
        match f(&self.bits, &o.bits, signed) {
            Some(bits) => Bv { bits, signed },
            None => Bv::xs(self.width(), signed),
        }
    }
    /// Unary minus (two's complement); any X/Z → all X.
    pub fn neg(&self) -> Bv {
        if self.has_xz() {
            return Bv::xs(self.width(), self.signed);
        }
        Bv { bits: neg_bits(&self.bits), signed: self.signed }
    }
    pub fn add(&self, o: &Bv) -> Bv {
        self.arith(o, "add", |a, b, _| Some(add_bits(a, b, 0)))
    }
    pub fn sub(&self, o: &Bv) -> Bv {
        self.arith(o, "sub", |a, b, _| Some(sub_bits(a, b)))
    }
    pub fn mul(&self, o: &Bv) -> Bv {
        self.arith(o, "mul", |a, b, _| Some(mul_bits(a, b)))
    }
    /// `/`: divisor 0 → all X; signed (both operands signed) truncates toward zero;
    /// most-negative / -1 wraps to most-negative.
    pub fn div(&self, o: &Bv) -> Bv {
        self.arith(o, "div", |a, b, signed| {
            if is_zero_bits(b) {
                return None;
            }
            if !signed {
                return Some(udivrem_bits(a, b).0);
            }
            let (na, nb) = (*a.last().unwrap() == 1, *b.last().unwrap() == 1);
            let ma = if na { neg_bits(a) } else { a.to_vec() };
            let mb = if nb { neg_bits(b) } else { b.to_vec() };
            let q = udivrem_bits(&ma, &mb).0;
            Some(if na != nb { neg_bits(&q) } else { q })
        })
    }
    /// `%`: divisor 0 → all X; signed remainder takes the sign of the dividend.
    pub fn rem(&self, o: &Bv) -> Bv {
        self.arith(o, "rem", |a, b, signed| {
            if is_zero_bits(b) {
                return None;
            }
            if !signed {
                return Some(udivrem_bits(a, b).1);
            }
            let (na, nb) = (*a.last().unwrap() == 1, *b.last().unwrap() == 1);
            let ma = if na { neg_bits(a) } else { a.to_vec() };
            let mb = if nb { neg_bits(b) } else { b.to_vec() };
            let r = udivrem_bits(&ma, &mb).1;
            Some(if na { neg_bits(&r) } else { r })
        })
    }
    /// `**` (§11.4.3, Table 11-4).  `self` is the base (already at the result
    /// width; read as signed iff `self.signed`), `e` the self-determined
    /// exponent of any width (negative iff `e.signed` and its MSB is 1).
    /// Any X/Z → all X; exponent 0 → 1; negative exponent: base 0 → X, 1 → 1,
    /// -1 → ±1 by exponent parity, anything else → 0.  Result modulo 2^width.
    pub fn pow(&self, e: &Bv) -> Bv {
        let w = self.width();
        let signed = self.signed;
        if self.has_xz() || e.has_xz() {
            return Bv::xs(w, signed);
        }
        let mut one = vec![0u8; w];
        one[0] = 1;
        let e_neg = e.signed && e.msb() == 1;
        if e_neg {
            let base_is_zero = is_zero_bits(&self.bits);
            let base_is_one = self.bits == one;
            let base_is_m1 = signed && self.bits.iter().all(|d| *d == 1);
            // a 1-bit signed value 1'sb1 is -1, not 1
            if base_is_zero {
                return Bv::xs(w, signed);
            }
            if base_is_m1 {
                return if e.bits[0] == 1 { Bv::ones(w, signed) } else { Bv { bits: one, signed } };
            }
            if base_is_one {
                return Bv { bits: one, signed };
            }
            return Bv::zeros(w, signed);
        }
        // square-and-multiply from the exponent's MSB; two's-complement
        // multiplication modulo 2^w is sign-agnostic
        let mut acc = one;
        let top = e.bits.iter().rposition(|d| *d == 1);
        if let Some(top) = top {
            for i in (0..=top).rev() {
                acc = mul_bits(&acc, &acc);
                if e.bits[i] == 1 {
                    acc = mul_bits(&acc, &self.bits);
                }
            }
        }
        Bv { bits: acc, signed }
    }

    // ------------------------------------------------------------ shifts (§11.4.10)

    /// Shift amount as an unsigned number: `None` = X/Z present, `Some(n)` capped at `cap`.
    fn amount(a: &Bv, cap: usize) -> Option<usize> {
        if a.has_xz() {
            return None;
        }
        let mut n: usize = 0;
        for (i, d) in a.bits.iter().enumerate() {
            if *d == 1 {
                if i >= 40 {
                    return Some(cap);
                }
                n += 1usize << i;
            }
        }
        Some(n.min(cap))
    }
    /// `<<` / `<<<`: vacated bits 0; X/Z in the amount → all X; amount >= width → 0.
    pub fn shl(&self, amt: &Bv) -> Bv {
        let w = self.width();
        let Some(n) = Bv::amount(amt, w) else { return Bv::xs(w, self.signed) };
        let mut bits = vec![0u8; w];
        for i in n..w {
            bits[i] = self.bits[i - n];
        }
        Bv { bits, signed: self.signed }
    }
    fn shr_fill(&self, amt: &Bv, fill: u8) -> Bv {
        let w = self.width();
        let Some(n) = Bv::amount(amt, w) else { return Bv::xs(w, self.signed) };
        let mut bits = vec![fill; w];
        for i in 0..w - n {
            bits[i] = self.bits[i + n];
        }
        Bv { bits, signed: self.signed }
    }
    /// `>>`: vacated bits 0.
    pub fn shr(&self, amt: &Bv) -> Bv {
        self.shr_fill(amt, 0)
    }
    /// `>>>`: vacated bits = MSB digit when `self.signed`, else 0.
    pub fn ashr(&self, amt: &Bv) -> Bv {
        self.shr_fill(amt, if self.signed { self.msb() } else { 0 })
    }

    // ------------------------------------------------------------ reductions (§11.4.9) → 1-bit unsigned

    fn bit1(d: u8) -> Bv {
        Bv { bits: vec![d], signed: false }
    }
    fn inv1(b: Bv) -> Bv {
        Bv::bit1(if known(b.bits[0]) { 1 - b.bits[0] } else { X })
    }
    pub fn red_and(&self) -> Bv {
        Bv::bit1(if self.bits.iter().any(|d| *d == 0) { 0 } else if self.has_xz() { X } else { 1 })
    }
    pub fn red_or(&self) -> Bv {
        Bv::bit1(if self.bits.iter().any(|d| *d == 1) { 1 } else if self.has_xz() { X } else { 0 })
    }
    pub fn red_xor(&self) -> Bv {
        Bv::bit1(if self.has_xz() { X } else { self.bits.iter().fold(0, |a, d| a ^ d) })
    }
    pub fn red_nand(&self) -> Bv {
        Bv::inv1(self.red_and())
    }
    pub fn red_nor(&self) -> Bv {
        Bv::inv1(self.red_or())
    }
    pub fn red_xnor(&self) -> Bv {
        Bv::inv1(self.red_xor())
    }

    // ------------------------------------------------------------ logical (§11.4.7), 3-valued → 1-bit unsigned

    /// Truth value: 1 if some bit is 1, 0 if all bits are 0, else X.
    pub fn truth(&self) -> u8 {
        self.red_or().bits[0]
    }
    pub fn logic_not(&self) -> Bv {
        Bv::inv1(self.red_or())
    }
    /// `&&`: 0 if either is false, 1 if both true, else X (so `0 && x` = 0).
    pub fn logic_and(&self, o: &Bv) -> Bv {
        let (a, b) = (self.truth(), o.truth());
        Bv::bit1(if a == 0 || b == 0 { 0 } else if a == 1 && b == 1 { 1 } else { X })
    }
    /// `||`: 1 if either is true, 0 if both false, else X (so `1 || x` = 1).
    pub fn logic_or(&self, o: &Bv) -> Bv {
        let (a, b) = (self.truth(), o.truth());
        Bv::bit1(if a == 1 || b == 1 { 1 } else if a == 0 && b == 0 { 0 } else { X })
    }

    // ------------------------------------------------------------ relational (§11.4.4): any X/Z → X

    fn cmp(&self, o: &Bv, what: &str) -> Option<i32> {
        self.same_width(o, what);
        if self.has_xz() || o.has_xz() {
            return None;
        }
        if self.signed && o.signed {
            // flip the sign bit, then compare unsigned
            let mut a = self.bits.clone();
            let mut b = o.bits.clone();
            let m = a.len() - 1;
            a[m] ^= 1;
            b[m] ^= 1;
            Some(ucmp_bits(&a, &b))
        } else {
            Some(ucmp_bits(&self.bits, &o.bits))
        }
    }
    fn rel(&self, o: &Bv, what: &str, f: fn(i32) -> bool) -> Bv {
        Bv::bit1(match self.cmp(o, what) {
            None => X,
            Some(c) => f(c) as u8,
        })
    }
    pub fn lt(&self, o: &Bv) -> Bv {
        self.rel(o, "lt", |c| c < 0)
    }
    pub fn le(&self, o: &Bv) -> Bv {
        self.rel(o, "le", |c| c <= 0)
    }
    pub fn gt(&self, o: &Bv) -> Bv {
        self.rel(o, "gt", |c| c > 0)
    }
    pub fn ge(&self, o: &Bv) -> Bv {
        self.rel(o, "ge", |c| c >= 0)
    }

    // ------------------------------------------------------------ equality (§11.4.5, §11.4.6)

    /// (some position where both are known and differ, some compared position with X/Z)
    fn eq_scan(&self, o: &Bv, what: &str, wild_right: bool) -> (bool, bool) {
        self.same_width(o, what);
        let mut definite_diff = false;
        let mut unknown = false;
        for (a, b) in self.bits.iter().zip(&o.bits) {
            if wild_right && !known(*b) {
                continue;
            }
            if known(*a) && known(*b) {
                if a != b {
                    definite_diff = true;
                }
            } else {
                unknown = true;
            }
        }
        (definite_diff, unknown)
    }
    /// `==`, strict: X if either operand has an X/Z bit.
    pub fn eq(&self, o: &Bv) -> Bv {
        let (d, u) = self.eq_scan(o, "eq", false);
        Bv::bit1(if u { X } else { !d as u8 })
    }
    pub fn ne(&self, o: &Bv) -> Bv {
        Bv::inv1(self.eq(o))
    }
    /// `==` in the "ambiguous" reading of §11.4.5: 0 if some bit position has two
    /// known, different digits; else X if any X/Z; else 1.
    pub fn eq_ambig(&self, o: &Bv) -> Bv {
        let (d, u) = self.eq_scan(o, "eq_ambig", false);
        Bv::bit1(if d { 0 } else if u { X } else { 1 })
    }
    pub fn ne_ambig(&self, o: &Bv) -> Bv {
        Bv::inv1(self.eq_ambig(o))
    }
    /// `===`: digits identical (X matches X, Z matches Z); never X.
    pub fn case_eq(&self, o: &Bv) -> Bv {
        self.same_width(o, "case_eq");
        Bv::bit1((self.bits == o.bits) as u8)
    }
    pub fn case_ne(&self, o: &Bv) -> Bv {
        Bv::inv1(self.case_eq(o))
    }
    /// `==?`, strict: X/Z in the RIGHT operand are wildcards; an X/Z in the left
    /// operand at a non-wildcard position → X.
    pub fn wild_eq(&self, o: &Bv) -> Bv {
        let (d, u) = self.eq_scan(o, "wild_eq", true);
        Bv::bit1(if u { X } else { !d as u8 })
    }
    pub fn wild_ne(&self, o: &Bv) -> Bv {
        Bv::inv1(self.wild_eq(o))
    }
    /// `==?` where a definite mismatch at a non-wildcard position decides 0 even if
    /// another compared left bit is X/Z ("compared as for logical equality").
    pub fn wild_eq_ambig(&self, o: &Bv) -> Bv {
        let (d, u) = self.eq_scan(o, "wild_eq_ambig", true);
        Bv::bit1(if d { 0 } else if u { X } else { 1 })
    }
    pub fn wild_ne_ambig(&self, o: &Bv) -> Bv {
        Bv::inv1(self.wild_eq_ambig(o))
    }

    // ------------------------------------------------------------ conditional (§11.4.11)

    /// `sel ? a : b` with `a`, `b` already sized alike.  `sel` true → a, false → b,
    /// unknown → bitwise merge: equal known digits kept, everything else X.
    pub fn cond(sel: &Bv, a: &Bv, b: &Bv) -> Bv {
        a.same_width(b, "cond");
        let signed = a.signed && b.signed;
        match sel.truth() {
            1 => a.as_signed(signed),
            0 => b.as_signed(signed),
            _ => Bv {
                bits: a.bits.iter().zip(&b.bits).map(|(x, y)| if x == y && known(*x) { *x } else { X }).collect(),
                signed,
            },
        }
    }

    // ------------------------------------------------------------ structure (§11.4.12, §11.5.1)

    /// `{p[0], p[1], …}`: first part is the most significant; unsigned.
    pub fn concat(parts: &[Bv]) -> Bv {
        assert!(!parts.is_empty(), "bv4::concat: no parts");
        let mut bits = vec![];
        for p in parts.iter().rev() {
            bits.extend_from_slice(&p.bits);
        }
        Bv { bits, signed: false }
    }
    /// `{n{self}}`, n >= 1; unsigned.
    pub fn replicate(&self, n: usize) -> Bv {
        assert!(n >= 1, "bv4::replicate: count must be >= 1");
        let mut bits = Vec::with_capacity(n * self.width());
        for _ in 0..n {
            bits.extend_from_slice(&self.bits);
        }
        Bv { bits, signed: false }
    }
    /// `self[hi:lo]` (hi >= lo); positions outside the vector read X; unsigned.
    pub fn select(&self, hi: usize, lo: usize) -> Bv {
        assert!(hi >= lo, "bv4::select: hi < lo");
        Bv { bits: (lo..=hi).map(|i| self.bit(i)).collect(), signed: false }
    }
}

// -------------------------------------------------------------------------------------------------
// one operator with §11.6 / §11.8 sizing

#[derive(Clone, Copy, PartialEq, Eq, Hash, Debug)]
pub enum BinOp {
    Add,
    Sub,
    Mul,
    Div,
    Rem,
    Pow,
    And,
    Or,
    Xor,
    Xnor,
    /// `<<`
    Shl,
    /// `>>`
    Shr,
    /// `<<<`
    Ashl,
    /// `>>>`
    Ashr,
    Lt,
    Le,
    Gt,
    Ge,
    /// `==` strict (see `Bv::eq`)
    Eq,
    Ne,
    /// `==` / `!=` in the "ambiguous" reading (see `Bv::eq_ambig`)
    EqAmbig,
    NeAmbig,
    CaseEq,
    CaseNe,
    /// `==?` strict
    WildEq,
    WildNe,
    WildEqAmbig,
    WildNeAmbig,
    LogicAnd,
    LogicOr,
}

#[derive(Clone, Copy, PartialEq, Eq, Hash, Debug)]
pub enum UnOp {
    Plus,
    Neg,
    Not,
    RedAnd,
    RedNand,
    RedOr,
    RedNor,
    RedXor,
    RedXnor,
    LogicNot,
}

#[derive(Clone, Copy, PartialEq, Eq, Debug)]
pub enum OpClass {
    /// both operands context-determined, result width max(L(i),L(j)) (Table 11-21)
    Context,
    /// left operand context-determined, right self-determined (shifts, `**`)
    LeftContext,
    /// operands sized to max(L(i),L(j)) among themselves, result 1 bit unsigned
    Compare,
    /// operands self-determined, result 1 bit unsigned
    Logical,
}

impl BinOp {
    pub fn class(self) -> OpClass {
        use BinOp::*;
        match self {
            Add | Sub | Mul | Div | Rem | And | Or | Xor | Xnor => OpClass::Context,
            Pow | Shl | Shr | Ashl | Ashr => OpClass::LeftContext,
            Lt | Le | Gt | Ge | Eq | Ne | EqAmbig | NeAmbig | CaseEq | CaseNe | WildEq | WildNe | WildEqAmbig | WildNeAmbig => OpClass::Compare,
            LogicAnd | LogicOr => OpClass::Logical,
        }
    }
    /// Apply to operands that are already sized for this operator's class.
    pub fn apply(self, a: &Bv, b: &Bv) -> Bv {
        use BinOp::*;
        match self {
            Add => a.add(b),
            Sub => a.sub(b),
            Mul => a.mul(b),
            Div => a.div(b),
            Rem => a.rem(b),
            Pow => a.pow(b),
            And => a.and(b),
            Or => a.or(b),
            Xor => a.xor(b),
            Xnor => a.xnor(b),
            Shl | Ashl => a.shl(b),
            Shr => a.shr(b),
            Ashr => a.ashr(b),
            Lt => a.lt(b),
            Le => a.le(b),
            Gt => a.gt(b),
            Ge => a.ge(b),
            Eq => a.eq(b),
            Ne => a.ne(b),
            EqAmbig => a.eq_ambig(b),
            NeAmbig => a.ne_ambig(b),
            CaseEq => a.case_eq(b),
            CaseNe => a.case_ne(b),
            WildEq => a.wild_eq(b),
            WildNe => a.wild_ne(b),
            WildEqAmbig => a.wild_eq_ambig(b),
            WildNeAmbig => a.wild_ne_ambig(b),
            LogicAnd => a.logic_and(b),
            LogicOr => a.logic_or(b),
        }
    }
}

impl UnOp {
    /// true: operand context-determined, result has the operand's type
    pub fn is_context(self) -> bool {
        matches!(self, UnOp::Plus | UnOp::Neg | UnOp::Not)
    }
    pub fn apply(self, a: &Bv) -> Bv {
        match self {
            UnOp::Plus => a.clone(),
            UnOp::Neg => a.neg(),
            UnOp::Not => a.not(),
            UnOp::RedAnd => a.red_and(),
            UnOp::RedNand => a.red_nand(),
            UnOp::RedOr => a.red_or(),
            UnOp::RedNor => a.red_nor(),
            UnOp::RedXor => a.red_xor(),
            UnOp::RedXnor => a.red_xnor(),
            UnOp::LogicNot => a.logic_not(),
        }
    }
}

/// Convert a simple operand to the propagated type (§11.8.2): extend with its
/// sign only when the propagated type is signed, then carry that signedness.
pub fn to_context(v: &Bv, width: usize, signed: bool) -> Bv {
    v.as_signed(v.signed && signed).resize(width).as_signed(signed)
}

/// IEEE 1800 §11.6/§11.8 sizing for one binary operator: operands of
/// context-determined operators are extended to `max(width(a), width(b), ctx)`
/// BEFORE the operation and the expression is signed only if all
/// context-determined operands are signed; comparison results are 1-bit
/// unsigned with operands sized to the max of the two (then zero-extended to
/// `ctx`); logical operands, shift amounts and `**` exponents are
/// self-determined.
pub fn eval_binary(op: BinOp, a: &Bv, b: &Bv, ctx_width: Option<usize>) -> Bv {
    eval_expr(&Expr::Bin(op, Box::new(Expr::Lit(a.clone())), Box::new(Expr::Lit(b.clone()))), ctx_width)
}

/// §11.6/§11.8 sizing for one unary operator (`+ - ~` context-determined,
/// reductions and `!` self-determined with a 1-bit unsigned result).
pub fn eval_unary(op: UnOp, a: &Bv, ctx_width: Option<usize>) -> Bv {
    eval_expr(&Expr::Un(op, Box::new(Expr::Lit(a.clone()))), ctx_width)
}

// -------------------------------------------------------------------------------------------------
// expression trees

/// A SystemVerilog integral expression.
#[derive(Clone, PartialEq, Eq, Hash, Debug)]
pub enum Expr {
    Lit(Bv),
    /// unbased unsized literal `'0 '1 'x 'z` (§5.7.1): self-determined width 1,
    /// unsigned; in a wider context *every* bit takes the digit
    Fill(u8),
    /// NOT IEEE: an unbased unsized literal read as *sign-neutral* (typed signed, so it
    /// does not make the enclosing expression unsigned).  Only for monitors that must
    /// accept a tool's alternative reading; never produced by IEEE-only users.
    FillNeutral(u8),
    Un(UnOp, Box<Expr>),
    Bin(BinOp, Box<Expr>, Box<Expr>),
    /// `c ? a : b`
    Cond(Box<Expr>, Box<Expr>, Box<Expr>),
    /// `{a, b, …}` first = most significant
    Concat(Vec<Expr>),
    /// `{n{e}}`
    Repl(usize, Box<Expr>),
    /// `e[hi:lo]` with constant bounds
    Select(Box<Expr>, usize, usize),
    /// size cast `N'(e)` (§6.24.1): `e` is evaluated as if assigned to an N-bit
    /// variable (context max(L(e), N), then truncated to N); signedness of `e` is kept
    Cast(usize, Box<Expr>),
    /// `$signed(e)` / `signed'(e)`: operand self-determined
    Signed(Box<Expr>),
    /// `$unsigned(e)` / `unsigned'(e)`
    Unsigned(Box<Expr>),
}

/// Self-determined (width, signed) of an expression (§11.6.1 Table 11-21, §11.8.1).
pub fn expr_type(e: &Expr) -> (usize, bool) {
    match e {
        Expr::Lit(v) => (v.width(), v.signed),
        Expr::Fill(_) => (1, false),
        Expr::FillNeutral(_) => (1, true),
        Expr::Un(op, x) => {
            if op.is_context() {
                expr_type(x)
            } else {
                (1, false)
            }
        }
        Expr::Bin(op, x, y) => match op.class() {
            OpClass::Context => {
                let (a, b) = (expr_type(x), expr_type(y));
                (a.0.max(b.0), a.1 && b.1)
            }
            OpClass::LeftContext => expr_type(x),
            OpClass::Compare | OpClass::Logical => (1, false),
        },
        Expr::Cond(_, y, z) => {
            let (a, b) = (expr_type(y), expr_type(z));
            (a.0.max(b.0), a.1 && b.1)
        }
        Expr::Concat(v) => (v.iter().map(|x| expr_type(x).0).sum(), false),
        Expr::Repl(n, x) => (n * expr_type(x).0, false),
        Expr::Select(_, hi, lo) => (hi - lo + 1, false),
        Expr::Cast(n, x) => (*n, expr_type(x).1),
        Expr::Signed(x) => (expr_type(x).0, true),
        Expr::Unsigned(x) => (expr_type(x).0, false),
    }
}

fn eval_self(e: &Expr) -> Bv {
    let (w, s) = expr_type(e);
    eval_in(e, w, s)
}

/// Evaluate `e` with propagated type (`w` >= self-determined width, `s`).
/// The result always has width `w` and signedness `s`.
pub fn eval_in(e: &Expr, w: usize, s: bool) -> Bv {
    match e {
        Expr::Lit(v) => to_context(v, w, s),
        Expr::Fill(d) | Expr::FillNeutral(d) => Bv::fill(*d, w, s),
        Expr::Un(op, x) => {
            if op.is_context() {
                op.apply(&eval_in(x, w, s)).as_signed(s)
            } else {
                to_context(&op.apply(&eval_self(x)), w, s)
            }
        }
        Expr::Bin(op, x, y) => match op.class() {
            OpClass::Context => op.apply(&eval_in(x, w, s), &eval_in(y, w, s)).as_signed(s),
            OpClass::LeftContext => op.apply(&eval_in(x, w, s), &eval_self(y)).as_signed(s),
            OpClass::Compare => {
                let (a, b) = (expr_type(x), expr_type(y));
                let (cw, cs) = (a.0.max(b.0), a.1 && b.1);
                to_context(&op.apply(&eval_in(x, cw, cs), &eval_in(y, cw, cs)), w, s)
            }
            OpClass::Logical => to_context(&op.apply(&eval_self(x), &eval_self(y)), w, s),
        },
        Expr::Cond(c, y, z) => Bv::cond(&eval_self(c), &eval_in(y, w, s), &eval_in(z, w, s)).as_signed(s),
        Expr::Concat(v) => {
            let parts: Vec<Bv> = v.iter().map(eval_self).collect();
            to_context(&Bv::concat(&parts), w, s)
        }
        Expr::Repl(n, x) => to_context(&eval_self(x).replicate(*n), w, s),
        Expr::Select(x, hi, lo) => to_context(&eval_self(x).select(*hi, *lo), w, s),
        Expr::Cast(n, x) => {
            let (xw, xs) = expr_type(x);
            let v = eval_in(x, xw.max(*n), xs).resize(*n);
            to_context(&v, w, s)
        }
        Expr::Signed(x) => to_context(&eval_self(x).as_signed(true), w, s),
        Expr::Unsigned(x) => to_context(&eval_self(x).as_signed(false), w, s),
    }
}

/// Evaluate with IEEE sizing: the expression's width is
/// `max(self-determined width, ctx_width)` (an assignment-like context of
/// `ctx_width` bits; the caller truncates if the target is narrower) and its
/// signedness is the self-determined one.
pub fn eval_expr(e: &Expr, ctx_width: Option<usize>) -> Bv {
    let (w, s) = expr_type(e);
    eval_in(e, w.max(ctx_width.unwrap_or(0)), s)
}

// -------------------------------------------------------------------------------------------------
// self test

/// Hand-computed IEEE cases: (description, got, expected bit string MSB first, expected signed)
fn table() -> Vec<(&'static str, Bv, &'static str, bool)> {
    use BinOp::*;
    let b = Bv::from_bitstr;
    let s = Bv::from_bitstr_signed;
    let eb = |op, x: &Bv, y: &Bv, c: Option<usize>| eval_binary(op, x, y, c);
    let eu = |op, x: &Bv, c: Option<usize>| eval_unary(op, x, c);
    vec![
        // wrap-around and carry into a wider context
        ("4'hf + 4'h1 self", eb(Add, &b("1111"), &b("0001"), None), "0000", false),
        ("4'hf + 4'h1 in 8", eb(Add, &b("1111"), &b("0001"), Some(8)), "00010000", false),
        ("4'h0 - 4'h1", eb(Sub, &b("0000"), &b("0001"), None), "1111", false),
        ("4'h0 - 4'h1 in 6", eb(Sub, &b("0000"), &b("0001"), Some(6)), "111111", false),
        ("3'd5 * 3'd3", eb(Mul, &b("101"), &b("011"), None), "111", false),
        ("3'd5 * 3'd3 in 6", eb(Mul, &b("101"), &b("011"), Some(6)), "001111", false),
        // sign extension only when all operands are signed
        ("4'sb1000 + 4'sb0000 in 8", eb(Add, &s("1000"), &s("0000"), Some(8)), "11111000", true),
        ("4'sb1000 + 4'b0000 in 8", eb(Add, &s("1000"), &b("0000"), Some(8)), "00001000", false),
        ("2'sb11 + 4'sb0001", eb(Add, &s("11"), &s("0001"), None), "0000", true),
        ("2'sb11 + 4'b0001", eb(Add, &s("11"), &b("0001"), None), "0100", false),
        // division
        ("4'd13 / 4'd3", eb(Div, &b("1101"), &b("0011"), None), "0100", false),
        ("4'd13 % 4'd3", eb(Rem, &b("1101"), &b("0011"), None), "0001", false),
        ("4'd13 / 4'd0", eb(Div, &b("1101"), &b("0000"), None), "xxxx", false),
        ("4'd13 % 4'd0", eb(Rem, &b("1101"), &b("0000"), None), "xxxx", false),
        ("-7 / 2 signed", eb(Div, &s("1001"), &s("0010"), None), "1101", true),
        ("-7 % 2 signed", eb(Rem, &s("1001"), &s("0010"), None), "1111", true),
        ("7 / -2 signed", eb(Div, &s("0111"), &s("1110"), None), "1101", true),
        ("7 % -2 signed", eb(Rem, &s("0111"), &s("1110"), None), "0001", true),
        ("-8 / -1 signed wraps", eb(Div, &s("1000"), &s("1111"), None), "1000", true),
        ("-8 % -1 signed", eb(Rem, &s("1000"), &s("1111"), None), "0000", true),
        ("4'sb1001 / 4'b0010 is unsigned 9/2", eb(Div, &s("1001"), &b("0010"), None), "0100", false),
        // X propagation in arithmetic
        ("4'b1x00 + 1", eb(Add, &b("1x00"), &b("0001"), None), "xxxx", false),
        ("- 4'b0z00", eu(UnOp::Neg, &b("0z00"), None), "xxxx", false),
        ("- 4'd1", eu(UnOp::Neg, &b("0001"), None), "1111", false),
        ("- 4'sd1 in 6", eu(UnOp::Neg, &s("0001"), Some(6)), "111111", true),
        ("- 4'd1 in 6", eu(UnOp::Neg, &b("0001"), Some(6)), "111111", false),
        ("- 4'b1000 in 6 (unsigned zero-extends first)", eu(UnOp::Neg, &b("1000"), Some(6)), "111000", false),
        ("- 4'sb1000 in 6", eu(UnOp::Neg, &s("1000"), Some(6)), "001000", true),
        // bitwise tables
        ("01xz & 0000", eb(And, &b("01xz"), &b("0000"), None), "0000", false),
        ("01xz & 1111", eb(And, &b("01xz"), &b("1111"), None), "01xx", false),
        ("01xz | 1111", eb(Or, &b("01xz"), &b("1111"), None), "1111", false),
        ("01xz | 0000", eb(Or, &b("01xz"), &b("0000"), None), "01xx", false),
        ("01xz ^ 1111", eb(Xor, &b("01xz"), &b("1111"), None), "10xx", false),
        ("01xz ~^ 1111", eb(Xnor, &b("01xz"), &b("1111"), None), "01xx", false),
        ("xz & xz", eb(And, &b("xz"), &b("zx"), None), "xx", false),
        ("~ 01xz", eu(UnOp::Not, &b("01xz"), None), "10xx", false),
        ("~ 2'b01 in 4 (extend first)", eu(UnOp::Not, &b("01"), Some(4)), "1110", false),
        ("~ 2'sb10 in 4", eu(UnOp::Not, &s("10"), Some(4)), "0001", true),
        ("signed x-msb sign-extends x", eb(Or, &s("x0"), &s("0000"), None), "xxx0", true),
        ("signed z-msb sign-extends z, or turns it into x", eb(Or, &s("z1"), &s("0000"), None), "xxx1", true),
        // shifts
        ("4'b1001 << 1", eb(Shl, &b("1001"), &b("01"), None), "0010", false),
        ("4'b1001 << 1 in 8", eb(Shl, &b("1001"), &b("01"), Some(8)), "00010010", false),
        ("4'b1001 >> 1", eb(Shr, &b("1001"), &b("01"), None), "0100", false),
        ("4'sb1001 >>> 1", eb(Ashr, &s("1001"), &b("01"), None), "1100", true),
        ("4'b1001 >>> 1 (unsigned: zero fill)", eb(Ashr, &b("1001"), &b("01"), None), "0100", false),
        ("4'sb1001 >> 1 (logical)", eb(Shr, &s("1001"), &b("01"), None), "0100", true),
        ("4'sb1001 >>> 1 in 8", eb(Ashr, &s("1001"), &b("01"), Some(8)), "11111100", true),
        ("4'sb1001 >> 1 in 8 (extend, then logical)", eb(Shr, &s("1001"), &b("01"), Some(8)), "01111100", true),
        ("4'b1001 >> 4", eb(Shr, &b("1001"), &b("100"), None), "0000", false),
        ("4'sb1001 >>> 7", eb(Ashr, &s("1001"), &b("111"), None), "1111", true),
        ("4'sb0101 >>> 9", eb(Ashr, &s("0101"), &b("1001"), None), "0000", true),
        ("4'b1001 << 200-bit huge", eb(Shl, &b("1001"), &Bv::ones(200, false), None), "0000", false),
        ("4'b1001 << 2'b1x", eb(Shl, &b("1001"), &b("1x"), None), "xxxx", false),
        ("4'b10z1 >> 1 keeps z", eb(Shr, &b("10z1"), &b("1"), None), "010z", false),
        ("shift amount is unsigned: 4'b0001 << 2'sb11", eb(Shl, &b("0001"), &s("11"), None), "1000", false),
        ("4'sbx001 >>> 2", eb(Ashr, &s("x001"), &b("10"), None), "xxx0", true),
        // power
        ("3 ** 2 (4 bit)", eb(Pow, &b("0011"), &b("0010"), None), "1001", false),
        ("3 ** 3 (4 bit) wraps 27", eb(Pow, &b("0011"), &b("0011"), None), "1011", false),
        ("3 ** 3 in 8", eb(Pow, &b("0011"), &b("0011"), Some(8)), "00011011", false),
        ("0 ** 0", eb(Pow, &b("0000"), &b("0000"), None), "0001", false),
        ("5 ** 0", eb(Pow, &b("0101"), &b("0"), None), "0001", false),
        ("0 ** 3", eb(Pow, &b("0000"), &b("11"), None), "0000", false),
        ("0 ** -1 → x", eb(Pow, &s("0000"), &s("11"), None), "xxxx", true),
        ("1 ** -1 → 1", eb(Pow, &s("0001"), &s("11"), None), "0001", true),
        ("-1 ** -1 → -1", eb(Pow, &s("1111"), &s("11"), None), "1111", true),
        ("-1 ** -2 → 1", eb(Pow, &s("1111"), &s("10"), None), "0001", true),
        ("2 ** -1 → 0", eb(Pow, &s("0010"), &s("11"), None), "0000", true),
        ("-2 ** -1 → 0", eb(Pow, &s("1110"), &s("11"), None), "0000", true),
        ("-2 ** 3 = -8", eb(Pow, &s("1110"), &s("011"), None), "1000", true),
        ("-3 ** 2 = 9 in 8 bits", eb(Pow, &s("1101"), &b("10"), Some(8)), "00001001", true),
        ("unsigned 4'hf ** 2'sb11 (=-1): base 15 > 1 → 0", eb(Pow, &b("1111"), &s("11"), None), "0000", false),
        ("2 ** 2'b11 unsigned exponent 3", eb(Pow, &b("0010"), &b("11"), None), "1000", false),
        ("2 ** x", eb(Pow, &b("0010"), &b("x"), None), "xxxx", false),
        // reductions / logical
        ("& 4'b1111", eu(UnOp::RedAnd, &b("1111"), None), "1", false),
        ("& 4'b1x11", eu(UnOp::RedAnd, &b("1x11"), None), "x", false),
        ("& 4'b0x11", eu(UnOp::RedAnd, &b("0x11"), None), "0", false),
        ("~& 4'b0x11", eu(UnOp::RedNand, &b("0x11"), None), "1", false),
        ("| 4'b0x00", eu(UnOp::RedOr, &b("0x00"), None), "x", false),
        ("| 4'b1x00", eu(UnOp::RedOr, &b("1x00"), None), "1", false),
        ("~| 4'b0000", eu(UnOp::RedNor, &b("0000"), None), "1", false),
        ("^ 4'b0111", eu(UnOp::RedXor, &b("0111"), None), "1", false),
        ("^ 4'b01z1", eu(UnOp::RedXor, &b("01z1"), None), "x", false),
        ("~^ 4'b0111", eu(UnOp::RedXnor, &b("0111"), None), "0", false),
        ("& 2'sb11 in 4: 1-bit unsigned result zero-extends", eu(UnOp::RedAnd, &s("11"), Some(4)), "0001", false),
        ("! 4'b0000", eu(UnOp::LogicNot, &b("0000"), None), "1", false),
        ("! 4'b0x00", eu(UnOp::LogicNot, &b("0x00"), None), "x", false),
        ("! 4'b1x00", eu(UnOp::LogicNot, &b("1x00"), None), "0", false),
        ("0 && x = 0", eb(LogicAnd, &b("0"), &b("x"), None), "0", false),
        ("x && 0 = 0", eb(LogicAnd, &b("x"), &b("00"), None), "0", false),
        ("1 && x = x", eb(LogicAnd, &b("1"), &b("x"), None), "x", false),
        ("2'b1x && 1 = 1", eb(LogicAnd, &b("1x"), &b("1"), None), "1", false),
        ("1 || x = 1", eb(LogicOr, &b("1"), &b("x"), None), "1", false),
        ("0 || x = x", eb(LogicOr, &b("0"), &b("x"), None), "x", false),
        ("0 || 0 in 3", eb(LogicOr, &b("0"), &b("0"), Some(3)), "000", false),
        // relational / equality
        ("4'd3 < 4'd5", eb(Lt, &b("0011"), &b("0101"), None), "1", false),
        ("4'sb1111 < 4'sb0001 (-1 < 1)", eb(Lt, &s("1111"), &s("0001"), None), "1", false),
        ("4'sb1111 < 4'b0001 (15 < 1)", eb(Lt, &s("1111"), &b("0001"), None), "0", false),
        ("2'sb11 < 4'sb0000 (-1 < 0 after sign extension)", eb(Lt, &s("11"), &s("0000"), None), "1", false),
        ("2'sb11 < 4'b0000 (3 < 0)", eb(Lt, &s("11"), &b("0000"), None), "0", false),
        ("2'sb11 >= 4'sb1111 (-1 >= -1)", eb(Ge, &s("11"), &s("1111"), None), "1", false),
        ("4'b1x00 > 4'b0000", eb(Gt, &b("1x00"), &b("0000"), None), "x", false),
        ("3 <= 3 in 5", eb(Le, &b("11"), &b("11"), Some(5)), "00001", false),
        ("2'sb11 == 4'sb1111", eb(Eq, &s("11"), &s("1111"), None), "1", false),
        ("2'sb11 == 4'b1111", eb(Eq, &s("11"), &b("1111"), None), "0", false),
        ("2'b1x == 2'b0x strict", eb(Eq, &b("1x"), &b("0x"), None), "x", false),
        ("2'b1x == 2'b0x ambiguous-reading", eb(EqAmbig, &b("1x"), &b("0x"), None), "0", false),
        ("2'bx1 == 2'b1x both readings x", eb(EqAmbig, &b("x1"), &b("1x"), None), "x", false),
        ("2'bx1 != 2'b1x", eb(NeAmbig, &b("x1"), &b("1x"), None), "x", false),
        ("2'b1x != 2'b0x ambiguous-reading", eb(NeAmbig, &b("1x"), &b("0x"), None), "1", false),
        ("2'b1x === 2'b1x", eb(CaseEq, &b("1x"), &b("1x"), None), "1", false),
        ("2'b1x === 2'b1z", eb(CaseEq, &b("1x"), &b("1z"), None), "0", false),
        ("4'b1010 ==? 4'b1xz0", eb(WildEq, &b("1010"), &b("1xz0"), None), "1", false),
        ("4'b0010 ==? 4'b1xz0", eb(WildEq, &b("0010"), &b("1xz0"), None), "0", false),
        ("4'b1x10 ==? 4'b1xz0 (left x under wildcard)", eb(WildEq, &b("1x10"), &b("1xz0"), None), "1", false),
        ("4'bx010 ==? 4'b1xz0 (left x not wild)", eb(WildEq, &b("x010"), &b("1xz0"), None), "x", false),
        ("4'bx011 ==? 4'b1xz0 strict", eb(WildEq, &b("x011"), &b("1xz0"), None), "x", false),
        ("4'bx011 ==? 4'b1xz0 ambiguous-reading", eb(WildEqAmbig, &b("x011"), &b("1xz0"), None), "0", false),
        ("4'b0010 !=? 4'b1xz0", eb(WildNe, &b("0010"), &b("1xz0"), None), "1", false),
        // conditional, concat, select, cast through Expr
        ("1 ? 4'b0011 : 4'b1100", Bv::cond(&b("1"), &b("0011"), &b("1100")), "0011", false),
        ("x ? 4'b0011 : 4'b0101", Bv::cond(&b("x"), &b("0011"), &b("0101")), "0xx1", false),
        ("x ? 4'b0z11 : 4'b0z01", Bv::cond(&b("x"), &b("0z11"), &b("0z01")), "0xx1", false),
        ("1 ? 4'b0z11 : .. keeps z", Bv::cond(&b("10"), &b("0z11"), &b("0000")), "0z11", false),
        ("{2'b10, 3'bx01}", Bv::concat(&[b("10"), b("x01")]), "10x01", false),
        ("{3{2'b1z}}", b("1z").replicate(3), "1z1z1z", false),
        ("8'b1010_0110 [5:2]", b("10100110").select(5, 2), "1001", false),
        ("4'b1010 [5:2] out of range reads x", b("1010").select(5, 2), "xx10", false),
        ("resize signed 3'sb101 → 6", s("101").resize(6), "111101", true),
        ("resize unsigned 3'b101 → 6", b("101").resize(6), "000101", false),
        ("resize 6'b110101 → 3", b("110101").resize(3), "101", false),
        (
            "c ? 4'sb1111 : 4'sb0001, + 8'd0: whole expression unsigned → zero-extended",
            eval_expr(
                &Expr::Bin(
                    Add,
                    Box::new(Expr::Cond(Box::new(Expr::Lit(b("1"))), Box::new(Expr::Lit(s("1111"))), Box::new(Expr::Lit(s("0001"))))),
                    Box::new(Expr::Lit(b("00000000"))),
                ),
                None,
            ),
            "00001111",
            false,
        ),
        (
            "(4'sb1100 / 4'sb0010) + 8'd0: unsigned context → 12/2 = 6",
            eval_expr(
                &Expr::Bin(
                    Add,
                    Box::new(Expr::Bin(Div, Box::new(Expr::Lit(s("1100"))), Box::new(Expr::Lit(s("0010"))))),
                    Box::new(Expr::Lit(b("00000000"))),
                ),
                None,
            ),
            "00000110",
            false,
        ),
        (
            "(4'hf + 4'h1) >> 1 in 8-bit context keeps the carry (§11.6.2 example)",
            eval_expr(
                &Expr::Bin(Shr, Box::new(Expr::Bin(Add, Box::new(Expr::Lit(b("1111"))), Box::new(Expr::Lit(b("0001"))))), Box::new(Expr::Lit(b("1")))),
                Some(8),
            ),
            "00001000",
            false,
        ),
        (
            "{4'hf + 4'h1} is self-determined inside a concat",
            eval_expr(&Expr::Concat(vec![Expr::Bin(Add, Box::new(Expr::Lit(b("1111"))), Box::new(Expr::Lit(b("0001"))))]), Some(8)),
            "00000000",
            false,
        ),
        (
            "6'(4'hf + 4'h1) = 16",
            eval_expr(&Expr::Cast(6, Box::new(Expr::Bin(Add, Box::new(Expr::Lit(b("1111"))), Box::new(Expr::Lit(b("0001")))))), None),
            "010000",
            false,
        ),
        ("'1 + 4'd1 in 6: the fill literal takes the context width", eval_expr(&Expr::Bin(Add, Box::new(Expr::Fill(1)), Box::new(Expr::Lit(b("0001")))), Some(6)), "000000", false),
        ("'x | 4'b0101", eval_expr(&Expr::Bin(Or, Box::new(Expr::Fill(X)), Box::new(Expr::Lit(b("0101")))), None), "x1x1", false),
        ("2'(4'b0111)", eval_expr(&Expr::Cast(2, Box::new(Expr::Lit(b("0111")))), None), "11", false),
        ("8'(4'sb1000) sign-extends", eval_expr(&Expr::Cast(8, Box::new(Expr::Lit(s("1000")))), None), "11111000", true),
        ("$signed(4'b1000) in 8", eval_expr(&Expr::Signed(Box::new(Expr::Lit(b("1000")))), Some(8)), "11111000", true),
        ("$unsigned(4'sb1000) in 8", eval_expr(&Expr::Unsigned(Box::new(Expr::Lit(s("1000")))), Some(8)), "00001000", false),
        (
            "(4'sb1000 == 4'sb1000) + 4'sb1111 : comparison is unsigned → 1 + 15 = 0",
            eval_expr(
                &Expr::Bin(Add, Box::new(Expr::Bin(Eq, Box::new(Expr::Lit(s("1000"))), Box::new(Expr::Lit(s("1000"))))), Box::new(Expr::Lit(s("1111")))),
                Some(6),
            ),
            "010000",
            false,
        ),
    ]
}

fn check_words_roundtrip() -> Result<(), String> {
    let v = Bv::from_bitstr("z1x0");
    let (p, m) = v.to_words();
    if p != vec![0b1100] || m != vec![0b1010] {
        return Err(format!("to_words(z1x0) = {p:?}/{m:?}"));
    }
    if Bv::from_words(&p, &m, 4, false) != v {
        return Err("from_words(to_words(z1x0)) != z1x0".into());
    }
    let w = Bv::from_words(&[0, 1], &[1u64 << 63, 0], 65, true);
    if w.bit(64) != 1 || w.bit(63) != X || w.bit(0) != 0 || !w.signed {
        return Err("from_words 65-bit".into());
    }
    if w.to_words() != (vec![0, 1], vec![1u64 << 63, 0]) {
        return Err("to_words 65-bit".into());
    }
    Ok(())
}

fn mask128(w: usize) -> u128 {
    if w >= 128 { !0 } else { (1u128 << w) - 1 }
}

/// Cross-check against plain u128/i128 arithmetic on random known values of width <= 64.
fn check_native(rng: &mut Rng, rounds: usize) -> Result<usize, String> {
    use BinOp::*;
    let mut n = 0;
    let sext = |v: u128, w: usize| -> i128 { if (v >> (w - 1)) & 1 == 1 { (v | !mask128(w)) as i128 } else { v as i128 } };
    let pick = |rng: &mut Rng, w: usize| -> u128 {
        let m = mask128(w);
        (match rng.below(8) {
            0 => 0,
            1 => m,
            2 => 1u128 << (w - 1),
            3 => 1,
            4 => m - 1 & m,
            5 => 0xAAAA_AAAA_AAAA_AAAA_AAAA_AAAA_AAAA_AAAAu128,
            _ => ((rng.next_u64() as u128) << 64) | rng.next_u64() as u128,
        }) & m
    };
    for _ in 0..rounds {
        let wa = 1 + rng.usize(64);
        let wb = 1 + rng.usize(64);
        let (sa, sb) = (rng.bool(), rng.bool());
        let (va, vb) = (pick(rng, wa), pick(rng, wb));
        let ctx = if rng.bool() { Some(1 + rng.usize(100)) } else { None };
        let a = Bv::from_u128(va, wa, sa);
        let b = Bv::from_u128(vb, wb, sb);
        let s = sa && sb;
        let w = wa.max(wb).max(ctx.unwrap_or(0));
        let m = mask128(w);
        // operands converted to the propagated type
        let xa = if s { sext(va, wa) as u128 & m } else { va };
        let xb = if s { sext(vb, wb) as u128 & m } else { vb };
        let (ia, ib) = (sext(xa, w), sext(xb, w));
        let mut chk = |name: &str, op: BinOp, want: Option<u128>, ww: usize| -> Result<(), String> {
            let got = eval_binary(op, &a, &b, ctx);
            n += 1;
            let ok = got.width() == ww
                && match want {
                    None => got.bits.iter().all(|d| *d == X),
                    Some(x) => got.to_u128() == Some(x),
                };
            if ok {
                Ok(())
            } else {
                Err(format!(
                    "native cross-check {name}: a={}'{}{va:x} b={}'{}{vb:x} ctx={ctx:?} got {} want {:?} width {ww}",
                    wa,
                    if sa { "s" } else { "u" },
                    wb,
                    if sb { "s" } else { "u" },
                    got.to_bitstr(),
                    want.map(|x| format!("{x:x}"))
                ))
            }
        };
        chk("add", Add, Some(xa.wrapping_add(xb) & m), w)?;
        chk("sub", Sub, Some(xa.wrapping_sub(xb) & m), w)?;
        chk("mul", Mul, Some(xa.wrapping_mul(xb) & m), w)?;
        chk("and", And, Some(xa & xb), w)?;
        chk("or", Or, Some(xa | xb), w)?;
        chk("xor", Xor, Some(xa ^ xb), w)?;
        chk("xnor", Xnor, Some(!(xa ^ xb) & m), w)?;
        if xb == 0 {
            chk("div0", Div, None, w)?;
            chk("rem0", Rem, None, w)?;
        } else if s {
            chk("sdiv", Div, Some(ia.wrapping_div(ib) as u128 & m), w)?;
            chk("srem", Rem, Some(ia.wrapping_rem(ib) as u128 & m), w)?;
        } else {
            chk("udiv", Div, Some(xa / xb), w)?;
            chk("urem", Rem, Some(xa % xb), w)?;
        }
        // comparisons: sized to max of the two operands, result zero-extended to ctx
        let cw = wa.max(wb);
        let cm = mask128(cw);
        let ca = if s { sext(va, wa) as u128 & cm } else { va };
        let cb = if s { sext(vb, wb) as u128 & cm } else { vb };
        let lt = if s { sext(ca, cw) < sext(cb, cw) } else { ca < cb };
        let rw = 1.max(ctx.unwrap_or(0));
        chk("lt", Lt, Some(lt as u128), rw)?;
        chk("ge", Ge, Some(!lt as u128), rw)?;
        chk("gt", Gt, Some((if s { sext(ca, cw) > sext(cb, cw) } else { ca > cb }) as u128), rw)?;
        chk("le", Le, Some((if s { sext(ca, cw) <= sext(cb, cw) } else { ca <= cb }) as u128), rw)?;
        chk("eq", Eq, Some((ca == cb) as u128), rw)?;
        chk("ne", Ne, Some((ca != cb) as u128), rw)?;
        chk("case_eq", CaseEq, Some((ca == cb) as u128), rw)?;
        chk("wild_eq", WildEq, Some((ca == cb) as u128), rw)?;
        chk("land", LogicAnd, Some((va != 0 && vb != 0) as u128), rw)?;
        chk("lor", LogicOr, Some((va != 0 || vb != 0) as u128), rw)?;
        // shifts: left operand context-determined with its own signedness
        let sw = wa.max(ctx.unwrap_or(0));
        let sm = mask128(sw);
        let la = if sa { sext(va, wa) as u128 & sm } else { va };
        let sh = vb.min(200) as u32;
        chk("shl", Shl, Some(if sh >= 128 { 0 } else { (la << sh) & sm }), sw)?;
        chk("shr", Shr, Some(if sh >= 128 { 0 } else { la >> sh }), sw)?;
        let ar = if sa { (sext(la, sw) >> sh.min(127)) as u128 & sm } else if sh >= 128 { 0 } else { la >> sh };
        chk("ashr", Ashr, Some(ar), sw)?;
        // power with a small exponent
        let e = rng.below(12) as u32;
        let eb = Bv::from_u64(e as u64, 4, false);
        let got = eval_binary(Pow, &a, &eb, ctx);
        n += 1;
        let mut p: u128 = 1;
        for _ in 0..e {
            p = p.wrapping_mul(la);
        }
        if got.to_u128() != Some(p & sm) || got.width() != sw {
            return Err(format!("native cross-check pow: {va:x}({wa},{sa}) ** {e} ctx={ctx:?} got {} want {:x}", got.to_bitstr(), p & sm));
        }
        // unary
        let uw = wa.max(ctx.unwrap_or(0));
        let um = mask128(uw);
        let ua = if sa { sext(va, wa) as u128 & um } else { va };
        let g = eval_unary(UnOp::Neg, &a, ctx);
        if g.to_u128() != Some(ua.wrapping_neg() & um) {
            return Err(format!("native cross-check neg {va:x}({wa},{sa}) ctx={ctx:?} got {}", g.to_bitstr()));
        }
        let g = eval_unary(UnOp::Not, &a, ctx);
        if g.to_u128() != Some(!ua & um) {
            return Err(format!("native cross-check not {va:x}({wa},{sa}) ctx={ctx:?} got {}", g.to_bitstr()));
        }
        let g = eval_unary(UnOp::RedXor, &a, None);
        if g.to_u128() != Some((va.count_ones() & 1) as u128) {
            return Err(format!("native cross-check red_xor {va:x}"));
        }
        let g = eval_unary(UnOp::RedAnd, &a, None);
        if g.to_u128() != Some((va == mask128(wa)) as u128) {
            return Err(format!("native cross-check red_and {va:x}"));
        }
        n += 4;
    }
    Ok(n)
}

/// Wide-value consistency: algebraic identities that must hold at any width
/// (here up to 300 bits) — catches carries lost only beyond the native range.
fn check_wide(rng: &mut Rng, rounds: usize) -> Result<usize, String> {
    let mut n = 0;
    for _ in 0..rounds {
        let w = 65 + rng.usize(236);
        let rnd = |rng: &mut Rng| -> Bv { Bv { bits: (0..w).map(|_| rng.below(2) as u8).collect(), signed: false } };
        let a = rnd(rng);
        let mut b = rnd(rng);
        if is_zero_bits(&b.bits) {
            b.bits[0] = 1;
        }
        // (a + b) - b == a
        if a.add(&b).sub(&b) != a {
            return Err(format!("wide: (a+b)-b != a at width {w}"));
        }
        // a == q*b + r, r < b
        let (q, r) = (a.div(&b), a.rem(&b));
        if q.mul(&b).add(&r) != a || r.lt(&b).bits[0] != 1 {
            return Err(format!("wide: q*b+r != a or r >= b at width {w}: a={} b={}", a.to_bitstr(), b.to_bitstr()));
        }
        // a * 2^k == a << k
        let k = rng.usize(w);
        let mut p2 = Bv::zeros(w, false);
        p2.bits[k] = 1;
        let kb = Bv::from_u64(k as u64, 16, false);
        if a.mul(&p2) != a.shl(&kb) {
            return Err(format!("wide: a*2^{k} != a<<{k} at width {w}"));
        }
        // (a >> k) << k clears the low k bits only
        let back = a.shr(&kb).shl(&kb);
        for i in 0..w {
            if back.bits[i] != if i < k { 0 } else { a.bits[i] } {
                return Err(format!("wide: (a>>{k})<<{k} bit {i} at width {w}"));
            }
        }
        // a - a == 0 ; -a + a == 0 ; a ** 2 == a*a ; signed division by -1 negates
        if !is_zero_bits(&a.sub(&a).bits) || !is_zero_bits(&a.neg().add(&a).bits) {
            return Err(format!("wide: a-a / -a+a at width {w}"));
        }
        if a.pow(&Bv::from_u64(2, 2, false)) != a.mul(&a) {
            return Err(format!("wide: a**2 != a*a at width {w}"));
        }
        let sa = a.as_signed(true);
        if sa.div(&Bv::ones(w, true)).bits != a.neg().bits {
            return Err(format!("wide: a / -1 != -a at width {w}"));
        }
        // words round trip
        let (p, m) = a.to_words();
        if Bv::from_words(&p, &m, w, false) != a {
            return Err(format!("wide: words round trip at width {w}"));
        }
        n += 8;
    }
    Ok(n)
}

/// Run the built-in table of hand-computed IEEE cases, the cross-check against
/// native u128/i128 arithmetic on random known values <= 64 bits, and the wide
/// algebraic identities.  `Ok(number of checks)`; an `Err` means the reference
/// model itself is broken: monitors must report *inconclusive*, never a violation.
pub fn self_test() -> Result<usize, String> {
    let mut n = 0;
    for (what, got, want, signed) in table() {
        n += 1;
        if got.to_bitstr() != want || got.signed != signed {
            return Err(format!(
                "bv4 self-test table: {what}: got {}{} want {}{}",
                got.to_bitstr(),
                if got.signed { " signed" } else { "" },
                want,
                if signed { " signed" } else { "" }
            ));
        }
    }
    check_words_roundtrip()?;
    let mut rng = Rng::new(0xB4B4);
    n += check_native(&mut rng, 1500)?;
    n += check_wide(&mut rng, 25)?;
    Ok(n)
}

#[cfg(test)]
mod tests {
    use super::*;

    #[test]
    fn ieee_table_and_cross_checks() {
        let n = self_test().unwrap_or_else(|e| panic!("{e}"));
        assert!(n > 1000);
    }

    #[test]
    fn bitstr_roundtrip() {
        let v = Bv::from_bitstr("10xz_01");
        assert_eq!(v.width(), 6);
        assert_eq!(v.to_bitstr(), "10xz01");
        assert_eq!(v.bit(0), 1);
        assert_eq!(v.bit(2), Z);
        assert_eq!(v.bit(3), X);
        assert!(v.has_xz());
        assert_eq!(v.to_u64(), None);
        assert_eq!(Bv::from_u64(0xA5, 8, false).to_u64(), Some(0xA5));
        assert_eq!(Bv::from_i128(-3, 70).to_i128(), Some(-3));
    }
}
