//! Worker pool: every case runs on a *fresh* OS thread (fresh thread-local
//! analyzer/parser tables), `jobs` of them at a time.  A panic inside a case is
//! caught at the thread boundary and returned with its message and location;
//! stack overflows and aborts are not catchable here — monitors that hunt for
//! those use `subprocess` batches instead.

use std::collections::HashMap;
use std::panic::AssertUnwindSafe;
use std::sync::atomic::{AtomicBool, AtomicU64, Ordering};
use std::sync::{Mutex, OnceLock};
use std::thread::ThreadId;

#[derive(Debug, Clone)]
pub struct PanicInfo {
    pub message: String,
    pub location: String,
}

static PANICS: OnceLock<Mutex<HashMap<ThreadId, PanicInfo>>> = OnceLock::new();
static QUIET: AtomicBool = AtomicBool::new(true);

/// Install a panic hook that records (message, location) per thread instead of
/// printing a backtrace for every expected panic.
pub fn install_panic_hook() {
    PANICS.get_or_init(|| Mutex::new(HashMap::new()));
    std::panic::set_hook(Box::new(|info| {
        let msg = if let Some(s) = info.payload().downcast_ref::<&str>() {
            s.to_string()
        } else if let Some(s) = info.payload().downcast_ref::<String>() {
            s.clone()
        } else {
            "<non-string panic payload>".to_string()
        };
        let loc = info
            .location()
            .map(|l| format!("{}:{}", l.file(), l.line()))
            .unwrap_or_else(|| "<unknown>".into());
        if !QUIET.load(Ordering::Relaxed) {
            eprintln!("panic at {loc}: {msg}");
        }
        if let Some(m) = PANICS.get() {
            m.lock().unwrap().insert(
                std::thread::current().id(),
                PanicInfo {
                    message: msg,
                    location: loc,
                },
            );
        }
    }));
}

/// Inside a `catch_unwind` on the current thread: the (message, location) the
/// hook recorded for the panic that was just caught.
pub fn take_panic_info() -> Option<PanicInfo> {
    PANICS.get().and_then(|m| m.lock().unwrap().remove(&std::thread::current().id()))
}

pub fn set_quiet(q: bool) {
    QUIET.store(q, Ordering::Relaxed);
}

/// Run `f` on a fresh thread with `stack` bytes of stack.
pub fn fresh_thread<T: Send + 'static>(
    stack: usize,
    f: impl FnOnce() -> T + Send + 'static,
) -> Result<T, PanicInfo> {
    let h = std::thread::Builder::new()
        .stack_size(stack)
        .spawn(move || {
            let r = std::panic::catch_unwind(AssertUnwindSafe(f));
            let id = std::thread::current().id();
            match r {
                Ok(v) => Ok(v),
                Err(_) => {
                    let info = PANICS
                        .get()
                        .and_then(|m| m.lock().unwrap().remove(&id))
                        .unwrap_or(PanicInfo {
                            message: "<panic hook not installed>".into(),
                            location: "<unknown>".into(),
                        });
                    Err(info)
                }
            }
        })
        .expect("spawn");
    match h.join() {
        Ok(r) => r,
        Err(_) => Err(PanicInfo {
            message: "<thread join failed>".into(),
            location: "<unknown>".into(),
        }),
    }
}

pub const STACK_64M: usize = 64 << 20;

/// Run cases `0..n` with `jobs` workers; each case on a fresh thread.
/// `f(i)` must be `Sync` (shared by reference).  Results are delivered to
/// `sink(i, result)` from the worker threads (so `sink` must be thread-safe).
pub fn par_cases<T, F, S>(n: u64, jobs: usize, stack: usize, f: F, sink: S)
where
    T: Send + 'static,
    F: Fn(u64) -> T + Send + Sync + 'static + Clone,
    S: Fn(u64, Result<T, PanicInfo>) + Send + Sync,
{
    let next = AtomicU64::new(0);
    std::thread::scope(|scope| {
        for _ in 0..jobs.max(1) {
            scope.spawn(|| {
                loop {
                    let i = next.fetch_add(1, Ordering::Relaxed);
                    if i >= n {
                        break;
                    }
                    let g = f.clone();
                    let r = fresh_thread(stack, move || g(i));
                    sink(i, r);
                }
            });
        }
    });
}

/// Deadline helper: a generous wall-clock watchdog whose firing is
/// *inconclusive*, never a violation.
pub struct Deadline(std::time::Instant, std::time::Duration);
impl Deadline {
    pub fn new(secs: u64) -> Self {
        Deadline(std::time::Instant::now(), std::time::Duration::from_secs(secs))
    }
    pub fn expired(&self) -> bool {
        self.0.elapsed() > self.1
    }
}
