//! The repository's own Veryl texts, used as-is and as mutation seeds.

use std::path::{Path, PathBuf};

#[derive(Clone, Debug)]
pub struct CorpusFile {
    pub path: PathBuf,
    pub name: String,
    pub text: String,
    pub kind: &'static str,
}

fn walk(dir: &Path, ext: &str, out: &mut Vec<PathBuf>) {
    let Ok(rd) = std::fs::read_dir(dir) else { return };
    let mut entries: Vec<PathBuf> = rd.filter_map(|e| e.ok().map(|e| e.path())).collect();
    entries.sort();
    for p in entries {
        if p.is_dir() {
            walk(&p, ext, out);
        } else if p.extension().and_then(|x| x.to_str()) == Some(ext) {
            out.push(p);
        }
    }
}

pub fn repo() -> PathBuf {
    PathBuf::from(std::env::var("VERIF_REPO").unwrap_or_else(|_| "/repo".into()))
}

fn load(dir: &str, kind: &'static str, ext: &str) -> Vec<CorpusFile> {
    let mut paths = vec![];
    walk(&repo().join(dir), ext, &mut paths);
    paths
        .into_iter()
        .filter_map(|p| {
            let text = std::fs::read_to_string(&p).ok()?;
            Some(CorpusFile {
                name: p.file_stem()?.to_string_lossy().into_owned(),
                path: p,
                text,
                kind,
            })
        })
        .collect()
}

/// testcases/veryl/*.veryl — the well-formed emitter testcases.
pub fn testcases() -> Vec<CorpusFile> {
    load("testcases/veryl", "testcase", "veryl")
}
/// testcases/error/*.veryl — one analyzer error each.
pub fn error_cases() -> Vec<CorpusFile> {
    load("testcases/error", "error", "veryl")
}
/// the standard library sources.
pub fn std_sources() -> Vec<CorpusFile> {
    load("crates/std/veryl/src", "std", "veryl")
}
pub fn native_tests() -> Vec<CorpusFile> {
    load("testcases/native_test", "native_test", "veryl")
}
pub fn sv_fixtures() -> Vec<CorpusFile> {
    load("testcases/sv", "sv", "sv")
}

pub fn all_veryl() -> Vec<CorpusFile> {
    let mut v = testcases();
    v.extend(error_cases());
    v.extend(std_sources());
    v.extend(native_tests());
    v
}
