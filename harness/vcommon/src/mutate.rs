//! Mutators over source text.  `layout` changes only whitespace/comments
//! between tokens (the result should still parse, callers filter with the real
//! parser); `tokens` changes the token stream itself (for the crash monitors).

use crate::lex::{Kind, Tok, lex};
use crate::rng::Rng;

const COMMENT_WORDS: &[&str] = &[
    "note", "TODO", "x", "日本語", "émoji 🎉", "ß", "a*b", "// nested", "αβγ", "tab\there", "", "-",
    "wide ＷＩＤＥ", "{", "}", "module", "\"q\"",
];

#[derive(Clone, Debug, Default)]
pub struct LayoutOpts {
    /// convert every line ending to CRLF
    pub crlf: bool,
    /// probability (per 1000) of inserting a comment at a token boundary
    pub comment_permille: u64,
    /// probability (per 1000) of rewriting an existing whitespace run
    pub ws_permille: u64,
    /// probability (per 1000) of inserting whitespace where there was none
    pub insert_permille: u64,
    /// use multi-byte text in inserted comments
    pub multibyte: bool,
    pub tabs: bool,
}

impl LayoutOpts {
    pub fn random(rng: &mut Rng) -> Self {
        LayoutOpts {
            crlf: rng.chance(1, 5),
            comment_permille: *rng.pick(&[0, 10, 40, 120]),
            ws_permille: *rng.pick(&[0, 100, 400, 900]),
            insert_permille: *rng.pick(&[0, 20, 100]),
            multibyte: rng.chance(1, 2),
            tabs: rng.chance(1, 4),
        }
    }
}

fn random_ws(rng: &mut Rng, o: &LayoutOpts, need_newline_first: bool) -> String {
    let mut s = String::new();
    if need_newline_first {
        s.push('\n');
    }
    let n = 1 + rng.below(3);
    for _ in 0..n {
        match rng.below(10) {
            0..=4 => s.push(' '),
            5..=6 => s.push('\n'),
            7 => s.push_str("  "),
            8 => {
                if o.tabs {
                    s.push('\t')
                } else {
                    s.push(' ')
                }
            }
            _ => s.push_str("\n\n"),
        }
    }
    s
}

fn random_comment(rng: &mut Rng, o: &LayoutOpts) -> String {
    let mut body = String::new();
    let words = 1 + rng.below(3);
    for i in 0..words {
        if i > 0 {
            body.push(' ');
        }
        let w = *rng.pick(COMMENT_WORDS);
        if !o.multibyte && !w.is_ascii() {
            body.push_str("ascii");
        } else {
            body.push_str(w);
        }
    }
    match rng.below(5) {
        0 | 1 => format!("// {}\n", body.replace('\n', " ")),
        2 => format!("/* {} */", body.replace("*/", "* /")),
        3 => format!("/* {}\n   {} */", body.replace("*/", "* /"), "second line"),
        _ => format!("/*{}*/ ", body.replace("*/", "* /")),
    }
}

/// Change layout only: whitespace runs and comments between tokens.
pub fn layout(src: &str, rng: &mut Rng, o: &LayoutOpts) -> String {
    let toks = lex(src, false);
    let mut out = String::with_capacity(src.len() * 2);
    let mut prev_line_comment = false;
    let mut prev_sig: Option<&Tok> = None;
    for (idx, t) in toks.iter().enumerate() {
        match t.kind {
            Kind::Ws => {
                if rng.below(1000) < o.ws_permille {
                    out.push_str(&random_ws(rng, o, prev_line_comment));
                } else {
                    out.push_str(&t.text);
                }
                if rng.below(1000) < o.comment_permille {
                    out.push_str(&random_comment(rng, o));
                    out.push(' ');
                }
                prev_line_comment = false;
            }
            Kind::LineComment => {
                out.push_str(&t.text);
                prev_line_comment = true;
            }
            _ => {
                // boundary between two adjacent non-whitespace tokens
                if let Some(p) = prev_sig
                    && idx > 0
                    && toks[idx - 1].kind != Kind::Ws
                    && !matches!(p.kind, Kind::Embed)
                    && !matches!(t.kind, Kind::Embed)
                    && rng.below(1000) < o.insert_permille
                {
                    out.push_str(&random_ws(rng, o, prev_line_comment));
                    if rng.below(1000) < o.comment_permille {
                        out.push_str(&random_comment(rng, o));
                    }
                }
                out.push_str(&t.text);
                prev_line_comment = false;
                prev_sig = Some(t);
            }
        }
    }
    if o.crlf {
        out = out.replace("\r\n", "\n").replace('\n', "\r\n");
    }
    out
}

const REPLACEMENTS: &[&str] = &[
    "0", "1", "a", "x", "logic", "module", "{", "}", "(", ")", "[", "]", ";", ",", ":", "=", "+", "-",
    "*", "<<", ">>>", "if", "else", "for", "in", "case", "default", "always_comb", "always_ff",
    "assign", "var", "let", "function", "return", "inst", "import", "package", "interface",
    "modport", "struct", "enum", "const", "param", "type", "u32", "i64", "bit", "signed", "as",
    "32'hffffffff", "'1", "'x", "1'bz", "128'd0", "4294967296", "18446744073709551616", "::",
    ".", "..", "..=", "step", "repeat", "inside", "outside", "$clog2", "$bits", "$sv::foo", "_",
    "unsafe", "cdc", "clock", "reset", "if_reset", "input", "output", "inout", "gen", "proto",
    "1000000000", "65536", "-1", "embed", "include", "#[test(t)]", "#[allow(unused_variable)]",
];

/// Change the token stream: delete / duplicate / swap / replace / widen.
pub fn tokens(src: &str, rng: &mut Rng, edits: usize) -> String {
    let mut toks: Vec<String> = lex(src, false).into_iter().map(|t| t.text).collect();
    if toks.is_empty() {
        return src.to_string();
    }
    for _ in 0..edits {
        if toks.is_empty() {
            break;
        }
        let sig: Vec<usize> = toks
            .iter()
            .enumerate()
            .filter(|(_, t)| !t.trim().is_empty())
            .map(|(i, _)| i)
            .collect();
        if sig.is_empty() {
            break;
        }
        let i = *rng.pick(&sig);
        match rng.below(9) {
            0 => {
                toks.remove(i);
            }
            1 => {
                let t = toks[i].clone();
                toks.insert(i, format!("{t} "));
            }
            2 => {
                let j = *rng.pick(&sig);
                toks.swap(i, j);
            }
            3 | 4 => {
                toks[i] = rng.pick(REPLACEMENTS).to_string();
            }
            5 => {
                // rename identifier to something unresolved
                if toks[i].chars().next().is_some_and(|c| c.is_ascii_alphabetic()) {
                    toks[i] = format!("{}_zz", toks[i]);
                } else {
                    toks[i] = rng.pick(REPLACEMENTS).to_string();
                }
            }
            6 => {
                // blow up a number
                if toks[i].chars().all(|c| c.is_ascii_digit()) {
                    toks[i] = rng
                        .pick(&["0", "1", "63", "64", "65", "255", "1024", "65535", "1000000", "4294967295", "4294967296", "99999999999"])
                        .to_string();
                } else {
                    toks.remove(i);
                }
            }
            7 => {
                // copy a token span somewhere else
                let j = *rng.pick(&sig);
                let (a, b) = if i < j { (i, j) } else { (j, i) };
                let b = b.min(a + 12);
                let span: Vec<String> = toks[a..=b].to_vec();
                let at = *rng.pick(&sig);
                for (k, s) in span.into_iter().enumerate() {
                    toks.insert(at + k, s);
                }
            }
            _ => {
                // delete a span
                let len = 1 + rng.usize(6);
                let end = (i + len).min(toks.len());
                toks.drain(i..end);
            }
        }
    }
    toks.concat()
}
