//! parse → pass1 → post_pass1 → pass2 → post_pass2 → emit, in-process, the way
//! `crates/veryl/src/pipeline.rs` and the crates' own tests drive it.
//! Must be called on a fresh thread per project (thread-local tables).

use miette::Diagnostic;
use std::path::{Path, PathBuf};
use veryl_analyzer::ir as air;
use veryl_analyzer::{Analyzer, AnalyzerError, Context};
use veryl_emitter::Emitter;
use veryl_formatter::Formatter;
use veryl_metadata::Metadata;
use veryl_parser::Parser;

#[derive(Clone, Debug)]
pub struct Source {
    pub path: String,
    pub prj: String,
    pub text: String,
}

impl Source {
    pub fn new(path: &str, text: &str) -> Self {
        Source {
            path: path.into(),
            prj: "prj".into(),
            text: text.into(),
        }
    }
}

/// A diagnostic reduced to comparable data.
#[derive(Clone, Debug, PartialEq, Eq, PartialOrd, Ord, Hash)]
pub struct DiagRec {
    pub error: bool,
    pub code: String,
    pub message: String,
    pub labels: Vec<(usize, usize)>,
}

pub fn diag_rec(e: &AnalyzerError) -> DiagRec {
    let code = e.code().map(|c| c.to_string()).unwrap_or_default();
    let labels = e
        .labels()
        .map(|ls| ls.map(|l| (l.offset(), l.len())).collect())
        .unwrap_or_default();
    DiagRec {
        error: e.is_error(),
        code,
        message: e.to_string(),
        labels,
    }
}

pub struct Analyzed {
    pub sources: Vec<Source>,
    pub parsers: Vec<Parser>,
    pub analyzers: Vec<Analyzer>,
    pub errors: Vec<AnalyzerError>,
    pub ir: air::Ir,
    pub metadata: Metadata,
}

impl Analyzed {
    pub fn has_error(&self) -> bool {
        self.errors.iter().any(|e| e.is_error())
    }
    pub fn diag_recs(&self) -> Vec<DiagRec> {
        let mut v: Vec<DiagRec> = self.errors.iter().map(diag_rec).collect();
        v.sort();
        v
    }
    pub fn error_codes(&self) -> Vec<String> {
        let mut v: Vec<String> = self
            .errors
            .iter()
            .filter(|e| e.is_error())
            .map(|e| diag_rec(e).code)
            .collect();
        v.sort();
        v.dedup();
        v
    }
    pub fn all_codes(&self) -> Vec<String> {
        let mut v: Vec<String> = self.errors.iter().map(|e| diag_rec(e).code).collect();
        v.sort();
        v.dedup();
        v
    }

    /// Emit file `i` as SystemVerilog with this run's metadata.
    pub fn emit(&self, i: usize) -> String {
        self.emit_with(i, &self.metadata).0
    }

    /// Returns (sv text, source map json string).
    pub fn emit_with(&self, i: usize, metadata: &Metadata) -> (String, String) {
        let s = &self.sources[i];
        let src = PathBuf::from(&s.path);
        let dst = src.with_extension("sv");
        let map = src.with_extension("sv.map");
        let mut emitter = Emitter::new(metadata, &s.prj, &src, &dst, &map);
        emitter.emit(&self.parsers[i].veryl, &s.text);
        let text = emitter.as_str().to_string();
        let map_text = emitter.source_map().to_bytes().map(|b| String::from_utf8_lossy(&b).into_owned()).unwrap_or_default();
        (text, map_text)
    }

    pub fn emit_all(&self) -> String {
        let mut out = String::new();
        for i in 0..self.sources.len() {
            out.push_str(&self.emit(i));
            out.push('\n');
        }
        out
    }
}

pub fn metadata_from_toml(build_extra: &str, format_extra: &str) -> Metadata {
    let text = format!(
        "[project]\nname = \"prj\"\nversion = \"0.1.0\"\n[build]\nsources = [\"src\"]\ntarget = {{type = \"directory\", path = \"target\"}}\n{build_extra}\n[format]\n{format_extra}\n"
    );
    toml_metadata(&text)
}

pub fn toml_metadata(text: &str) -> Metadata {
    use std::str::FromStr;
    Metadata::from_str(text).expect("metadata toml")
}

pub fn default_metadata() -> Metadata {
    Metadata::create_default("prj").unwrap()
}

#[derive(Debug)]
pub enum PipeError {
    Parse { file: usize, message: String },
}

/// Parse and analyze all sources (in the given order).
pub fn analyze(sources: &[Source], metadata: &Metadata) -> Result<Analyzed, PipeError> {
    let mut parsers = vec![];
    let mut analyzers = vec![];
    let mut errors = vec![];
    for (i, s) in sources.iter().enumerate() {
        let parser = match Parser::parse(&s.text, &Path::new(&s.path)) {
            Ok(p) => p,
            Err(e) => {
                return Err(PipeError::Parse {
                    file: i,
                    message: e.to_string(),
                });
            }
        };
        let analyzer = Analyzer::new(metadata);
        errors.append(&mut analyzer.analyze_pass1(&s.prj, &parser.veryl));
        parsers.push(parser);
        analyzers.push(analyzer);
    }
    errors.append(&mut Analyzer::analyze_post_pass1());
    let mut context = Context::default();
    let mut ir = air::Ir::default();
    for (i, s) in sources.iter().enumerate() {
        context.set_project_name(&s.prj);
        errors.append(&mut analyzers[i].analyze_pass2(
            &parsers[i].veryl,
            &mut context,
            Some(&mut ir),
        ));
    }
    errors.append(&mut Analyzer::analyze_post_pass2(&ir));
    Ok(Analyzed {
        sources: sources.to_vec(),
        parsers,
        analyzers,
        errors,
        ir,
        metadata: metadata.clone(),
    })
}

pub fn analyze_one(text: &str, metadata: &Metadata) -> Result<Analyzed, PipeError> {
    analyze(&[Source::new("src/top.veryl", text)], metadata)
}

/// Format a source text with the given metadata; Err = parse error message.
pub fn format(text: &str, metadata: &Metadata) -> Result<String, String> {
    let parser = Parser::parse(text, &Path::new("fmt.veryl")).map_err(|e| e.to_string())?;
    let mut f = Formatter::new(metadata);
    f.format(&parser.veryl, text);
    Ok(f.as_str().to_string())
}
