//! Shared plumbing for every in-process monitor: seeds, argument parsing, the
//! three-valued verdict, evidence files, known findings, replay files, and a
//! worker pool that runs each case on a fresh OS thread (all analyzer/parser
//! tables in veryl are thread-local, so a fresh thread is a fresh analyzer).

pub mod corpus;
pub mod lex;
pub mod mutate;
pub mod pipeline;
pub mod pool;
pub mod rng;
pub mod run;

pub use rng::Rng;
pub use run::{Args, Run};
pub use serde_json::{Value as Json, json};
