//! One monitor run: counters, samples, violations, known findings, evidence,
//! exit code.  Exit 0 = held on everything observed, 1 = violated (a
//! `VIOLATION property=<id> replay=<path>` line was printed), 2 = inconclusive
//! (never a VIOLATION line).

use crate::rng::hash_str;
use serde_json::{Map, Value as Json, json};
use std::collections::{BTreeMap, BTreeSet, HashSet};
use std::path::PathBuf;
use std::sync::Mutex;
use std::sync::atomic::{AtomicU64, Ordering};
use std::time::Instant;

#[derive(Clone, Debug)]
pub struct Args {
    pub prop: String,
    pub tier: String,
    pub seed: u64,
    pub evidence: PathBuf,
    pub replay_dir: PathBuf,
    pub replay: Option<PathBuf>,
    pub known: PathBuf,
    pub jobs: usize,
    pub extra: BTreeMap<String, String>,
    pub rest: Vec<String>,
}

impl Args {
    pub fn parse() -> Args {
        let mut a = Args {
            prop: String::new(),
            tier: "quick".into(),
            seed: 0,
            evidence: PathBuf::new(),
            replay_dir: PathBuf::new(),
            replay: None,
            known: PathBuf::from("/verif/known_findings.json"),
            jobs: std::thread::available_parallelism().map(|x| x.get()).unwrap_or(8),
            extra: BTreeMap::new(),
            rest: vec![],
        };
        let mut it = std::env::args().skip(1);
        while let Some(x) = it.next() {
            let mut val = |name: &str| -> String {
                it.next().unwrap_or_else(|| panic!("missing value for {name}"))
            };
            match x.as_str() {
                "--prop" => a.prop = val("--prop"),
                "--tier" => a.tier = val("--tier"),
                "--seed" => a.seed = val("--seed").parse().expect("seed"),
                "--evidence" => a.evidence = val("--evidence").into(),
                "--replay-dir" => a.replay_dir = val("--replay-dir").into(),
                "--replay" => a.replay = Some(val("--replay").into()),
                "--known" => a.known = val("--known").into(),
                "--jobs" => a.jobs = val("--jobs").parse().expect("jobs"),
                "--set" => {
                    let kv = val("--set");
                    let (k, v) = kv.split_once('=').expect("--set k=v");
                    a.extra.insert(k.to_string(), v.to_string());
                }
                _ => a.rest.push(x),
            }
        }
        if a.evidence.as_os_str().is_empty() {
            a.evidence = PathBuf::from(format!("/verif/evidence/{}.json", a.prop));
        }
        if a.replay_dir.as_os_str().is_empty() {
            a.replay_dir = PathBuf::from(format!("/verif/replay/{}", a.prop));
        }
        a
    }

    pub fn thorough(&self) -> bool {
        self.tier == "thorough"
    }

    /// `quick` when the tier is quick, else `thorough`; `--set name=N` overrides both.
    pub fn budget(&self, name: &str, quick: u64, thorough: u64) -> u64 {
        if let Some(v) = self.extra.get(name) {
            return v.parse().expect("numeric --set override");
        }
        if self.thorough() { thorough } else { quick }
    }

    pub fn get(&self, name: &str) -> Option<&str> {
        self.extra.get(name).map(|x| x.as_str())
    }
}

#[derive(Clone, Debug)]
struct Known {
    property: String,
    signature: String,
    status: String,
    what: String,
}

pub struct Run {
    pub args: Args,
    level: String,
    rule: String,
    start: Instant,
    evaluations: AtomicU64,
    distinct: Mutex<HashSet<u64>>,
    samples: Mutex<Vec<Json>>,
    sample_cap: usize,
    counters: Mutex<BTreeMap<String, i64>>,
    sets: Mutex<BTreeMap<String, BTreeSet<String>>>,
    extra: Mutex<Map<String, Json>>,
    assumptions: Mutex<Vec<String>>,
    violations: Mutex<Vec<(String, String, String)>>, // signature, what, replay path
    violation_sigs: Mutex<HashSet<String>>,
    known_seen: Mutex<BTreeMap<String, u64>>,
    inconclusive: Mutex<Vec<String>>,
    notes: Mutex<Vec<String>>,
    known: Vec<Known>,
}

impl Run {
    /// `level`: exploration | fault_enumeration | translation_validation | other
    pub fn new(args: Args, level: &str, rule: &str) -> Run {
        let known = load_known(&args.known, &args.prop);
        Run {
            args,
            level: level.into(),
            rule: rule.into(),
            start: Instant::now(),
            evaluations: AtomicU64::new(0),
            distinct: Mutex::new(HashSet::new()),
            samples: Mutex::new(vec![]),
            sample_cap: 6,
            counters: Mutex::new(BTreeMap::new()),
            sets: Mutex::new(BTreeMap::new()),
            extra: Mutex::new(Map::new()),
            assumptions: Mutex::new(vec![]),
            violations: Mutex::new(vec![]),
            violation_sigs: Mutex::new(HashSet::new()),
            known_seen: Mutex::new(BTreeMap::new()),
            inconclusive: Mutex::new(vec![]),
            notes: Mutex::new(vec![]),
            known,
        }
    }

    pub fn prop(&self) -> &str {
        &self.args.prop
    }
    pub fn seed(&self) -> u64 {
        self.args.seed
    }

    /// One more case generated / execution run.
    pub fn eval(&self) {
        self.evaluations.fetch_add(1, Ordering::Relaxed);
    }
    pub fn evals(&self, n: u64) {
        self.evaluations.fetch_add(n, Ordering::Relaxed);
    }
    /// Record a case as non-trivial; `key` identifies it for de-duplication.
    pub fn nontrivial(&self, key: u64) {
        self.distinct.lock().unwrap().insert(key);
    }
    pub fn nontrivial_str(&self, key: &str) {
        self.nontrivial(hash_str(key));
    }
    pub fn count(&self, key: &str, n: i64) {
        *self.counters.lock().unwrap().entry(key.into()).or_insert(0) += n;
    }
    pub fn get_count(&self, key: &str) -> i64 {
        *self.counters.lock().unwrap().get(key).unwrap_or(&0)
    }
    /// Add `member` to the named set; the evidence reports each set's size and members (capped).
    pub fn seen(&self, set: &str, member: &str) {
        self.sets
            .lock()
            .unwrap()
            .entry(set.into())
            .or_default()
            .insert(member.into());
    }
    pub fn seen_count(&self, set: &str) -> usize {
        self.sets.lock().unwrap().get(set).map(|x| x.len()).unwrap_or(0)
    }
    pub fn sample(&self, v: Json) {
        let mut s = self.samples.lock().unwrap();
        if s.len() < self.sample_cap {
            s.push(v);
        }
    }
    pub fn set_extra(&self, key: &str, v: Json) {
        self.extra.lock().unwrap().insert(key.into(), v);
    }
    pub fn assume(&self, text: &str) {
        self.assumptions.lock().unwrap().push(text.into());
    }
    pub fn note(&self, text: String) {
        let mut n = self.notes.lock().unwrap();
        if n.len() < 40 {
            n.push(text);
        }
    }
    pub fn inconclusive(&self, reason: String) {
        self.inconclusive.lock().unwrap().push(reason);
    }
    pub fn inconclusive_count(&self) -> usize {
        self.inconclusive.lock().unwrap().len()
    }

    /// Report a violation.  `signature` identifies the failing input / call
    /// site / history (stable across runs); if `known_findings.json` lists it
    /// for this property with status "known", a KNOWN-FINDING line is printed
    /// instead.  `replay` is written to the replay directory.
    pub fn violation(&self, signature: &str, what: &str, replay: Json) {
        if let Some(k) = self
            .known
            .iter()
            .find(|k| k.status == "known" && k.signature == signature)
        {
            let mut seen = self.known_seen.lock().unwrap();
            let n = seen.entry(k.signature.clone()).or_insert(0);
            if *n == 0 {
                println!("KNOWN-FINDING: property={} {}", self.args.prop, k.what);
            }
            *n += 1;
            return;
        }
        {
            let mut sigs = self.violation_sigs.lock().unwrap();
            if !sigs.insert(signature.to_string()) {
                self.count("violations_duplicate_signature", 1);
                return;
            }
            if sigs.len() > 25 {
                self.count("violations_not_printed", 1);
                return;
            }
        }
        let _ = std::fs::create_dir_all(&self.args.replay_dir);
        let name = format!("{:016x}.json", hash_str(signature));
        let path = self.args.replay_dir.join(name);
        let body = json!({
            "property": self.args.prop,
            "signature": signature,
            "what": what,
            "seed": self.args.seed,
            "tier": self.args.tier,
            "case": replay,
        });
        let _ = std::fs::write(&path, serde_json::to_string_pretty(&body).unwrap());
        println!(
            "VIOLATION property={} replay={}",
            self.args.prop,
            path.display()
        );
        println!("  what: {}", what.lines().next().unwrap_or(""));
        self.violations.lock().unwrap().push((
            signature.to_string(),
            what.to_string(),
            path.display().to_string(),
        ));
    }

    pub fn violation_count(&self) -> usize {
        self.violations.lock().unwrap().len()
    }

    /// Write the evidence file and exit.  `floors` are (counter-or-set name,
    /// minimum): below a floor the run is inconclusive, not held.
    pub fn finish(&self, floors: &[(&str, i64)]) -> ! {
        let code = self.finish_code(floors);
        std::process::exit(code);
    }

    pub fn finish_code(&self, floors: &[(&str, i64)]) -> i32 {
        let evaluations = self.evaluations.load(Ordering::Relaxed);
        let distinct = self.distinct.lock().unwrap().len() as u64;
        let nviol = self.violation_count();
        let counters = self.counters.lock().unwrap().clone();
        let sets = self.sets.lock().unwrap().clone();

        if nviol == 0 {
            for (name, min) in floors {
                let have = match *name {
                    "evaluations" => evaluations as i64,
                    "distinct_nontrivial" => distinct as i64,
                    n => counters
                        .get(n)
                        .copied()
                        .or_else(|| sets.get(n).map(|s| s.len() as i64))
                        .unwrap_or(0),
                };
                if have < *min {
                    self.inconclusive(format!("floor {name}: observed {have} < required {min}"));
                }
            }
        }
        let inconclusive = self.inconclusive.lock().unwrap().clone();

        let mut cov = Map::new();
        cov.insert("evaluations".into(), json!(evaluations));
        cov.insert("distinct_nontrivial".into(), json!(distinct));
        cov.insert("rule".into(), json!(self.rule));
        cov.insert("samples".into(), Json::Array(self.samples.lock().unwrap().clone()));
        if self.level == "translation_validation" {
            cov.insert(
                "programs".into(),
                json!(counters.get("programs").copied().unwrap_or(distinct as i64)),
            );
            cov.insert(
                "disagreements_checked".into(),
                json!(counters.get("disagreements_checked").copied().unwrap_or(0)),
            );
        }
        for (k, v) in &counters {
            if !cov.contains_key(k) {
                cov.insert(k.clone(), json!(v));
            }
        }
        for (k, v) in &sets {
            let members: Vec<&String> = v.iter().take(64).collect();
            cov.insert(format!("{k}_distinct"), json!(v.len()));
            cov.insert(format!("{k}_members"), json!(members));
        }
        for (k, v) in self.extra.lock().unwrap().iter() {
            cov.insert(k.clone(), v.clone());
        }
        let known_seen = self.known_seen.lock().unwrap().clone();
        let viol: Vec<Json> = self
            .violations
            .lock()
            .unwrap()
            .iter()
            .map(|(s, w, p)| json!({"signature": s, "what": w, "replay": p}))
            .collect();
        let verdict = if nviol > 0 {
            "violated"
        } else if !inconclusive.is_empty() {
            "inconclusive"
        } else {
            "held_on_observed"
        };
        let ev = json!({
            "property_id": self.args.prop,
            "tier": self.args.tier,
            "seed": self.args.seed,
            "level": self.level,
            "coverage": Json::Object(cov),
            "assumptions": self.assumptions.lock().unwrap().clone(),
            "wall_s": self.start.elapsed().as_secs_f64(),
            "violations": nviol,
            "violation_list": viol,
            "verdict": verdict,
            "inconclusive_cases": inconclusive,
            "known_findings_seen": known_seen,
            "notes": self.notes.lock().unwrap().clone(),
        });
        if let Some(dir) = self.args.evidence.parent() {
            let _ = std::fs::create_dir_all(dir);
        }
        std::fs::write(&self.args.evidence, serde_json::to_string_pretty(&ev).unwrap())
            .expect("write evidence");

        println!(
            "[{}] tier={} seed={} evaluations={} distinct_nontrivial={} violations={} known_findings={} inconclusive={} wall={:.1}s",
            self.args.prop,
            self.args.tier,
            self.args.seed,
            evaluations,
            distinct,
            nviol,
            known_seen.len(),
            inconclusive.len(),
            self.start.elapsed().as_secs_f64()
        );
        if nviol > 0 {
            1
        } else if !inconclusive.is_empty() {
            for r in inconclusive.iter().take(10) {
                println!("INCONCLUSIVE property={} reason={}", self.args.prop, r);
            }
            2
        } else {
            0
        }
    }
}

fn load_known(path: &PathBuf, prop: &str) -> Vec<Known> {
    let Ok(text) = std::fs::read_to_string(path) else {
        return vec![];
    };
    let Ok(v) = serde_json::from_str::<Json>(&text) else {
        eprintln!("warning: cannot parse {}", path.display());
        return vec![];
    };
    let mut out = vec![];
    if let Some(list) = v.get("findings").and_then(|x| x.as_array()) {
        for f in list {
            let g = |k: &str| f.get(k).and_then(|x| x.as_str()).unwrap_or("").to_string();
            if g("property") == prop {
                out.push(Known {
                    property: g("property"),
                    signature: g("signature"),
                    status: g("status"),
                    what: g("what"),
                });
            }
        }
    }
    let _ = out.iter().map(|k| &k.property).count();
    out
}
