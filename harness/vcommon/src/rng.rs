//! SplitMix64. Case `i` of property `P` at seed `S` uses `Rng::for_case(S, P, i)`,
//! so cases are independent of worker count and order.

#[derive(Clone, Debug)]
pub struct Rng(pub u64);

pub fn mix64(mut z: u64) -> u64 {
    z = z.wrapping_add(0x9E37_79B9_7F4A_7C15);
    z = (z ^ (z >> 30)).wrapping_mul(0xBF58_476D_1CE4_E5B9);
    z = (z ^ (z >> 27)).wrapping_mul(0x94D0_49BB_1331_11EB);
    z ^ (z >> 31)
}

pub fn hash_str(s: &str) -> u64 {
    hash_bytes(s.as_bytes())
}

pub fn hash_bytes(b: &[u8]) -> u64 {
    // FNV-1a then a finaliser; only used for de-duplication and signatures.
    let mut h: u64 = 0xcbf2_9ce4_8422_2325;
    for &c in b {
        h ^= c as u64;
        h = h.wrapping_mul(0x0000_0100_0000_01B3);
    }
    mix64(h)
}

impl Rng {
    pub fn new(seed: u64) -> Self {
        Rng(mix64(seed ^ 0x5EED_5EED_5EED_5EED))
    }

    pub fn for_case(seed: u64, prop: &str, case: u64) -> Self {
        Rng(mix64(
            mix64(seed) ^ hash_str(prop).rotate_left(17) ^ mix64(case.wrapping_mul(0x9E37_79B9)),
        ))
    }

    pub fn next_u64(&mut self) -> u64 {
        self.0 = self.0.wrapping_add(0x9E37_79B9_7F4A_7C15);
        let mut z = self.0;
        z = (z ^ (z >> 30)).wrapping_mul(0xBF58_476D_1CE4_E5B9);
        z = (z ^ (z >> 27)).wrapping_mul(0x94D0_49BB_1331_11EB);
        z ^ (z >> 31)
    }

    /// Uniform in `0..n` (n > 0).
    pub fn below(&mut self, n: u64) -> u64 {
        debug_assert!(n > 0);
        if n == 0 {
            return 0;
        }
        self.next_u64() % n
    }

    pub fn range(&mut self, lo: i64, hi_incl: i64) -> i64 {
        lo + self.below((hi_incl - lo + 1) as u64) as i64
    }

    pub fn usize(&mut self, n: usize) -> usize {
        self.below(n as u64) as usize
    }

    pub fn bool(&mut self) -> bool {
        self.next_u64() & 1 == 1
    }

    /// True with probability `num/den`.
    pub fn chance(&mut self, num: u64, den: u64) -> bool {
        self.below(den) < num
    }

    pub fn pick<'a, T>(&mut self, xs: &'a [T]) -> &'a T {
        &xs[self.usize(xs.len())]
    }

    pub fn shuffle<T>(&mut self, xs: &mut [T]) {
        for i in (1..xs.len()).rev() {
            let j = self.usize(i + 1);
            xs.swap(i, j);
        }
    }

    pub fn fork(&mut self) -> Rng {
        Rng(mix64(self.next_u64()))
    }
}
