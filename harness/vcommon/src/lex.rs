//! A small, independent, tolerant lexer for Veryl and SystemVerilog text.
//! It shares no code with `veryl_parser`; oracles use it to compare token
//! streams, and the mutators use it to change layout between tokens.

#[derive(Clone, Debug, PartialEq, Eq, Hash)]
pub enum Kind {
    Ws,
    LineComment,
    BlockComment,
    Str,
    Number,
    Ident,
    Op,
    /// `{{{ ... }}}` embed body, kept as one opaque atom
    Embed,
    Other,
}

#[derive(Clone, Debug, PartialEq, Eq)]
pub struct Tok {
    pub kind: Kind,
    pub text: String,
    /// byte offset in the source
    pub pos: usize,
}

const OPS: &[&str] = &[
    "<<<=", ">>>=", "<<<", ">>>", "<<=", ">>=", "::<", "..=", "==?", "!=?", "'{", "{{{", "}}}",
    "+=", "-=", "*=", "/=", "%=", "&=", "|=", "^=", "<<", ">>", "==", "!=", "<=", ">=", "<:",
    ">:", "||", "&&", "~^", "^~", "~&", "~|", "**", "::", "..", "->", "<-", "-:", "+:", "<>",
    "#[", "\\{", "\\}", "++", "--",
];

fn is_ident_start(c: char) -> bool {
    c.is_ascii_alphabetic() || c == '_' || c == '$'
}
fn is_ident_cont(c: char) -> bool {
    c.is_ascii_alphanumeric() || c == '_' || c == '$'
}

/// Lex `src` completely; every byte belongs to exactly one token.
/// `sv` selects SystemVerilog flavour (only affects embed handling).
pub fn lex(src: &str, sv: bool) -> Vec<Tok> {
    let b = src.as_bytes();
    let mut out = vec![];
    let mut i = 0usize;
    let n = b.len();
    while i < n {
        let rest = &src[i..];
        let c = rest.chars().next().unwrap();
        let start = i;
        let kind;
        if c.is_whitespace() {
            let mut j = i;
            for ch in rest.chars() {
                if ch.is_whitespace() {
                    j += ch.len_utf8();
                } else {
                    break;
                }
            }
            i = j;
            kind = Kind::Ws;
        } else if rest.starts_with("//") {
            let end = rest.find('\n').map(|k| i + k).unwrap_or(n);
            i = end;
            kind = Kind::LineComment;
        } else if rest.starts_with("/*") {
            let end = rest[2..].find("*/").map(|k| i + 2 + k + 2).unwrap_or(n);
            i = end;
            kind = Kind::BlockComment;
        } else if c == '"' {
            let mut j = i + 1;
            while j < n {
                if b[j] == b'\\' {
                    j += 2;
                    continue;
                }
                if b[j] == b'"' {
                    j += 1;
                    break;
                }
                j += 1;
            }
            i = j.min(n);
            kind = Kind::Str;
        } else if !sv && rest.starts_with("{{{") {
            let end = rest.find("}}}").map(|k| i + k + 3).unwrap_or(n);
            i = end;
            kind = Kind::Embed;
        } else if c.is_ascii_digit()
            || (c == '\'' && rest.len() > 1 && {
                let d = rest.as_bytes()[1] as char;
                matches!(d, 's' | 'b' | 'o' | 'd' | 'h' | 'S' | 'B' | 'O' | 'D' | 'H' | '0' | '1' | 'x' | 'z' | 'X' | 'Z')
                    && !rest.starts_with("'{")
            })
        {
            // number: digits/underscores, optional fraction/exponent, optional based part
            let mut j = i;
            while j < n && (b[j].is_ascii_digit() || b[j] == b'_') {
                j += 1;
            }
            if j + 1 < n && b[j] == b'.' && b[j + 1].is_ascii_digit() {
                j += 1;
                while j < n && (b[j].is_ascii_digit() || b[j] == b'_') {
                    j += 1;
                }
                if j < n && (b[j] == b'e' || b[j] == b'E') {
                    let mut k = j + 1;
                    if k < n && (b[k] == b'+' || b[k] == b'-') {
                        k += 1;
                    }
                    if k < n && b[k].is_ascii_digit() {
                        j = k;
                        while j < n && (b[j].is_ascii_digit() || b[j] == b'_') {
                            j += 1;
                        }
                    }
                }
            }
            if j < n && b[j] == b'\'' {
                let mut k = j + 1;
                if k < n && (b[k] == b's' || b[k] == b'S') {
                    k += 1;
                }
                if k < n && matches!(b[k], b'b' | b'o' | b'd' | b'h' | b'B' | b'O' | b'D' | b'H') {
                    k += 1;
                    let s = k;
                    while k < n && (b[k].is_ascii_hexdigit() || matches!(b[k], b'x' | b'z' | b'X' | b'Z' | b'_' | b'?')) {
                        k += 1;
                    }
                    if k > s {
                        j = k;
                    }
                } else if j + 1 < n && matches!(b[j + 1], b'0' | b'1' | b'x' | b'z' | b'X' | b'Z') {
                    // all-bit literal '0 '1 'x 'z (optionally sized)
                    let k2 = j + 2;
                    if k2 >= n || !(b[k2].is_ascii_alphanumeric() || b[k2] == b'_') {
                        j = k2;
                    }
                }
            }
            if j == i {
                j = i + c.len_utf8();
            }
            i = j;
            kind = Kind::Number;
        } else if is_ident_start(c) || (rest.starts_with("r#") && rest.len() > 2) {
            let mut j = i;
            if rest.starts_with("r#") {
                j += 2;
            }
            while j < n && is_ident_cont(b[j] as char) {
                j += 1;
            }
            if j == i {
                j = i + 1;
            }
            i = j;
            kind = Kind::Ident;
        } else {
            let mut matched = None;
            for op in OPS {
                if rest.starts_with(op) {
                    matched = Some(op.len());
                    break;
                }
            }
            match matched {
                Some(l) => {
                    i += l;
                    kind = Kind::Op;
                }
                None => {
                    i += c.len_utf8();
                    kind = if c.is_ascii_punctuation() { Kind::Op } else { Kind::Other };
                }
            }
        }
        out.push(Tok {
            kind,
            text: src[start..i].to_string(),
            pos: start,
        });
    }
    out
}

/// Significant tokens only (no whitespace, no comments).
pub fn significant(src: &str, sv: bool) -> Vec<String> {
    lex(src, sv)
        .into_iter()
        .filter(|t| !matches!(t.kind, Kind::Ws | Kind::LineComment | Kind::BlockComment))
        .map(|t| t.text)
        .collect()
}

/// Comments only, right-trimmed.
pub fn comments(src: &str, sv: bool) -> Vec<String> {
    lex(src, sv)
        .into_iter()
        .filter(|t| matches!(t.kind, Kind::LineComment | Kind::BlockComment))
        .map(|t| t.text.trim_end().to_string())
        .collect()
}

/// (line, char column), both 1-based, of byte offset `pos` in `src`.
pub fn line_col(src: &str, pos: usize) -> (u32, u32) {
    let mut line = 1u32;
    let mut col = 1u32;
    for (i, ch) in src.char_indices() {
        if i >= pos {
            break;
        }
        if ch == '\n' {
            line += 1;
            col = 1;
        } else {
            col += 1;
        }
    }
    (line, col)
}
