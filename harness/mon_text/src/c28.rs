//! C28 — the pretty printer keeps content and records true anchors.
//!
//! Decided on HARVESTED documents: `veryl_pretty::verif` (cfg veryl_verif) logs every
//! `(Doc, RenderOpts, Rendered)` that passes through `render_inner` while the real formatter and
//! the real emitter run over corpus texts × layout mutations × settings.  Per triple:
//!
//! 1. content — the non-whitespace character stream of `Rendered.text` equals the document-order
//!    concatenation of the atom texts (Text / Anchored / comment texts), every `IfBreak` atom
//!    optional (set-of-positions matching; a document with two derivations is "ambiguous" and
//!    its IfBreak atoms are not judged);
//! 2. anchors — `Rendered.anchors` are exactly the anchor-bearing atoms in document order, and
//!    each one's text starts at its recorded (dst_line, dst_column [chars]) — and that place is the
//!    occurrence the atom was matched to in step 1;
//! 3. with `strip_trailing_whitespace`, no output line ends in a blank;
//! 4. break-only text — the mode of a group is READ OFF THE OUTPUT (how its direct Line/Hardline
//!    children were rendered between two plain atoms), never re-derived from the fits rule; a
//!    group whose direct lines are rendered both ways is a violation; an `IfBreak` whose group
//!    mode is known must be present iff Break; `IfBreakPad`/`IfFlatPad` are judged through the
//!    exact width of a same-line gap between two plain atoms.  What cannot be decided from the
//!    output is counted as not judged.

use crate::util::*;
use std::sync::Arc;
use vcommon::mutate::{LayoutOpts, layout};
use vcommon::pool::{STACK_64M, fresh_thread, par_cases};
use vcommon::rng::hash_str;
use vcommon::{Args, Json, Rng, Run, json};
use veryl_pretty::Doc;
use veryl_pretty::render::{RenderOpts, Rendered};

#[derive(Clone, Copy, Debug, PartialEq, Eq)]
enum Ak {
    Text,
    Anchored,
    Comment,
    IfBreak,
}

#[derive(Clone, Copy, Debug, PartialEq, Eq)]
enum Pk {
    Always,
    IfBreak,
    IfFlat,
}

#[derive(Clone, Copy, Debug, PartialEq, Eq)]
enum Sk {
    Top,
    Group,
    ForceFlat,
}

#[derive(Clone, Copy, Debug, PartialEq, Eq)]
enum Mode {
    Break,
    Flat,
    Unknown,
}

enum It {
    Atom { raw: String, ns: Vec<char>, kind: Ak, scope: usize, anchored: bool },
    Line { scope: usize },
    Pad { w: u32, kind: Pk, scope: usize },
}

struct Scope {
    parent: Option<usize>,
    kind: Sk,
}

fn flatten(doc: &Doc, scope: usize, scopes: &mut Vec<Scope>, out: &mut Vec<It>) {
    let ns = |s: &str| -> Vec<char> { s.chars().filter(|c| !c.is_whitespace()).collect() };
    match doc {
        Doc::Nil => {}
        Doc::Text(s) => out.push(It::Atom { raw: s.to_string(), ns: ns(s), kind: Ak::Text, scope, anchored: false }),
        Doc::Concat(items) => {
            for d in items.iter() {
                flatten(d, scope, scopes, out);
            }
        }
        Doc::Indent(_, inner) => flatten(inner, scope, scopes, out),
        Doc::Group(inner) => {
            scopes.push(Scope { parent: Some(scope), kind: Sk::Group });
            let id = scopes.len() - 1;
            flatten(inner, id, scopes, out);
        }
        Doc::ForceFlat(inner) => {
            scopes.push(Scope { parent: Some(scope), kind: Sk::ForceFlat });
            let id = scopes.len() - 1;
            flatten(inner, id, scopes, out);
        }
        Doc::Line(_) | Doc::Hardline | Doc::DedentHardline(_) => out.push(It::Line { scope }),
        Doc::Comments(cs) => {
            for c in cs.iter() {
                out.push(It::Atom {
                    raw: c.text.to_string(),
                    ns: ns(&c.text),
                    kind: Ak::Comment,
                    scope,
                    anchored: c.src_line != 0 && c.src_column != 0,
                });
            }
        }
        Doc::IfBreak(s) => out.push(It::Atom { raw: s.to_string(), ns: ns(s), kind: Ak::IfBreak, scope, anchored: false }),
        Doc::IfBreakPad(w) => out.push(It::Pad { w: *w, kind: Pk::IfBreak, scope }),
        Doc::Pad(w) => out.push(It::Pad { w: *w, kind: Pk::Always, scope }),
        Doc::IfFlatPad(w) => out.push(It::Pad { w: *w, kind: Pk::IfFlat, scope }),
        Doc::Anchored(a) => out.push(It::Atom { raw: a.text.to_string(), ns: ns(&a.text), kind: Ak::Anchored, scope, anchored: true }),
    }
}

#[derive(Default)]
pub struct Verdict {
    pub counts: Vec<(String, i64)>,
    /// (signature, description)
    pub bad: Vec<(String, String)>,
}

impl Verdict {
    fn c(&mut self, k: &str, n: i64) {
        self.counts.push((k.to_string(), n));
    }
}

fn ctx(text: &str, off: usize) -> String {
    let mut lo = off.saturating_sub(40);
    while !text.is_char_boundary(lo) {
        lo -= 1;
    }
    let mut hi = (off + 40).min(text.len());
    while !text.is_char_boundary(hi) {
        hi += 1;
    }
    format!("{:?}", &text[lo..hi])
}

/// Judge one harvested triple.
pub fn judge_doc(doc: &Doc, opts: &RenderOpts, rendered: &Rendered, who: &str) -> Verdict {
    let mut v = Verdict::default();
    let text = &rendered.text;
    let mut scopes = vec![Scope { parent: None, kind: Sk::Top }];
    let mut items = vec![];
    flatten(doc, 0, &mut scopes, &mut items);
    v.c("documents_judged", 1);
    v.c(&format!("documents_from_{who}"), 1);

    // ---------- 1. content -------------------------------------------------------------
    let out_ns: Vec<(char, usize)> = text.char_indices().filter(|(_, c)| !c.is_whitespace()).map(|(i, c)| (c, i)).collect();
    let matches_at = |ns: &Vec<char>, p: usize| -> bool { p + ns.len() <= out_ns.len() && ns.iter().zip(&out_ns[p..]).all(|(a, b)| *a == b.0) };
    let atom_idx: Vec<usize> = items.iter().enumerate().filter(|(_, it)| matches!(it, It::Atom { ns, .. } if !ns.is_empty())).map(|(i, _)| i).collect();
    v.c("atoms", atom_idx.len() as i64);
    let mut sets: Vec<Vec<usize>> = Vec::with_capacity(atom_idx.len() + 1);
    sets.push(vec![0]);
    let mut dead_at: Option<usize> = None;
    for (k, &ii) in atom_idx.iter().enumerate() {
        let It::Atom { ns, kind, .. } = &items[ii] else { unreachable!() };
        let mut next: Vec<usize> = vec![];
        for &p in &sets[k] {
            if matches_at(ns, p) {
                next.push(p + ns.len());
            }
            if *kind == Ak::IfBreak {
                next.push(p);
            }
        }
        next.sort_unstable();
        next.dedup();
        if next.is_empty() {
            dead_at = Some(k);
            break;
        }
        sets.push(next);
    }
    let total = out_ns.len();
    if let Some(k) = dead_at {
        let ii = atom_idx[k];
        let It::Atom { raw, kind, .. } = &items[ii] else { unreachable!() };
        let p = *sets[k].iter().max().unwrap();
        let off = out_ns.get(p).map(|x| x.1).unwrap_or(text.len());
        v.bad.push((
            format!("content:{who}:atom-not-found"),
            format!("atom #{k} ({kind:?} {:?}) is not where document order puts it; output there: {}", clip(raw, 40), ctx(text, off)),
        ));
        return v;
    }
    if !sets.last().unwrap().contains(&total) {
        let p = *sets.last().unwrap().iter().max().unwrap();
        let off = out_ns.get(p).map(|x| x.1).unwrap_or(text.len());
        v.bad.push((
            format!("content:{who}:extra-output"),
            format!("all atoms matched but output continues with text no atom accounts for: {}", ctx(text, off)),
        ));
        return v;
    }
    v.c("nonblank_chars_matched", total as i64);
    // backward pass: one derivation; note ambiguity
    let n = atom_idx.len();
    let mut start: Vec<usize> = vec![0; n];
    let mut taken: Vec<bool> = vec![true; n];
    let mut ambiguous = false;
    let mut cur = total;
    for k in (0..n).rev() {
        let It::Atom { ns, kind, .. } = &items[atom_idx[k]] else { unreachable!() };
        let can_take = cur >= ns.len() && sets[k].binary_search(&(cur - ns.len())).is_ok() && matches_at(ns, cur - ns.len());
        let can_skip = *kind == Ak::IfBreak && sets[k].binary_search(&cur).is_ok();
        if can_take && can_skip {
            ambiguous = true;
        }
        if can_take {
            cur -= ns.len();
            start[k] = cur;
            taken[k] = true;
        } else {
            start[k] = cur;
            taken[k] = false;
        }
    }
    if ambiguous {
        v.c("documents_with_ambiguous_alignment", 1);
    }
    // byte ranges of matched atoms, by item index
    let mut range: Vec<Option<(usize, usize)>> = vec![None; items.len()];
    for k in 0..n {
        if taken[k] {
            let It::Atom { ns, .. } = &items[atom_idx[k]] else { unreachable!() };
            let s = out_ns[start[k]].1;
            let last = out_ns[start[k] + ns.len() - 1];
            range[atom_idx[k]] = Some((s, last.1 + last.0.len_utf8()));
        }
    }

    // ---------- 2. anchors -------------------------------------------------------------
    let bearers: Vec<usize> = items.iter().enumerate().filter(|(_, it)| matches!(it, It::Atom { anchored: true, .. })).map(|(i, _)| i).collect();
    if bearers.len() != rendered.anchors.len() {
        v.bad.push((
            format!("anchors:{who}:count"),
            format!("document has {} anchor-bearing atoms, renderer recorded {} anchors", bearers.len(), rendered.anchors.len()),
        ));
        return v;
    }
    let mut line_starts = vec![0usize];
    for (i, b) in text.bytes().enumerate() {
        if b == b'\n' {
            line_starts.push(i + 1);
        }
    }
    for (k, &ii) in bearers.iter().enumerate() {
        let a = &rendered.anchors[k];
        let It::Atom { raw, ns, .. } = &items[ii] else { unreachable!() };
        if *raw != *a.text {
            v.bad.push((format!("anchors:{who}:text"), format!("anchor #{k} carries {:?} but the atom is {:?}", clip(&a.text, 40), clip(raw, 40))));
            return v;
        }
        if ns.is_empty() {
            v.c("anchors_with_blank_text_not_judged", 1);
            continue;
        }
        let off = line_starts.get(a.dst_line as usize - 1).and_then(|ls| {
            let line_end = text[*ls..].find('\n').map(|x| ls + x).unwrap_or(text.len());
            let line = &text[*ls..line_end];
            let want = a.dst_column as usize - 1;
            let mut cnt = 0;
            for (bi, _) in line.char_indices() {
                if cnt == want {
                    return Some(ls + bi);
                }
                cnt += 1;
            }
            (cnt == want).then_some(line_end)
        });
        let lead: usize = raw.chars().take_while(|c| c.is_whitespace()).map(|c| c.len_utf8()).sum();
        let sits = off.is_some_and(|o| {
            if opts.strip_trailing_whitespace {
                // only the non-blank part is guaranteed to survive stripping
                text[o..].starts_with(raw.trim_end_matches([' ', '\t']).split('\n').next().unwrap_or(""))
            } else {
                text[o..].starts_with(raw.as_str())
            }
        });
        if !sits {
            let real = range[ii].map(|r| r.0);
            let (rl, rc) = real.map(|r| vcommon::lex::line_col(text, r.saturating_sub(lead))).unwrap_or((0, 0));
            v.bad.push((
                format!("anchor:{who}:text-not-at-recorded-position"),
                format!(
                    "anchor #{k} {:?} is recorded at {}:{} but was written at {}:{}; output at the recorded place: {}",
                    clip(raw, 40),
                    a.dst_line,
                    a.dst_column,
                    rl,
                    rc,
                    off.map(|o| ctx(text, o)).unwrap_or_else(|| "<outside the output>".into())
                ),
            ));
            return v;
        }
        if !ambiguous
            && let (Some(o), Some(r)) = (off, range[ii])
            && o + lead != r.0
        {
            v.bad.push((
                format!("anchor:{who}:recorded-position-is-another-occurrence"),
                format!("anchor #{k} {:?} is recorded at {}:{} (byte {o}) but document order puts the atom at byte {}", clip(raw, 40), a.dst_line, a.dst_column, r.0),
            ));
            return v;
        }
        v.c("anchors_checked", 1);
        if !raw.is_ascii()
            && !raw.contains('\n')
            && !matches!(&items[ii], It::Atom { kind: Ak::Comment, .. })
            && rendered.anchors.get(k + 1).is_some_and(|nx| nx.dst_line == a.dst_line)
        {
            v.c("anchored_tokens_with_multibyte_text_followed_by_tokens", 1);
        }
        if raw.contains('\n') {
            v.c("multi_line_anchors_checked", 1);
        }
    }

    // ---------- 3. trailing blanks -----------------------------------------------------
    if opts.strip_trailing_whitespace {
        v.c("documents_with_stripping", 1);
        for (ln, l) in text.split(opts.newline).enumerate() {
            if l.ends_with([' ', '\t']) {
                v.bad.push((format!("strip:{who}:trailing-blank"), format!("output line {} ends in a blank although stripping is on: {:?}", ln + 1, clip(l, 80))));
                return v;
            }
        }
    }

    // ---------- 4. group modes read off the output ---------------------------------------
    // neighbours of an item, skipping pads, blank atoms and absent IfBreaks; None when a line,
    // a comment or the document edge comes first, or when the neighbour's own text has blanks
    // at the facing edge.
    let plain_prev = |i: usize| -> Option<usize> {
        let mut j = i;
        while j > 0 {
            j -= 1;
            match &items[j] {
                It::Pad { .. } => continue,
                It::Line { .. } => return None,
                It::Atom { ns, kind, raw, .. } => {
                    if ns.is_empty() {
                        continue;
                    }
                    if *kind == Ak::IfBreak && range[j].is_none() {
                        continue;
                    }
                    if *kind == Ak::Comment || raw.ends_with(char::is_whitespace) || range[j].is_none() {
                        return None;
                    }
                    return Some(j);
                }
            }
        }
        None
    };
    let plain_next = |i: usize| -> Option<usize> {
        let mut j = i;
        while j + 1 < items.len() {
            j += 1;
            match &items[j] {
                It::Pad { .. } => continue,
                It::Line { .. } => return None,
                It::Atom { ns, kind, raw, .. } => {
                    if ns.is_empty() {
                        continue;
                    }
                    if *kind == Ak::IfBreak && range[j].is_none() {
                        continue;
                    }
                    if *kind == Ak::Comment || raw.starts_with(char::is_whitespace) || range[j].is_none() {
                        return None;
                    }
                    return Some(j);
                }
            }
        }
        None
    };
    // observed rendering of direct lines per scope: (broken seen, flat seen)
    let mut obs: Vec<(u32, u32)> = vec![(0, 0); scopes.len()];
    let mut lines_total = 0i64;
    let mut lines_observed = 0i64;
    if !ambiguous {
        for (i, it) in items.iter().enumerate() {
            let It::Line { scope } = it else { continue };
            lines_total += 1;
            let (Some(a), Some(b)) = (plain_prev(i), plain_next(i)) else { continue };
            // exactly one line between a and b?
            if items[a + 1..b].iter().filter(|x| matches!(x, It::Line { .. })).count() != 1 {
                continue;
            }
            let gap = &text[range[a].unwrap().1..range[b].unwrap().0];
            lines_observed += 1;
            if gap.contains('\n') {
                obs[*scope].0 += 1;
            } else {
                obs[*scope].1 += 1;
            }
        }
    }
    v.c("lines_in_documents", lines_total);
    v.c("lines_whose_rendering_was_observed", lines_observed);
    let mut mode: Vec<Mode> = vec![Mode::Unknown; scopes.len()];
    for s in 0..scopes.len() {
        let parent_mode = scopes[s].parent.map(|p| mode[p]).unwrap_or(Mode::Break);
        let (b, f) = obs[s];
        if b > 0 && f > 0 {
            v.bad.push((
                format!("group:{who}:direct-lines-rendered-both-ways"),
                format!("a {:?} scope has {b} direct line(s) rendered as newlines and {f} rendered flat", scopes[s].kind),
            ));
            return v;
        }
        mode[s] = match scopes[s].kind {
            Sk::Top => Mode::Break,
            Sk::ForceFlat => Mode::Flat,
            Sk::Group => {
                if parent_mode == Mode::Flat {
                    Mode::Flat
                } else if b > 0 {
                    Mode::Break
                } else if f > 0 {
                    Mode::Flat
                } else {
                    Mode::Unknown
                }
            }
        };
        if mode[s] == Mode::Flat && b > 0 {
            v.bad.push((
                format!("group:{who}:line-broken-inside-flat-scope"),
                format!("a {:?} scope inside a flat scope has {b} direct line(s) rendered as newlines", scopes[s].kind),
            ));
            return v;
        }
        match (scopes[s].kind, mode[s]) {
            (Sk::Group, Mode::Break) => v.c("groups_observed_broken", 1),
            (Sk::Group, Mode::Flat) => v.c("groups_observed_flat", 1),
            (Sk::Group, Mode::Unknown) => v.c("groups_mode_not_observable", 1),
            _ => {}
        }
    }
    // IfBreak atoms
    if !ambiguous {
        for (k, &ii) in atom_idx.iter().enumerate() {
            let It::Atom { kind: Ak::IfBreak, scope, raw, .. } = &items[ii] else { continue };
            match mode[*scope] {
                Mode::Unknown => v.c("ifbreak_atoms_not_judged_mode_unknown", 1),
                m => {
                    let present = taken[k];
                    if present != (m == Mode::Break) {
                        let off = out_ns.get(start[k]).map(|x| x.1).unwrap_or(text.len());
                        v.bad.push((
                            format!("ifbreak:{who}:{}", if present { "present-in-flat-group" } else { "absent-in-broken-group" }),
                            format!("IfBreak({raw:?}) is {} although its scope rendered {m:?}; output there: {}", if present { "present" } else { "absent" }, ctx(text, off)),
                        ));
                        return v;
                    }
                    v.c(if present { "ifbreak_atoms_judged_present" } else { "ifbreak_atoms_judged_absent" }, 1);
                }
            }
        }
        // pads: exact width of same-line gaps between two plain atoms
        let mut i = 0;
        while i < items.len() {
            if !matches!(items[i], It::Pad { .. }) {
                i += 1;
                continue;
            }
            let (a, b) = (plain_prev(i), plain_next(i));
            let mut j = i;
            while j < items.len() && !matches!(&items[j], It::Atom { ns, .. } if !ns.is_empty()) && !matches!(items[j], It::Line { .. }) {
                j += 1;
            }
            let next_i = j.max(i + 1);
            if let (Some(a), Some(b)) = (a, b) {
                let gap = &text[range[a].unwrap().1..range[b].unwrap().0];
                let mut expected = 0usize;
                let mut known = !gap.contains('\n');
                let mut gated = 0;
                for it in &items[a + 1..b] {
                    match it {
                        It::Pad { w, kind, scope } => match (kind, mode[*scope]) {
                            (Pk::Always, _) => expected += *w as usize,
                            (_, Mode::Unknown) => known = false,
                            (Pk::IfBreak, m) => {
                                gated += 1;
                                if m == Mode::Break {
                                    expected += *w as usize
                                }
                            }
                            (Pk::IfFlat, m) => {
                                gated += 1;
                                if m == Mode::Flat {
                                    expected += *w as usize
                                }
                            }
                        },
                        It::Atom { raw, ns, .. } if ns.is_empty() => {
                            if raw.contains('\n') {
                                known = false;
                            }
                            expected += raw.chars().count();
                        }
                        It::Atom { .. } => {} // absent IfBreak
                        It::Line { .. } => known = false,
                    }
                }
                if known {
                    let got = gap.chars().count();
                    if got != expected {
                        v.bad.push((
                            format!("pad:{who}:gap-width"),
                            format!(
                                "gap of {got} blanks where pads and blank texts (given the observed group modes) add up to {expected}; output: {}",
                                ctx(text, range[a].unwrap().1)
                            ),
                        ));
                        return v;
                    }
                    v.c("pad_gaps_judged", 1);
                    if gated > 0 {
                        v.c("pad_gaps_with_break_or_flat_gated_pads_judged", 1);
                    }
                } else {
                    v.c("pad_gaps_not_judged", 1);
                }
            } else {
                v.c("pad_gaps_not_judged", 1);
            }
            i = next_i;
        }
    }
    v
}

/// Harvest the documents the formatter and the emitter build for one (text, setting).
fn harvest(text: &str, setting: &Setting, strip_comments: bool) -> Vec<(String, veryl_pretty::verif::RenderRecord)> {
    let mut out = vec![];
    veryl_pretty::verif::enable(true);
    let _ = veryl_pretty::verif::take();
    let f = front(text, setting, true);
    if f.parse_error.is_some() {
        veryl_pretty::verif::enable(false);
        return out;
    }
    for r in veryl_pretty::verif::take() {
        out.push(("formatter".to_string(), r));
    }
    veryl_pretty::verif::enable(false);
    let _ = strip_comments;
    out
}

fn harvest_emit(text: &str, setting: &Setting, strip_comments: bool) -> Vec<(String, veryl_pretty::verif::RenderRecord)> {
    let md = setting.metadata(&format!("strip_comments = {strip_comments}"));
    let Ok(a) = vcommon::pipeline::analyze_one(text, &md) else { return vec![] };
    veryl_pretty::verif::enable(true);
    let _ = veryl_pretty::verif::take();
    let _ = a.emit_with(0, &md);
    let recs = veryl_pretty::verif::take();
    veryl_pretty::verif::enable(false);
    recs.into_iter().map(|r| ("emitter".to_string(), r)).collect()
}

#[derive(Clone, Debug, Default)]
struct Sab(Option<String>);

fn sabotage(s: &Sab, rec: &mut veryl_pretty::verif::RenderRecord) {
    match s.0.as_deref() {
        Some("drop_char") => {
            // lose one identifier character in the middle of the output
            let t = &rec.rendered.text;
            if let Some((i, c)) = t.char_indices().skip(t.len() / 2).find(|(_, c)| c.is_ascii_alphabetic()) {
                let mut n = t[..i].to_string();
                n.push_str(&t[i + c.len_utf8()..]);
                rec.rendered.text = n;
            }
        }
        Some("anchor_col") => {
            let n = rec.rendered.anchors.len();
            if n > 0 {
                rec.rendered.anchors[n / 2].dst_column += 1;
            }
        }
        Some("mb_cols") => {
            // what a renderer that advances by bytes instead of characters would record
            let mut extra: std::collections::HashMap<u32, u32> = Default::default();
            for a in rec.rendered.anchors.iter_mut() {
                let add = *extra.get(&a.dst_line).unwrap_or(&0);
                a.dst_column += add;
                if !a.text.contains('\n') && !a.text.starts_with("//") && !a.text.starts_with("/*") {
                    *extra.entry(a.dst_line).or_insert(0) += (a.text.len() - a.text.chars().count()) as u32;
                }
            }
        }
        Some("ifbreak") => {
            // put a trailing comma before a `)` of a list that was rendered flat; the place is
            // searched so that the insertion lands on an (absent) IfBreak(",") site
            let t = rec.rendered.text.clone();
            for (i, _) in t.match_indices(')').take(300) {
                let mut cand = t.clone();
                cand.insert(i, ',');
                let r = Rendered { text: cand.clone(), anchors: vec![] };
                let mut d = rec.rendered.clone();
                d.text = cand;
                let v = judge_doc(&rec.doc, &rec.opts, &Rendered { anchors: rec.rendered.anchors.clone(), ..r }, "probe");
                if v.bad.iter().any(|(s, _)| s.starts_with("ifbreak:")) {
                    rec.rendered = d;
                    break;
                }
            }
        }
        Some("pad") => {
            // widen one alignment gap (two or more blanks between two non-blank characters) by one
            let t = rec.rendered.text.clone();
            let b = t.as_bytes();
            let mut cands = vec![];
            for i in 1..b.len().saturating_sub(2) {
                if b[i] == b' ' && b[i + 1] == b' ' && b[i - 1] != b' ' && b[i - 1] != b'\n' {
                    cands.push(i);
                }
            }
            for i in cands.into_iter().take(200) {
                let mut cand = t.clone();
                cand.insert(i, ' ');
                let probe = Rendered { text: cand.clone(), anchors: vec![] };
                let v = judge_doc(&rec.doc, &rec.opts, &Rendered { anchors: rec.rendered.anchors.clone(), ..probe }, "probe");
                if v.bad.iter().any(|(s, _)| s.starts_with("pad:")) {
                    rec.rendered.text = cand;
                    break;
                }
            }
        }
        Some("trailing_blank") => {
            if let Some(i) = rec.rendered.text.find('\n') {
                rec.rendered.text.insert(i, ' ');
            }
        }
        _ => {}
    }
}

fn judge_case(name: &str, input: &str, setting: &Setting, strip: bool, sab: &Sab) -> CaseReport {
    let mut r = CaseReport::default();
    let label = format!("{},strip_comments={strip}", setting.label());
    let mut all: Vec<Verdict> = vec![];
    let (t, s) = (input.to_string(), setting.clone());
    let sab1 = sab.clone();
    let fmt_part = fresh_thread(STACK_64M, move || {
        let mut vs = vec![];
        for (who, mut rec) in harvest(&t, &s, strip) {
            sabotage(&sab1, &mut rec);
            vs.push(judge_doc(&rec.doc, &rec.opts, &rec.rendered, &who));
        }
        vs
    });
    match fmt_part {
        Ok(vs) => all.extend(vs),
        Err(p) => {
            r.count("formatter_or_oracle_panicked_not_judged", 1);
            r.notes.push(format!("{name} [{label}]: panic at {}: {}", p.location, clip(&p.message, 100)));
        }
    }
    let (t, s) = (input.to_string(), setting.clone());
    let sab2 = sab.clone();
    let emit_part = fresh_thread(STACK_64M, move || {
        let mut vs = vec![];
        for (who, mut rec) in harvest_emit(&t, &s, strip) {
            sabotage(&sab2, &mut rec);
            vs.push(judge_doc(&rec.doc, &rec.opts, &rec.rendered, &who));
        }
        vs
    });
    match emit_part {
        Ok(vs) => all.extend(vs),
        Err(p) => {
            r.count("emitter_or_oracle_panicked_not_judged", 1);
            r.notes.push(format!("{name} [{label}]: panic at {}: {}", p.location, clip(&p.message, 100)));
        }
    }
    if all.is_empty() {
        r.count("cases_without_documents", 1);
        return r;
    }
    r.seen("settings", &label);
    let mut interesting = false;
    for v in all {
        for (k, n) in &v.counts {
            r.count(k, *n);
            if (k.starts_with("ifbreak_atoms_judged") || k == "anchors_checked") && *n > 0 {
                interesting = true;
            }
        }
        for (sig, what) in v.bad {
            r.violation(
                sig,
                format!("{name} [{label}]: {what}"),
                json!({"name": name, "input": input, "setting": setting.to_json(), "strip_comments": strip}),
            );
        }
    }
    if interesting {
        r.nontrivial = Some(hash_str(&format!("{label}\u{0}{input}")));
        if r.violations.is_empty() {
            r.sample = Some(json!({"case": name, "options": label, "input_bytes": input.len(),
                "counts": r.counts.iter().filter(|(k, _)| k.contains("judged") || k.contains("checked") || k == "atoms").map(|(k, n)| format!("{k}={n}")).collect::<Vec<_>>()}));
        }
    }
    r
}

pub fn main(args: Args) {
    let run = Arc::new(Run::new(
        args.clone(),
        "exploration",
        "case = (input text, [format] setting, strip_comments); the real formatter and the real emitter run on it with the \
         veryl_pretty::verif render log on, every logged (Doc, RenderOpts, Rendered) is judged; inputs = repository corpus as-is plus \
         layout mutations (comments incl. multi-line block comments followed by tokens, long joined lines, trailing commas); \
         non-trivial = a case whose documents had >=1 IfBreak judged or >=1 anchor checked; distinct = distinct (options, text)",
    ));
    run.assume("group modes are read off the output (a direct Line/Hardline between two plain atoms rendered with/without a newline), not re-derived from the fits rule");
    run.assume("whitespace = char::is_whitespace on both sides of the content comparison; anchors' dst_column counts characters");
    run.assume("only harvested documents are judged (no synthetic DocGen arm in this version)");
    let sab = Sab(args.get("sabotage").map(|s| s.to_string()));
    if sab.0.is_some() {
        run.note(format!("SABOTAGE MODE {:?}: sensitivity experiment, not a verdict", sab.0));
    }
    if let Some(rp) = &args.replay {
        let v: Json = serde_json::from_str(&std::fs::read_to_string(rp).expect("replay file")).expect("replay json");
        let c = &v["case"];
        let r = judge_case(
            c["name"].as_str().unwrap_or("replay"),
            c["input"].as_str().expect("case.input"),
            &Setting::from_json(&c["setting"]),
            c["strip_comments"].as_bool().unwrap_or(false),
            &sab,
        );
        r.apply(&run);
        run.finish(&[]);
    }
    let corpus = Arc::new(vcommon::corpus::all_veryl());
    let n_inputs = args.budget("inputs", 450, 2500);
    let k = args.budget("settings", 2, 4);
    let total = n_inputs * k;
    let seed = args.seed;
    let run2 = run.clone();
    par_cases(
        total,
        args.jobs,
        STACK_64M,
        move |i| {
            let j = i / k;
            let si = i % k;
            let n = corpus.len() as u64;
            let as_is = j < n;
            let mut rng = Rng::for_case(seed, "C28-settings", i);
            let setting = if as_is && si == 0 { Setting::default() } else { Setting::random(&mut rng) };
            let strip = rng.chance(1, 5);
            let (name, text) = if as_is {
                let f = &corpus[j as usize];
                (format!("corpus:{}:{}", f.kind, f.name), f.text.clone())
            } else if (j - n) % 3 == 2 {
                let mut g = Rng::for_case(seed, "C28", j);
                let t = crate::alignsyn::string_module(&mut g);
                if g.bool() {
                    (format!("strsyn#{}", j - n), t)
                } else {
                    let o = LayoutOpts::random(&mut g);
                    (format!("strsyn+layout#{}", j - n), layout(&t, &mut g, &o))
                }
            } else {
                let f = &corpus[((j - n) % n) as usize];
                let mut g = Rng::for_case(seed, "C28", j);
                let mut o = LayoutOpts::random(&mut g);
                if o.comment_permille < 40 {
                    o.comment_permille = *g.pick(&[40, 120]);
                }
                let mut t = layout(&f.text, &mut g, &o);
                if g.chance(1, 3) {
                    t = join_lines(&t, &mut g, 700);
                }
                if g.chance(1, 3) {
                    t = mutate_trailing_commas(&t, &mut g, 300, 500);
                }
                if g.bool() {
                    t = crate::alignsyn::mutate_strings(&t, &mut g, 700);
                }
                (format!("layout:{}:{}#{}", f.kind, f.name, (j - n) / n), t)
            };
            let mut r = judge_case(&name, &text, &setting, strip, &sab);
            if !as_is {
                r.count("mutated_input_cases", 1);
            }
            r
        },
        move |i, r| match r {
            Err(p) => {
                run2.eval();
                run2.count("harness_case_panicked_not_judged", 1);
                run2.note(format!("case {i}: harness thread panicked at {}: {}", p.location, p.message));
            }
            Ok(rep) => rep.apply(&run2),
        },
    );
    run.finish(&[
        ("documents_judged", 500),
        ("documents_from_formatter", 250),
        ("documents_from_emitter", 250),
        ("atoms", 75_000),
        ("anchors_checked", 30_000),
        ("multi_line_anchors_checked", 80),
        ("anchored_tokens_with_multibyte_text_followed_by_tokens", 150),
        ("lines_whose_rendering_was_observed", 15_000),
        ("groups_observed_broken", 1_000),
        ("groups_observed_flat", 2_000),
        ("ifbreak_atoms_judged_present", 150),
        ("ifbreak_atoms_judged_absent", 400),
        ("pad_gaps_with_break_or_flat_gated_pads_judged", 800),
        ("settings", 50),
        ("distinct_nontrivial", 250),
    ]);
}
