//! Text-level monitors: token positions (C12), formatter (C08/C09), crash
//! monitors (C10/C11), source maps (C13), migrator (C23), pretty printer (C28).

mod alignsyn;
mod c0809;
mod c12;
mod c13;
mod c23;
mod c28;
mod tool_emit;
mod util;

use vcommon::Args;

fn main() {
    vcommon::pool::install_panic_hook();
    let args = Args::parse();
    match args.prop.as_str() {
        "C08" | "C09" => c0809::main(args),
        "C12" => c12::main(args),
        "C13" => c13::main(args),
        "C23" => c23::main(args),
        "C28" => c28::main(args),
        "TOOL_EMIT" => tool_emit::main(args),
        "TOOL_SYNTH" => tool_emit::synth(args),
        p => {
            eprintln!("mon_text: unknown property {p}");
            std::process::exit(2);
        }
    }
}
