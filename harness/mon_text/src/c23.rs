//! C23 — migration yields valid current-syntax code with the same meaning.
//!
//! Refuting events: an input accepted by the previous grammar (`veryl_migrator::Parser`) whose
//! `Migrator` output the current parser rejects; whose token sequence is not the original minus
//! exactly the `: ScalarType` tokens of `for` statements; whose comments changed; or a text that
//! already parses under the current grammar and that `veryl migrate` would modify
//! (`cmd_migrate.rs` migrates only when the current parser fails or `Migrator::migratable`).
//!
//! OldSyntaxGen: corpus texts (current syntax) "de-migrated" — a type annotation is added to the
//! index of every `for` statement (with optional comments and multi-byte text around it), and,
//! for the grammar differences listed in DESIGN §8, old-only string escapes or the identifier
//! `mixin` are injected — then filtered by the old parser.  Expected token stream = the old
//! parser's own token stream minus the annotation tokens; it is cross-checked against the token
//! stream of the text before de-migration (known by construction).

use crate::util::*;
use std::path::Path;
use std::sync::Arc;
use vcommon::lex::{Kind, lex};
use vcommon::mutate::{LayoutOpts, layout};
use vcommon::pool::{STACK_64M, fresh_thread, par_cases};
use vcommon::rng::hash_str;
use vcommon::{Args, Json, Rng, Run, json};
use veryl_migrator::veryl_grammar_trait as old;
use veryl_migrator::veryl_walker::VerylWalker as OldWalker;

/// Token/comment collector over the OLD syntax tree (the migrator crate has none).
#[derive(Default)]
struct OldCollector {
    in_for_type: bool,
    /// (text, is_comment, belongs to a for-statement type annotation)
    items: Vec<(String, bool, bool)>,
}

impl OldWalker for OldCollector {
    fn veryl_token(&mut self, arg: &veryl_migrator::veryl_token::VerylToken) {
        let t = arg.token.to_string();
        if !t.is_empty() {
            self.items.push((t, false, self.in_for_type));
        }
        for c in &arg.comments {
            self.items.push((c.to_string(), true, self.in_for_type));
        }
    }

    fn for_statement(&mut self, arg: &old::ForStatement) {
        self.r#for(&arg.r#for);
        self.identifier(&arg.identifier);
        self.in_for_type = true;
        self.colon(&arg.colon);
        self.scalar_type(&arg.scalar_type);
        self.in_for_type = false;
        self.r#in(&arg.r#in);
        if let Some(ref x) = arg.for_statement_opt {
            self.rev(&x.rev);
        }
        self.range(&arg.range);
        if let Some(ref x) = arg.for_statement_opt0 {
            self.step(&x.step);
            self.assignment_operator(&x.assignment_operator);
            self.expression(&x.expression);
        }
        self.statement_block(&arg.statement_block);
    }
}

struct Migrated {
    old_error: Option<String>,
    /// old parser's stream
    old_tokens: Vec<(String, bool, bool)>,
    output: String,
}

fn migrate(text: &str, setting: &Setting) -> Migrated {
    let mut m = Migrated { old_error: None, old_tokens: vec![], output: String::new() };
    let parser = match veryl_migrator::Parser::parse(text, &Path::new("mig.veryl")) {
        Ok(p) => p,
        Err(e) => {
            m.old_error = Some(first_line(&e.to_string()));
            return m;
        }
    };
    let mut c = OldCollector::default();
    c.veryl(&parser.veryl);
    m.old_tokens = c.items;
    let md = setting.metadata("");
    let mut mig = veryl_migrator::Migrator::new(&md);
    mig.migrate(&parser.veryl, text);
    m.output = mig.as_str().to_string();
    m
}

/// What the current parser says about a text: Err(first line of the error) or the stream,
/// plus `Migrator::migratable`.
fn current(text: &str) -> Result<(Stream, bool), String> {
    match veryl_parser::Parser::parse(text, &Path::new("cur.veryl")) {
        Ok(p) => {
            let s = collect_stream(&p);
            Ok((s, veryl_migrator::Migrator::migratable(&p.veryl)))
        }
        Err(e) => {
            let at = match &e {
                veryl_parser::ParserError::SyntaxError(b) => {
                    let (l, c) = vcommon::lex::line_col(text, b.error_location.offset());
                    format!("{l}:{c}")
                }
                _ => "0:0".to_string(),
            };
            Err(format!("{} at :{at}:", first_line(&e.to_string())))
        }
    }
}

/// All non-whitespace characters of the significant tokens and comments, glued.
fn glued(items: &[(String, bool, bool)]) -> String {
    items.iter().filter(|x| !x.2).flat_map(|x| x.0.chars()).filter(|c| !c.is_whitespace()).collect()
}


const FOR_TYPES: &[&str] = &["u32", "i32", "u64", "i64", "u8", "i8", "u16", "i16", "logic<8>", "bit<4>", "signed logic<8>"];

#[derive(Clone, Debug, Default)]
pub struct Demigrated {
    pub text: String,
    pub for_annotations: u32,
    pub comments_in_annotation: u32,
    pub flavour: String,
}

/// Add `: Type` to the index of `for i in …` statements (not generate-for, whose block is named
/// `:label {` — told apart by the old parser: a wrong guess simply makes the text unparseable
/// and is filtered).  `comment_mode`: 0 none, 1 comments inside the annotation, 2 after it.
fn demigrate(src: &str, rng: &mut Rng, flavour: &str) -> Demigrated {
    let toks = lex(src, false);
    let sig: Vec<usize> = toks
        .iter()
        .enumerate()
        .filter(|(_, t)| !matches!(t.kind, Kind::Ws | Kind::LineComment | Kind::BlockComment))
        .map(|(i, _)| i)
        .collect();
    let mut insert_after: Vec<(usize, String)> = vec![];
    let mut d = Demigrated { flavour: flavour.to_string(), ..Default::default() };
    for w in sig.windows(3) {
        if toks[w[0]].text == "for" && toks[w[1]].kind == Kind::Ident && toks[w[2]].text == "in" {
            // generate-for? look ahead for `:label {` before the block opens: in a statement the
            // block opens with `{` directly.  Find the first `{` at nesting level 0 after `in`.
            let pos = sig.iter().position(|x| *x == w[2]).unwrap();
            let mut depth = 0i32;
            let mut is_generate = false;
            for k in pos + 1..sig.len() {
                let t = toks[sig[k]].text.as_str();
                match t {
                    "(" | "[" => depth += 1,
                    ")" | "]" => depth -= 1,
                    "{" if depth == 0 => {
                        // `: label {`  → generate for
                        if k >= 2 && toks[sig[k - 1]].kind == Kind::Ident && toks[sig[k - 2]].text == ":" {
                            is_generate = true;
                        }
                        break;
                    }
                    _ => {}
                }
            }
            if is_generate {
                continue;
            }
            let ty = *rng.pick(FOR_TYPES);
            let ann = match flavour {
                "comments" => {
                    d.comments_in_annotation += 1;
                    match rng.below(4) {
                        0 => format!(": /* idx */ {ty}"),
                        1 => format!(" /* before colon */ : {ty}"),
                        2 => format!(": {ty} /* after type 日本 */"),
                        _ => format!(": {ty} // eol\n       "),
                    }
                }
                _ => {
                    if rng.chance(1, 4) {
                        format!(" : {ty}")
                    } else {
                        format!(": {ty}")
                    }
                }
            };
            insert_after.push((w[1], ann));
            d.for_annotations += 1;
        }
    }
    let mut out = String::with_capacity(src.len() + 32);
    for (i, t) in toks.iter().enumerate() {
        let mut text = t.text.clone();
        match flavour {
            "escapes" if t.kind == Kind::Str && text.len() >= 2 => {
                // escapes only the previous lexer accepted
                let esc = *rng.pick(&["\\r", "\\b", "\\/", "\\u0041"]);
                text.insert_str(text.len() - 1, esc);
            }
            _ => {}
        }
        out.push_str(&text);
        if let Some((_, ann)) = insert_after.iter().find(|(k, _)| *k == i) {
            out.push_str(ann);
        }
    }
    if flavour == "mixin" {
        // a program of the previous grammar may use `mixin` as an identifier
        let idents: Vec<String> = lex(&out, false)
            .into_iter()
            .filter(|t| t.kind == Kind::Ident && !is_veryl_keyword(&t.text) && !t.text.starts_with('$') && !t.text.starts_with("r#"))
            .map(|t| t.text)
            .collect();
        if !idents.is_empty() {
            let victim = rng.pick(&idents).clone();
            out = lex(&out, false).into_iter().map(|t| if t.kind == Kind::Ident && t.text == victim { "mixin".to_string() } else { t.text }).collect();
        }
    }
    d.text = out;
    d
}

#[derive(Clone, Debug, Default)]
struct Sab(Option<String>);

/// `base` = the text before de-migration (current syntax), when known.
fn judge(name: &str, input: &str, base: Option<&str>, setting: &Setting, flavour: &str, sab: &Sab) -> CaseReport {
    let mut r = CaseReport::default();
    let head = format!("{name} [{},nl={}]", flavour, setting.newline_style);
    let replay = |extra: Json| -> Json {
        let mut c = json!({"name": name, "input": input, "base": base, "setting": setting.to_json(), "flavour": flavour});
        if let Some(o) = extra.as_object() {
            for (k, v) in o {
                c[k] = v.clone();
            }
        }
        c
    };
    // old grammar + Migrator (fresh thread)
    let (t, s) = (input.to_string(), setting.clone());
    let m = match fresh_thread(STACK_64M, move || migrate(&t, &s)) {
        Ok(m) => m,
        Err(p) => {
            r.count("old_parser_or_migrator_panicked_not_judged", 1);
            r.notes.push(format!("{head}: panic at {}: {}", p.location, clip(&p.message, 100)));
            return r;
        }
    };
    if m.old_error.is_some() {
        r.count("rejected_by_previous_grammar", 1);
        return r;
    }
    r.count("accepted_by_previous_grammar", 1);
    r.count(&format!("accepted_by_previous_grammar:{flavour}"), 1);
    // does the current parser accept the input as it is?  (cmd_migrate's decision)
    let t = input.to_string();
    let cur_in = fresh_thread(STACK_64M, move || current(&t));
    match cur_in {
        Ok(Ok((_, migratable))) => {
            r.count("inputs_already_current", 1);
            // `veryl migrate` leaves the file alone unless Migrator::migratable says otherwise
            if migratable {
                r.violation(
                    "already-current:migratable".into(),
                    format!("{head}: text parses under the current grammar but Migrator::migratable asks for a rewrite"),
                    replay(json!({})),
                );
            } else {
                r.count("already_current_left_unchanged", 1);
            }
            return r;
        }
        Ok(Err(_)) => {}
        Err(_) => {
            r.count("current_parser_panicked_not_judged", 1);
            return r;
        }
    }
    r.count("inputs_needing_migration", 1);
    let mut output = m.output.clone();
    match sab.0.as_deref() {
        Some("drop_comment") => {
            if let Some(t) = lex(&output, false).into_iter().find(|t| t.kind == Kind::BlockComment) {
                output.replace_range(t.pos..t.pos + t.text.len(), "");
            }
        }
        Some("keep_type") => {
            output = input.to_string();
        }
        Some("merge") => {
            if let Some(i) = output.find("module ") {
                output.replace_range(i + 6..i + 7, "");
            }
        }
        _ => {}
    }
    // (1) output parses with the current parser
    let t = output.clone();
    let cur_out = match fresh_thread(STACK_64M, move || current(&t)) {
        Ok(x) => x,
        Err(_) => {
            r.count("current_parser_panicked_not_judged", 1);
            return r;
        }
    };
    // `r#name` is the raw spelling of identifier `name` (what a migrator has to use for a name
    // that became a keyword): compared as the same token.
    let raw = |t: &String| -> String { t.strip_prefix("r#").unwrap_or(t).to_string() };
    let expected_tokens: Vec<String> = m.old_tokens.iter().filter(|x| !x.1 && !x.2).map(|x| raw(&x.0)).collect();
    let expected_comments: Vec<String> = m.old_tokens.iter().filter(|x| x.1).map(|x| trim_line_ends(&x.0)).collect();
    let dropped: Vec<&String> = m.old_tokens.iter().filter(|x| !x.1 && x.2).map(|x| &x.0).collect();
    r.count("for_type_tokens_expected_to_go", dropped.len() as i64);
    let (stream, _) = match cur_out {
        Ok(x) => x,
        Err(e) => {
            // classify: is only the spacing wrong (same characters, tokens run together), or is it
            // a construct the old grammar had and the new one lacks?
            let out_glued: String = output.chars().filter(|c| !c.is_whitespace()).collect();
            let class = if out_glued == glued(&m.old_tokens) && !input_has_old_escape(input) && !has_mixin_ident(input) {
                if input.is_ascii() { "tokens-run-together" } else { "tokens-run-together-after-multibyte-text" }
            } else if flavour == "escapes" || input_has_old_escape(input) {
                "old-string-escape"
            } else if has_mixin_ident(input) {
                "mixin-identifier"
            } else {
                "other"
            };
            let (ln, _) = err_line(&e);
            let l = output.lines().nth(ln.saturating_sub(1)).unwrap_or("");
            let sig = if class == "other" { format!("unparseable:other:{}", line_shape(l)) } else { format!("unparseable:{class}") };
            r.violation(
                sig,
                format!("{head}: migrated text is rejected by the current parser: {e}; line {ln}: {:?}", clip(l, 120)),
                replay(json!({"migrated": output})),
            );
            return r;
        }
    };
    r.count("migrated_outputs_parsed", 1);
    let stream = Stream { tokens: stream.tokens.iter().map(raw).collect(), comments: stream.comments };
    // (2) token sequence
    r.count("tokens_compared", expected_tokens.len() as i64);
    if let Some((k, a, b)) = first_diff(&expected_tokens, &stream.tokens) {
        let out_glued: String = output.chars().filter(|c| !c.is_whitespace()).collect();
        let class = if out_glued == glued(&m.old_tokens) {
            if input.is_ascii() { "run-together" } else { "run-together-after-multibyte-text" }
        } else if stream.tokens.len() > expected_tokens.len() {
            "extra"
        } else if stream.tokens.len() < expected_tokens.len() {
            "missing"
        } else {
            "changed"
        };
        r.violation(
            format!("tokens:{class}"),
            format!("{head}: token sequence is not the original minus the for-index types, at token {k}: expected …{a}… got …{b}…"),
            replay(json!({"migrated": output})),
        );
        return r;
    }
    // cross-check with the text before de-migration (current parser on both sides)
    if let Some(b) = base
        && flavour != "mixin"
        && flavour != "escapes"
    {
        let t = b.to_string();
        if let Ok(Ok((bs, _))) = fresh_thread(STACK_64M, move || current(&t)) {
            r.count("crosschecked_against_pre_demigration_text", 1);
            if let Some((k, a, b2)) = first_diff(&bs.tokens, &stream.tokens) {
                r.violation(
                    "tokens:differs-from-pre-demigration-text".into(),
                    format!("{head}: migrated tokens differ from the text the old-syntax input was made from, at token {k}: …{a}… vs …{b2}…"),
                    replay(json!({"migrated": output})),
                );
                return r;
            }
        }
    }
    // (3) comments kept
    let got_comments = normalise_comments(&stream.comments);
    r.count("comments_compared", expected_comments.len() as i64);
    if let Some((k, a, b)) = first_diff(&expected_comments, &got_comments) {
        let in_ann = m.old_tokens.iter().filter(|x| x.1 && x.2).count();
        let class = if got_comments.len() < expected_comments.len() && in_ann > 0 { "lost-in-for-annotation" } else if got_comments.len() < expected_comments.len() { "lost" } else { "changed" };
        r.violation(
            format!("comments:{class}"),
            format!(
                "{head}: comments not kept ({} before, {} after; {in_ann} sit on the removed `: Type` tokens), first difference at comment {k}: …{a}… vs …{b}…",
                expected_comments.len(),
                got_comments.len()
            ),
            replay(json!({"migrated": output})),
        );
        return r;
    }
    if !dropped.is_empty() {
        r.count("migrations_with_for_types_removed", 1);
        r.nontrivial = Some(hash_str(input));
        if !input.is_ascii() {
            r.count("migrations_with_multibyte_text", 1);
        }
        if expected_comments.len() > 1 {
            r.sample = Some(json!({"case": name, "flavour": flavour, "for_type_tokens_removed": dropped.len(), "comments": expected_comments.len(),
                "input_excerpt": excerpt_around(input, "for "), "output_excerpt": excerpt_around(&output, "for ")}));
        }
    }
    r
}

fn has_mixin_ident(s: &str) -> bool {
    lex(s, false).iter().any(|t| t.kind == Kind::Ident && t.text == "mixin")
}

fn input_has_old_escape(s: &str) -> bool {
    lex(s, false).iter().any(|t| t.kind == Kind::Str && (t.text.contains("\\r") || t.text.contains("\\b") || t.text.contains("\\/") || t.text.contains("\\u")))
}

fn err_line(e: &str) -> (usize, usize) {
    let mut best = (0, 0);
    let parts: Vec<&str> = e.split(':').collect();
    for w in parts.windows(2) {
        let a: String = w[0].chars().rev().take_while(|c| c.is_ascii_digit()).collect::<String>().chars().rev().collect();
        let b: String = w[1].chars().take_while(|c| c.is_ascii_digit()).collect();
        if !a.is_empty()
            && !b.is_empty()
            && let (Ok(x), Ok(y)) = (a.parse(), b.parse())
        {
            best = (x, y);
        }
    }
    best
}

fn excerpt_around(s: &str, needle: &str) -> String {
    match s.find(needle) {
        Some(i) => {
            let mut lo = i.saturating_sub(20);
            while !s.is_char_boundary(lo) {
                lo -= 1;
            }
            clip(&s[lo..], 140)
        }
        None => clip(s, 100),
    }
}

/// Real CLI arm: `veryl migrate` on a scratch project; current-syntax files must stay byte-identical.
fn cli_arm(run: &Run, corpus: &[vcommon::corpus::CorpusFile], seed: u64, n: usize) {
    let Ok(veryl) = std::env::var("VERIF_VERYL") else {
        run.note("VERIF_VERYL not set: CLI arm not exercised".into());
        return;
    };
    if !Path::new(&veryl).exists() {
        run.note(format!("{veryl} missing: CLI arm not exercised"));
        return;
    }
    let dir = std::path::PathBuf::from(format!("/verif/scratch/c23_{}_{}", std::process::id(), seed));
    let _ = std::fs::remove_dir_all(&dir);
    let src = dir.join("p/src");
    if std::fs::create_dir_all(&src).is_err() || std::fs::create_dir_all(dir.join("home")).is_err() {
        return;
    }
    let _ = std::fs::write(dir.join("p/Veryl.toml"), "[project]\nname = \"p\"\nversion = \"0.1.0\"\n[build]\nsources = [\"src\"]\n");
    let mut rng = Rng::for_case(seed, "C23-cli", 0);
    let mut files = vec![];
    let mut guard = 0;
    while files.len() < n && guard < 10 * n {
        guard += 1;
        let f = rng.pick(corpus);
        if f.kind != "testcase" || files.iter().any(|(nm, _): &(String, String)| *nm == f.name) {
            continue;
        }
        // only files the current parser accepts
        let t = f.text.clone();
        if !matches!(fresh_thread(STACK_64M, move || current(&t).is_ok()), Ok(true)) {
            continue;
        }
        let mut text = f.text.clone();
        if rng.bool() {
            let o = LayoutOpts::random(&mut rng);
            let t2 = layout(&text, &mut rng, &o);
            let t3 = t2.clone();
            if matches!(fresh_thread(STACK_64M, move || current(&t3).is_ok()), Ok(true)) {
                text = t2;
            }
        }
        let _ = std::fs::write(src.join(format!("{}.veryl", f.name)), &text);
        files.push((f.name.clone(), text));
    }
    let out = std::process::Command::new(&veryl)
        .arg("migrate")
        .current_dir(dir.join("p"))
        .env("HOME", dir.join("home"))
        .env("XDG_CACHE_HOME", dir.join("cache"))
        .output();
    match out {
        Ok(o) => {
            run.count("cli_migrate_runs", 1);
            if !o.status.success() {
                run.note(format!("veryl migrate exit {:?}: {}", o.status.code(), clip(&String::from_utf8_lossy(&o.stderr), 200)));
                run.count("cli_migrate_failed_not_judged", 1);
            } else {
                for (nm, text) in &files {
                    run.eval();
                    let now = std::fs::read_to_string(src.join(format!("{nm}.veryl"))).unwrap_or_default();
                    run.count("cli_current_syntax_files_checked", 1);
                    if now != *text {
                        let (ln, a, b) = first_diff_line(text, &now).unwrap_or((0, String::new(), String::new()));
                        run.violation(
                            "already-current:modified-by-cli",
                            &format!("{nm}: `veryl migrate` modified a file that parses under the current grammar; line {ln}: {a:?} -> {b:?}"),
                            json!({"name": nm, "input": text, "after": now, "cli": true}),
                        );
                    }
                }
            }
        }
        Err(e) => run.note(format!("cannot run {veryl}: {e}")),
    }
    let _ = std::fs::remove_dir_all(&dir);
}

pub fn main(args: Args) {
    let run = Arc::new(Run::new(
        args.clone(),
        "exploration",
        "OldSyntaxGen: corpus texts (as-is and layout-mutated incl. multi-byte comments) de-migrated — every `for` statement index gets \
         a `: Type` annotation (flavours: plain, with comments in/after the annotation, plus old-only string escapes, plus `mixin` used \
         as an identifier) — filtered by the previous grammar's parser; non-trivial = an accepted input from which >=1 for-index type \
         was removed; distinct = distinct input texts",
    ));
    run.assume("the previous grammar is what veryl_migrator::Parser accepts; Migrator output is judged before the formatter that cmd_migrate runs afterwards (C09 covers the formatter)");
    run.assume("a raw identifier `r#x` and `x` are the same token for the comparison");
    run.assume("expected token stream = the old parser's own stream minus the colon+ScalarType of for statements; comments compared right-trimmed per line");
    let sab = Sab(args.get("sabotage").map(|s| s.to_string()));
    if sab.0.is_some() {
        run.note(format!("SABOTAGE MODE {:?}: sensitivity experiment, not a verdict", sab.0));
    }
    if let Some(rp) = &args.replay {
        let v: Json = serde_json::from_str(&std::fs::read_to_string(rp).expect("replay file")).expect("replay json");
        let c = &v["case"];
        let r = judge(
            c["name"].as_str().unwrap_or("replay"),
            c["input"].as_str().expect("case.input"),
            c["base"].as_str(),
            &Setting::from_json(&c["setting"]),
            c["flavour"].as_str().unwrap_or("plain"),
            &sab,
        );
        r.apply(&run);
        run.finish(&[]);
    }
    let corpus = Arc::new(vcommon::corpus::all_veryl());
    let n = args.budget("cases", 2500, 30_000);
    let seed = args.seed;
    let run2 = run.clone();
    let corpus2 = corpus.clone();
    let hand: Arc<Vec<(&'static str, String)>> = Arc::new(hand_texts());
    let nh = hand.len() as u64;
    par_cases(
        n + nh,
        args.jobs,
        STACK_64M,
        move |i| {
            if i < nh {
                let (nm, t) = &hand[i as usize];
                return judge(&format!("hand:{nm}"), t, None, &Setting::default(), "hand", &sab);
            }
            let i = i - nh;
            let mut rng = Rng::for_case(seed, "C23", i);
            let f = &corpus2[(i % corpus2.len() as u64) as usize];
            let round = i / corpus2.len() as u64;
            let mut base = f.text.clone();
            if round > 0 && rng.chance(2, 3) {
                let mut o = LayoutOpts::random(&mut rng);
                o.multibyte = true;
                base = layout(&base, &mut rng, &o);
            }
            let flavour = match (round + i) % 5 {
                0 | 1 => "plain",
                2 => "comments",
                3 => "escapes",
                _ => "mixin",
            };
            let d = demigrate(&base, &mut rng, flavour);
            let mut setting = Setting::default();
            setting.newline_style = rng.pick(&NEWLINES).to_string();
            let mut r = judge(&format!("{}:{}:{}#{round}", flavour, f.kind, f.name), &d.text, Some(&base), &setting, flavour, &sab);
            r.count("for_annotations_inserted", d.for_annotations as i64);
            r.count("comments_put_into_annotations", d.comments_in_annotation as i64);
            r
        },
        move |i, r| match r {
            Err(p) => {
                run2.eval();
                run2.count("harness_case_panicked_not_judged", 1);
                run2.note(format!("case {i}: harness thread panicked at {}: {}", p.location, p.message));
            }
            Ok(rep) => rep.apply(&run2),
        },
    );
    cli_arm(&run, &corpus, seed, args.budget("cli_files", 6, 40) as usize);
    run.finish(&[
        ("accepted_by_previous_grammar", 300),
        ("inputs_needing_migration", 60),
        ("already_current_left_unchanged", 150),
        ("for_type_tokens_expected_to_go", 400),
        ("tokens_compared", 40_000),
        ("migrated_outputs_parsed", 150),
        ("migrations_with_for_types_removed", 40),
        ("migrations_with_multibyte_text", 12),
        ("comments_compared", 1_000),
    ]);
}

/// Small hand-written old-syntax programs (the migrator's own unit tests plus position stress).
fn hand_texts() -> Vec<(&'static str, String)> {
    vec![
        ("unit1", "\n    module A {\n        always_comb {\n            for i: u32 in 0..10 {\n            }\n        }\n    }".to_string()),
        ("unit2", "\n    module A {\n        always_comb {\n            for i: i32 in rev 0..10 {\n            }\n        }\n    }".to_string()),
        ("multibyte-comment-before-tokens", "module A {\n    /* 日本語 */ var a: logic;\n    always_comb {\n        for i: u32 in 0..2 {\n            a = 1;\n        }\n    }\n}\n".to_string()),
        ("multibyte-string", "module A {\n    initial {\n        $display(\"日本語 🎉\"); $display(\"b\");\n        for i: u8 in 0..2 { $display(\"é\", i); $display(\"x\"); }\n    }\n}\n".to_string()),
        ("comment-on-type", "module A {\n    var a: logic;\n    always_comb {\n        for i: u32 /* index type */ in 0..2 {\n            a = 1;\n        }\n    }\n}\n".to_string()),
        ("two-comments-one-line", "module A {\n    /* é */ /* b */ var a: logic; var b: logic;\n    always_comb {\n        for i: u32 in 0..2 { a = 1; b = 0; }\n    }\n}\n".to_string()),
        ("crlf", "module A {\r\n    var a: logic;\r\n    always_comb {\r\n        for i: u32 in 0..2 {\r\n            a = 1;\r\n        }\r\n    }\r\n}\r\n".to_string()),
    ]
}
