//! C12 — every token and comment reports where it really is in the source.
//!
//! Events that refute: a token/comment from `TokenCollector(include_comments)`
//! whose `src[pos..pos+length] != text`, whose (line, column) is not the
//! (line, character column) of `pos`, or a stream that is not in source order.
//! Oracle: direct computation on the newline-terminated text the parser
//! registered; shares no code with the parser.

use std::path::Path;
use std::sync::Arc;
use vcommon::lex::line_col;
use vcommon::mutate::{LayoutOpts, layout};
use vcommon::pool::{STACK_64M, par_cases};
use vcommon::rng::hash_str;
use vcommon::{Args, Rng, Run, json};
use veryl_parser::Parser;
use veryl_parser::token_collector::TokenCollector;
use veryl_parser::veryl_token::TokenSource;
use veryl_parser::veryl_walker::VerylWalker;

#[derive(Debug, Default)]
pub(crate) struct CaseOut {
    pub(crate) parsed: bool,
    tokens: u64,
    pub(crate) comments: u64,
    pub(crate) multibyte_comments: u64,
    comments_after_comment_same_line: u64,
    comments_after_multibyte_same_line: u64,
    block_multiline: u64,
    crlf: bool,
    /// (class, detail)
    pub(crate) bad: Vec<(String, String)>,
}

pub(crate) fn check_text(input: &str) -> CaseOut {
    let mut out = CaseOut::default();
    let Ok(parser) = Parser::parse(input, &Path::new("c12.veryl")) else {
        return out;
    };
    out.parsed = true;
    out.crlf = input.contains("\r\n");
    let mut src = input.to_string();
    if !src.ends_with('\n') {
        src.push('\n');
    }
    let mut collector = TokenCollector::new(true);
    collector.veryl(&parser.veryl);

    let mut last_end: Option<(usize, String)> = None;
    let mut last_comment_line: Option<(u32, bool)> = None; // (end line of previous comment, it had multibyte)
    for t in &collector.tokens {
        if !matches!(t.source, TokenSource::File { .. }) {
            continue;
        }
        let text = t.to_string();
        if text.is_empty() {
            continue;
        }
        let is_comment = text.starts_with("//") || text.starts_with("/*");
        let kind = if is_comment { "comment" } else { "token" };
        if is_comment {
            out.comments += 1;
            if !text.is_ascii() {
                out.multibyte_comments += 1;
            }
            if text.starts_with("/*") && text.contains('\n') {
                out.block_multiline += 1;
            }
        } else {
            out.tokens += 1;
        }
        let pos = t.pos as usize;
        let len = t.length as usize;
        // (1) byte offset + length select the token's text
        let slice = src.get(pos..pos + len);
        let pos_ok = slice == Some(text.as_str());
        if !pos_ok {
            // where is it really? (first occurrence at/after the previous token end, for the witness)
            let from = last_end.as_ref().map(|x| x.0).unwrap_or(0).min(src.len());
            let real = src[from..].find(text.as_str()).map(|k| k + from);
            out.bad.push((
                format!("{kind}:offset"),
                format!(
                    "{kind} {:?} reports pos={} length={} but source there is {:?}; text actually found at byte {:?}",
                    trunc(&text),
                    pos,
                    len,
                    slice.map(trunc),
                    real
                ),
            ));
        }
        if len != text.len() {
            out.bad.push((
                format!("{kind}:length"),
                format!("{kind} {:?} reports length {} but its text has {} bytes", trunc(&text), len, text.len()),
            ));
        }
        // (2) line / character column.  When the offset is wrong we locate the
        // token by searching forward from the previous token, so a column
        // defect is still judged on its own.
        let real_pos = if pos_ok {
            Some(pos)
        } else {
            let from = last_end.as_ref().map(|x| x.0).unwrap_or(0).min(src.len());
            src[from..].find(text.as_str()).map(|k| k + from)
        };
        if let Some(rp) = real_pos {
            let (l, c) = line_col(&src, rp);
            if is_comment {
                if let Some((pl, pmb)) = last_comment_line
                    && pl == l
                {
                    out.comments_after_comment_same_line += 1;
                    if pmb {
                        out.comments_after_multibyte_same_line += 1;
                    }
                }
                let end_line = l + text.trim_end_matches(['\r', '\n']).matches('\n').count() as u32;
                last_comment_line = Some((end_line, !text.is_ascii()));
            } else {
                last_comment_line = None;
            }
            if t.line != l {
                out.bad.push((
                    format!("{kind}:line"),
                    format!("{kind} {:?} reports line {} but is on line {}", trunc(&text), t.line, l),
                ));
            } else if t.column != c {
                out.bad.push((
                    format!("{kind}:column"),
                    format!(
                        "{kind} {:?} on line {} reports column {} but starts at character column {}",
                        trunc(&text),
                        l,
                        t.column,
                        c
                    ),
                ));
            }
            // (3) source order
            if let Some((pe, ptext)) = &last_end
                && rp < *pe
            {
                out.bad.push((
                    format!("{kind}:order"),
                    format!("{kind} {:?} at byte {} is reported after {:?} which ends at byte {}", trunc(&text), rp, trunc(ptext), pe),
                ));
            }
            last_end = Some((rp + text.len(), text.clone()));
        }
    }
    out
}

fn trunc(s: &str) -> String {
    let mut t: String = s.chars().take(40).collect();
    if t.len() < s.len() {
        t.push('…');
    }
    t
}

pub fn main(args: Args) {
    let run = Arc::new(Run::new(
        args.clone(),
        "exploration",
        "inputs = repository .veryl corpus (testcases, error cases, std, native tests) as-is, plus token-preserving layout \
         mutations of them (random whitespace, CRLF, inserted line/block comments incl. multi-byte text, several per line, \
         before the first token) and hand-written position stress texts; a case is non-trivial when the real parser accepts \
         it and it yields >=1 comment token; distinct = distinct input texts",
    ));
    run.assume("the independent line/character-column computation in vcommon::lex::line_col is right");
    run.assume("lone CR line endings are excluded (the property does not define lines for them)");

    let corpus: Arc<Vec<vcommon::corpus::CorpusFile>> = Arc::new(vcommon::corpus::all_veryl());
    let muts = args.budget("mutations_per_file", 2, 60);
    let stress = stress_texts();

    if let Some(rp) = &args.replay {
        let v: vcommon::Json = serde_json::from_str(&std::fs::read_to_string(rp).expect("replay file")).unwrap();
        let text = v["case"]["input"].as_str().expect("case.input").to_string();
        let o = vcommon::pool::fresh_thread(STACK_64M, move || check_text(&text)).expect("no panic");
        run.eval();
        for (class, detail) in &o.bad {
            run.violation(class, detail, v["case"].clone());
        }
        run.finish(&[]);
    }

    let n_corpus = corpus.len() as u64;
    let total = n_corpus * (1 + muts) + stress.len() as u64;
    let seed = args.seed;
    let corpus2 = corpus.clone();
    let stress2 = Arc::new(stress);
    let stress3 = stress2.clone();
    let gen_case = move |i: u64| -> (String, String) {
        if i < n_corpus {
            let f = &corpus2[i as usize];
            (format!("corpus:{}", f.name), f.text.clone())
        } else if i < n_corpus * (1 + muts) {
            let k = i - n_corpus;
            let f = &corpus2[(k % n_corpus) as usize];
            let mut rng = Rng::for_case(seed, "C12", i);
            let mut o = LayoutOpts::random(&mut rng);
            // this property is about comments: bias towards many of them
            if o.comment_permille < 40 {
                o.comment_permille = 120;
            }
            (format!("layout:{}#{}", f.name, k / n_corpus), layout(&f.text, &mut rng, &o))
        } else {
            let k = (i - n_corpus * (1 + muts)) as usize;
            (format!("stress:{k}"), stress3[k].clone())
        }
    };
    let run2 = run.clone();
    let gen2 = gen_case.clone();
    par_cases(
        total,
        args.jobs,
        STACK_64M,
        move |i| {
            let (name, text) = gen_case(i);
            let o = check_text(&text);
            (name, o)
        },
        move |i, r| {
            run2.eval();
            match r {
                Err(p) => {
                    // a parser panic is C10's business; here the case is simply not judged
                    run2.count("cases_panicked_not_judged", 1);
                    run2.note(format!("case {i} panicked at {}: {}", p.location, p.message));
                }
                Ok((name, o)) => {
                    if !o.parsed {
                        run2.count("rejected_by_parser", 1);
                        return;
                    }
                    run2.count("parsed_inputs", 1);
                    run2.count("tokens_checked", o.tokens as i64);
                    run2.count("comments_checked", o.comments as i64);
                    run2.count("multibyte_comments", o.multibyte_comments as i64);
                    run2.count("comments_following_a_comment_on_same_line", o.comments_after_comment_same_line as i64);
                    run2.count("comments_following_multibyte_comment_on_same_line", o.comments_after_multibyte_same_line as i64);
                    run2.count("multi_line_block_comments", o.block_multiline as i64);
                    if o.crlf {
                        run2.count("crlf_inputs", 1);
                    }
                    let (_, text) = gen2(i);
                    if o.comments > 0 {
                        run2.nontrivial(hash_str(&text));
                    }
                    if o.bad.is_empty() {
                        if o.comments > 2 {
                            run2.sample(json!({"case": name, "tokens": o.tokens, "comments": o.comments, "bytes": text.len()}));
                        }
                    }
                    let mut seen = std::collections::HashSet::new();
                    for (class, detail) in &o.bad {
                        run2.count("position_defects_observed", 1);
                        if !seen.insert(class.clone()) {
                            continue;
                        }
                        run2.violation(class, &format!("{name}: {detail}"), json!({"name": name, "input": text, "detail": detail}));
                    }
                }
            }
        },
    );
    run.finish(&[
        ("parsed_inputs", 200),
        ("comments_checked", 2000),
        ("tokens_checked", 50000),
        ("multibyte_comments", 100),
        ("comments_following_a_comment_on_same_line", 50),
        ("crlf_inputs", 10),
    ]);
}

fn stress_texts() -> Vec<String> {
    let mut v = vec![];
    v.push("// first\n/* second */ /* third */ module A {} // tail\n".to_string());
    v.push("/* 日本語 */ /* b */ module A {}\n".to_string());
    v.push("module A {\n    /* α */ /* β */ /* γ */ var a: logic; // δ\n    assign a = 1; /* multi\n line */ /* after */\n}\n".to_string());
    v.push("module A { // é\n  var a: logic<2>; /* x */ // y\n  assign a = 0;\n}".to_string());
    v.push("\r\n// crlf first\r\nmodule A {\r\n  /* a */ /* b */\r\n}\r\n".to_string());
    v.push("module A {\n\tvar s: string; /* tab */\t/* tab2 */\n\tassign s = \"日本 // not a comment\"; // real 🎉 /* c */\n}\n".to_string());
    v.push("/* only */".to_string());
    v.push("module A {}\n// trailing without newline".to_string());
    v
}
