//! Synthetic inputs for the formatter monitors (C08/C09): modules made of RUNS OF ADJACENT
//! ALIGNABLE ITEMS WITH VARIED NAME LENGTHS, every item written on exactly one source line
//! ("one-item-per-line" layout).  Some items fit max_width, some do not, some are forced to break
//! (inst with named ports), so the formatter changes the line span of members of an alignment
//! group between run 1 and run 2 — the class of inputs the corpus (equal-length neighbouring
//! names) does not contain.  Texts only have to parse; unresolved names are fine.

use vcommon::Rng;

const STEMS: &[&str] = &["a", "bb", "cnt", "data", "valid", "ready_n", "payload", "u_fifo_mem", "state_next", "very_long_signal_name", "x0", "q"];
const TYPES: &[&str] = &["logic", "logic<8>", "logic<WIDTH>", "bit<4>", "u32", "logic<8, 2>", "logic<$clog2(DEPTH)>"];
const MODS: &[&str] = &["Sub", "SubUnit", "FifoController", "M"];
const PORTS: &[&str] = &["clk", "rst", "i_d", "o_d", "i_valid", "o_ready", "i_long_port_name", "q"];
const PARAMS: &[&str] = &["W", "DEPTH", "WIDTH", "USE_RESET", "T"];

fn name(rng: &mut Rng, used: &mut Vec<String>) -> String {
    for _ in 0..50 {
        let mut s = rng.pick(STEMS).to_string();
        if rng.chance(1, 3) {
            s.push('_');
            let w: &str = *rng.pick::<&str>(STEMS);
            s.push_str(w);
        }
        if rng.chance(1, 3) {
            s.push_str(&rng.below(100).to_string());
        }
        if !used.contains(&s) {
            used.push(s.clone());
            return s;
        }
    }
    let s = format!("n{}", used.len());
    used.push(s.clone());
    s
}

fn expr(rng: &mut Rng, depth: u32) -> String {
    match rng.below(if depth > 2 { 3 } else { 8 }) {
        0 => rng.below(300).to_string(),
        1 => format!("{}'h{:x}", *rng.pick(&[4, 8, 16, 32]), rng.below(60000)),
        2 => rng.pick(STEMS).to_string(),
        3 => format!("{} + {}", expr(rng, depth + 1), expr(rng, depth + 1)),
        4 => format!("{}[{}:0]", rng.pick(STEMS), rng.below(8)),
        5 => format!("({} & {}) | {}", expr(rng, depth + 1), expr(rng, depth + 1), expr(rng, depth + 1)),
        6 => format!("(if {} ? {} : {})", rng.pick(STEMS), expr(rng, depth + 1), expr(rng, depth + 1)),
        _ => format!("{{{}, {}}}", expr(rng, depth + 1), expr(rng, depth + 1)),
    }
}

fn inst(rng: &mut Rng, used: &mut Vec<String>) -> String {
    let n = format!("u_{}", name(rng, used));
    let m = rng.pick(MODS);
    let mut s = format!("inst {n}: {m}");
    if rng.chance(1, 2) {
        let k = 1 + rng.below(3);
        let items: Vec<String> = (0..k).map(|i| format!("{}: {}", PARAMS[i as usize % PARAMS.len()], expr(rng, 2))).collect();
        s.push_str(&format!(" #({})", items.join(", ")));
    }
    match rng.below(4) {
        0 => {}
        1 => {
            // shorthand connections: stays flat when it fits
            let k = 1 + rng.below(5);
            let items: Vec<&str> = (0..k).map(|i| PORTS[i as usize % PORTS.len()]).collect();
            s.push_str(&format!(" ({})", items.join(", ")));
        }
        _ => {
            // named connections: the formatter breaks the list whatever the width
            let k = 1 + rng.below(5);
            let items: Vec<String> = (0..k).map(|i| format!("{}: {}", PORTS[i as usize % PORTS.len()], expr(rng, 2))).collect();
            s.push_str(&format!(" ({})", items.join(", ")));
        }
    }
    s.push(';');
    s
}

fn decl(rng: &mut Rng, used: &mut Vec<String>, kw: &str) -> String {
    let n = name(rng, used);
    let t = rng.pick(TYPES);
    match kw {
        "var" => {
            if rng.chance(1, 4) {
                format!("var {n}: {t} [{}];", 1 + rng.below(16))
            } else {
                format!("var {n}: {t};")
            }
        }
        "let" => format!("let {n}: {t} = {};", expr(rng, 0)),
        "const" => format!("const {}: {} = {};", n.to_uppercase(), rng.pick(&["u32", "bit<8>", "logic<16>"]), expr(rng, 1)),
        "assign" => {
            if rng.chance(1, 4) {
                format!("assign {n}[{}:0] = {};", rng.below(8), expr(rng, 0))
            } else {
                format!("assign {n} = {};", expr(rng, 0))
            }
        }
        _ => format!("var {n}: {t};"),
    }
}

/// Either every member on its own line or the whole list on one line.
fn list(rng: &mut Rng, head: &str, items: Vec<String>, indent: &str) -> String {
    if rng.chance(1, 2) {
        format!("{indent}{head} {{ {} }}\n", items.join(", "))
    } else {
        let mut s = format!("{indent}{head} {{\n");
        for it in &items {
            s.push_str(&format!("{indent}    {it},\n"));
        }
        s.push_str(&format!("{indent}}}\n"));
        s
    }
}

pub fn module(rng: &mut Rng) -> String {
    let mut used: Vec<String> = vec![];
    let mut s = String::new();
    if rng.chance(1, 2) {
        // interface with modports
        let k = 2 + rng.below(4);
        let vars: Vec<String> = (0..k).map(|_| name(rng, &mut used)).collect();
        s.push_str("interface SynIf {\n");
        for v in &vars {
            s.push_str(&format!("    var {v}: {};\n", rng.pick(TYPES)));
        }
        let items: Vec<String> = vars.iter().map(|v| format!("{v}: {}", rng.pick(&["input", "output"]))).collect();
        s.push_str(&list(rng, "modport mp", items, "    "));
        s.push_str("}\n");
    }
    // module header
    s.push_str("module SynTop");
    let np = rng.below(4);
    if np > 0 {
        let items: Vec<String> = (0..np)
            .map(|_| format!("param {}: {} = {}", name(rng, &mut used).to_uppercase(), rng.pick(&["u32", "bit<8>", "u64"]), rng.below(64)))
            .collect();
        if rng.chance(1, 2) {
            s.push_str(&format!(" #({})", items.join(", ")));
        } else {
            s.push_str(&format!(" #(\n    {},\n)", items.join(",\n    ")));
        }
    }
    let nports = 1 + rng.below(5);
    let items: Vec<String> = (0..nports)
        .map(|i| {
            let n = name(rng, &mut used);
            let dir = rng.pick(&["input", "output", "inout"]);
            let t = if i == 0 { "clock" } else { *rng.pick(TYPES) };
            format!("{n}: {dir} {t}")
        })
        .collect();
    if rng.chance(1, 2) {
        s.push_str(&format!(" ({})", items.join(", ")));
    } else {
        s.push_str(&format!(" (\n    {},\n)", items.join(",\n    ")));
    }
    s.push_str(" {\n");
    // body: runs of adjacent items
    let runs = 3 + rng.below(5);
    for _ in 0..runs {
        match rng.below(9) {
            0 | 1 => {
                let k = 2 + rng.below(4);
                for _ in 0..k {
                    s.push_str(&format!("    {}\n", inst(rng, &mut used)));
                }
            }
            2 => {
                // mixed run: inst between declarations
                s.push_str(&format!("    {}\n", decl(rng, &mut used, "var")));
                s.push_str(&format!("    {}\n", inst(rng, &mut used)));
                s.push_str(&format!("    {}\n", inst(rng, &mut used)));
                s.push_str(&format!("    {}\n", decl(rng, &mut used, "let")));
            }
            3 | 4 => {
                let kw = *rng.pick(&["var", "let", "const", "assign"]);
                let k = 2 + rng.below(5);
                for _ in 0..k {
                    s.push_str(&format!("    {}\n", decl(rng, &mut used, kw)));
                }
            }
            5 => {
                let k = 2 + rng.below(4);
                let items: Vec<String> = (0..k).map(|_| format!("{}: {}", name(rng, &mut used), rng.pick(TYPES))).collect();
                let h = format!("struct S{}", used.len());
                s.push_str(&list(rng, &h, items, "    "));
            }
            6 => {
                let k = 2 + rng.below(4);
                let items: Vec<String> = (0..k)
                    .map(|i| {
                        let n = name(rng, &mut used).to_uppercase();
                        if rng.chance(1, 2) { format!("{n} = {i}") } else { n }
                    })
                    .collect();
                let h = format!("enum E{}: logic<4>", used.len());
                s.push_str(&list(rng, &h, items, "    "));
            }
            7 => {
                // case / switch arms
                let sel = rng.pick(STEMS);
                let dst = name(rng, &mut used);
                s.push_str("    always_comb {\n");
                s.push_str(&format!("        case {sel} {{\n"));
                let k = 2 + rng.below(4);
                for i in 0..k {
                    let cond = match rng.below(3) {
                        0 => format!("{i}"),
                        1 => format!("8'd{}, 8'd{}", 10 * i, 10 * i + 1),
                        _ => format!("{}..={}", 100 * i, 100 * i + 50),
                    };
                    s.push_str(&format!("            {cond}: {dst} = {};\n", expr(rng, 1)));
                }
                s.push_str(&format!("            default: {dst} = 0;\n        }}\n    }}\n"));
            }
            _ => {
                // always_ff with a run of assignments
                s.push_str("    always_ff {\n        if_reset {\n");
                let k = 2 + rng.below(4);
                let names: Vec<String> = (0..k).map(|_| name(rng, &mut used)).collect();
                for n in &names {
                    s.push_str(&format!("            {n} = 0;\n"));
                }
                s.push_str("        } else {\n");
                for n in &names {
                    s.push_str(&format!("            {n} = {};\n", expr(rng, 0)));
                }
                s.push_str("        }\n    }\n");
            }
        }
        if rng.chance(1, 3) {
            s.push('\n');
        }
    }
    s.push_str("}\n");
    s
}

// ---------------------------------------------------------------------------------------------
// Multi-byte text INSIDE TOKENS (string literals), followed by further tokens on the same line.

const MB: &[&str] = &["é", "°C", "température", "温度", "日本語", "🎉", "ü", "Ω→", "𝔘𝔫𝔦", "naïve café", "値 %d", "ß%h"];

pub fn mb_text(rng: &mut Rng) -> String {
    let k = 1 + rng.below(3);
    let mut s = String::new();
    for i in 0..k {
        if i > 0 {
            s.push(' ');
        }
        let w: &str = *rng.pick::<&str>(MB);
        s.push_str(w);
        if rng.chance(1, 3) {
            s.push_str(" %d");
        }
    }
    s
}

/// An analyzer-clean module whose statements carry string literals with 2-, 3- and 4-byte
/// characters, several per line, each followed by more tokens on the same line.
pub fn string_module(rng: &mut Rng) -> String {
    let mut s = String::new();
    s.push_str(&format!("module StrSyn{} (\n    i_clk: input clock,\n    i_d  : input logic<8>,\n) {{\n", rng.below(1000)));
    let nconst = rng.below(3);
    for i in 0..nconst {
        s.push_str(&format!("    const MSG{i}: string = \"{}\"; const N{i}: u32 = {};\n", mb_text(rng), rng.below(99)));
    }
    s.push_str("    var temp: logic<8>; var mode: logic<8>;\n    assign temp = i_d; assign mode = i_d + 1;\n");
    if rng.chance(1, 2) {
        s.push_str(&format!("    #[sv(\"mark={}\")]\n    var marked: logic<8>;\n    assign marked = temp;\n", mb_text(rng).replace(' ', "_")));
    }
    let fns = ["$display", "$write", "$info", "$warning"];
    let call = |rng: &mut Rng| -> String {
        let f: &str = *rng.pick::<&str>(&fns);
        let nargs = rng.below(4);
        let args: Vec<&str> = (0..nargs).map(|i| ["temp", "mode", "i_d", "temp + mode"][i as usize % 4]).collect();
        if args.is_empty() {
            format!("{f}(\"{}\");", mb_text(rng))
        } else {
            format!("{f}(\"{}\", {});", mb_text(rng), args.join(", "))
        }
    };
    let blocks = 1 + rng.below(3);
    for _ in 0..blocks {
        match rng.below(3) {
            0 => {
                s.push_str("    initial {\n");
                for _ in 0..1 + rng.below(3) {
                    // one or two calls per source line
                    if rng.chance(1, 2) {
                        s.push_str(&format!("        {} {}\n", call(rng), call(rng)));
                    } else {
                        s.push_str(&format!("        {}\n", call(rng)));
                    }
                }
                s.push_str("    }\n");
            }
            1 => {
                s.push_str("    always_ff (i_clk) {\n");
                s.push_str(&format!("        if temp == {} {{ {} }} else {{ {} }}\n", rng.below(9), call(rng), call(rng)));
                s.push_str("    }\n");
            }
            _ => {
                s.push_str("    final {\n");
                s.push_str(&format!("        {} {}\n", call(rng), call(rng)));
                s.push_str("    }\n");
            }
        }
    }
    s.push_str("}\n");
    s
}

/// Rewrite existing string literals of a text: multi-byte characters are put in front of the
/// closing quote (strings of `include`/`embed` declarations name files or languages: untouched).
pub fn mutate_strings(src: &str, rng: &mut Rng, permille: u64) -> String {
    use vcommon::lex::{Kind, lex};
    if src.contains("include") {
        return src.to_string();
    }
    let mut out = String::with_capacity(src.len() + 64);
    for t in lex(src, false) {
        if t.kind == Kind::Str && t.text.len() >= 2 && t.text.ends_with('"') && rng.below(1000) < permille {
            out.push_str(&t.text[..t.text.len() - 1]);
            out.push_str(&mb_text(rng));
            out.push('"');
        } else {
            out.push_str(&t.text);
        }
    }
    out
}
