//! C08 — formatting is idempotent;  C09 — formatting only changes layout.
//!
//! Both drive the real front end the way `veryl fmt` does (parse →
//! analyze_pass1 → `Formatter::format`), one run per fresh thread, over the
//! repository corpus and layout-mutated versions of it, across the `[format]`
//! settings grid.
//!
//! C08 refuting event: fmt(fmt(x)) != fmt(x), byte for byte.
//! C09 refuting events: fmt(x) does not parse; its token sequence differs from
//! x's beyond `,`-before-closer; its comments (right-trimmed) differ or are
//! reordered; emit(fmt(x)) and emit(x) differ as SV token streams.

use crate::util::*;
use std::sync::Arc;
use vcommon::mutate::{LayoutOpts, layout};
use vcommon::pool::{PanicInfo, STACK_64M, fresh_thread, par_cases};
use vcommon::rng::hash_str;
use vcommon::{Args, Json, Rng, Run, json};

/// Sabotage switch for sensitivity experiments only (`--set sabotage=…`);
/// never set by a registered check.
#[derive(Clone, Debug, Default)]
struct Sabotage(Option<String>);

fn sabotage_text(s: &Sabotage, text: &str) -> String {
    match s.0.as_deref() {
        // delete the first comment of the formatter's output before comparing
        Some("drop_comment") => {
            let toks = vcommon::lex::lex(text, false);
            let mut out = String::new();
            let mut done = false;
            for t in toks {
                if !done && matches!(t.kind, vcommon::lex::Kind::BlockComment) {
                    done = true;
                    continue;
                }
                out.push_str(&t.text);
            }
            out
        }
        // swallow one token
        Some("drop_token") => {
            let toks = vcommon::lex::lex(text, false);
            let n = toks.iter().filter(|t| t.kind == vcommon::lex::Kind::Number).count();
            let mut out = String::new();
            let mut k = 0;
            for t in toks {
                if t.kind == vcommon::lex::Kind::Number {
                    k += 1;
                    if k == n.div_ceil(2) {
                        out.push('7');
                        continue;
                    }
                }
                out.push_str(&t.text);
            }
            out
        }
        // make the second formatting differ (append a blank to one line)
        Some("second_pass") => text.replacen("\n", " \n", 1),
        _ => text.to_string(),
    }
}

fn replay_case(name: &str, input: &str, setting: &Setting) -> Json {
    json!({"name": name, "input": input, "setting": setting.to_json()})
}

fn panic_note(what: &str, name: &str, s: &Setting, p: &PanicInfo) -> String {
    format!("{what} panicked on {name} [{}] at {}: {}", s.label(), p.location, clip(&p.message, 120))
}

/// Analyze + emit on a fresh thread.  Ok(None) = text does not parse.
fn emit_sv(text: &str, setting: &Setting) -> Result<Option<String>, PanicInfo> {
    let t = text.to_string();
    let s = setting.clone();
    fresh_thread(STACK_64M, move || {
        let md = s.metadata("");
        match vcommon::pipeline::analyze_one(&t, &md) {
            Ok(a) => Some(a.emit(0)),
            Err(_) => None,
        }
    })
}

fn judge_c08(name: &str, input: &str, setting: &Setting, sab: &Sabotage) -> CaseReport {
    let mut r = CaseReport::default();
    let fx = match front_fresh(input, setting, true) {
        Ok(f) => f,
        Err(p) => {
            r.count("formatter_panicked_not_judged", 1);
            r.notes.push(panic_note("formatter", name, setting, &p));
            return r;
        }
    };
    if fx.parse_error.is_some() {
        r.count("rejected_by_parser", 1);
        return r;
    }
    r.count("parsed_inputs", 1);
    let f1 = fx.formatted.unwrap();
    let ff = match front_fresh(&f1, setting, true) {
        Ok(f) => f,
        Err(p) => {
            r.count("formatter_panicked_not_judged", 1);
            r.notes.push(panic_note("second formatter run", name, setting, &p));
            return r;
        }
    };
    if ff.parse_error.is_some() {
        // C09's clause ("the formatted output also parses"); nothing to re-format here.
        r.count("formatted_output_unparseable_not_judged", 1);
        return r;
    }
    let f2 = sabotage_text(sab, &ff.formatted.unwrap());
    r.count("format_pairs_compared", 1);
    r.count("bytes_compared", f1.len() as i64);
    r.seen("settings", &setting.label());
    if f1 != input {
        r.count("inputs_changed_by_first_format", 1);
        if name.starts_with("corpus:") && *setting == Setting::default() {
            r.seen("corpus_files_changed_at_default_setting", name);
        }
        r.nontrivial = Some(hash_str(&format!("{}\u{0}{}", setting.label(), input)));
    }
    if f1.lines().any(|l| l.chars().count() > setting.max_width) {
        r.count("outputs_with_overlong_lines", 1);
    }
    if f1.lines().count() > input.lines().count() {
        r.count("outputs_with_more_lines_than_input", 1);
    }
    if f2 == f1 {
        if f1 != input {
            r.sample = Some(json!({"case": name, "setting": setting.label(), "input_bytes": input.len(),
                "formatted_bytes": f1.len(), "input_head": clip(input, 160), "formatted_head": clip(&f1, 160)}));
        }
        return r;
    }
    // Triage.  (1) keep formatting: after how many runs is the text a fixed point (if at all)?
    let mut cur = f2.clone();
    let mut runs_to_fixpoint = 0u32;
    for k in 3..=8u32 {
        let Some(next) = front_fresh(&cur, setting, true).ok().and_then(|f| f.formatted) else { break };
        if next == cur {
            runs_to_fixpoint = k - 1;
            break;
        }
        cur = next;
    }
    let fix = if runs_to_fixpoint > 0 { "converges" } else { "no-fixpoint-within-8-runs" };
    r.count(&format!("fixpoint_reached_after_runs:{}", if runs_to_fixpoint > 0 { runs_to_fixpoint.to_string() } else { "none<=8".into() }), 1);
    // (2) does the failure need the alignment pass?  Same input, same setting, vertical_align off.
    // One root cause (alignment groups keyed on source-line gaps, notes/C08.md) makes a large share
    // of all unformatted inputs fail, so failures that disappear with vertical_align off are keyed
    // on the kind of difference only.  If the failure persists with alignment off, that
    // alignment-free failure is the one reported (kind + shape of the lines where it shows).
    let mut eff = (setting.clone(), f1.clone(), f2.clone());
    let mut align_only = false;
    if setting.vertical_align {
        let mut s2 = setting.clone();
        s2.vertical_align = false;
        if let Ok(g1) = front_fresh(input, &s2, true)
            && let Some(g1t) = g1.formatted
            && let Ok(g2) = front_fresh(&g1t, &s2, true)
            && let Some(g2t) = g2.formatted
        {
            if g1t == g2t {
                align_only = true;
            } else {
                eff = (s2, g1t, g2t);
            }
        }
    }
    let (eset, e1, e2) = eff;
    let kind = classify_diff(&e1, &e2);
    let (ln, a, b) = first_diff_line(&e1, &e2).unwrap_or((0, String::new(), String::new()));
    let sig = if align_only && name.starts_with("synth-one-item-per-line") {
        // Inputs whose alignable items each sit on one source line, on adjacent lines: the known
        // source-line-gap defect only shows for some item kinds here, so the kind of the first
        // line that moves is part of the signature and a NEW kind is a new violation.
        let item = item_kind(&a);
        r.count(&format!("class:vertical-align:one-item-per-line:{item}:{fix}"), 1);
        format!("nonidempotent:vertical-align:{fix}:one-item-per-line:{item}")
    } else if align_only {
        r.count(&format!("class:vertical-align:{kind}:{fix}"), 1);
        format!("nonidempotent:vertical-align:{fix}")
    } else {
        let prev = e1.split('\n').take(ln.saturating_sub(1)).filter(|l| !l.trim().is_empty()).last().unwrap_or("");
        let ctx = if line_shape(prev) == "," {
            // a separator alone on its line (it follows a line comment): notes/C08.md, defect 3
            "after-lone-comma-line".to_string()
        } else {
            format!("{} | {}", line_shape(prev), line_shape(&a))
        };
        r.count(&format!("class:alignment-free:{kind}"), 1);
        format!("nonidempotent:{kind}:{ctx}")
    };
    r.violation(
        sig,
        format!(
            "{name} [{}]: fmt(fmt(x)) != fmt(x); first differing line {ln}: first run {:?}, second run {:?}",
            eset.label(),
            a,
            b
        ),
        {
            let mut c = replay_case(name, input, &eset);
            c["fmt1"] = json!(e1);
            c["fmt2"] = json!(e2);
            c
        },
    );
    r
}

/// Non-vacuity of the synthetic arm: pairs of adjacent source lines `inst LONG: M … (p: e, …);`
/// (named connections: the formatter breaks the list) / `inst SHORT…;` with a shorter name and
/// no named list (stays on one line).
fn breaking_inst_pairs(text: &str) -> i64 {
    let lines: Vec<&str> = text.lines().map(|l| l.trim()).collect();
    let name_len = |l: &str| l.strip_prefix("inst ").map(|r| r.split(':').next().unwrap_or("").trim().len());
    let mut n = 0;
    for w in lines.windows(2) {
        if let (Some(a), Some(b)) = (name_len(w[0]), name_len(w[1])) {
            let first_breaks = w[0].rfind('(').is_some_and(|p| w[0][p..].contains(": "));
            let second_flat = !w[1].rfind('(').is_some_and(|p| w[1][p..].contains(": ")) && !w[1].contains("#(");
            if first_breaks && second_flat && b < a {
                n += 1;
            }
        }
    }
    n
}

/// Kind of alignable item a formatted line starts (first keyword), for signatures.
fn item_kind(line: &str) -> String {
    let w: String = line.trim_start().chars().take_while(|c| c.is_ascii_alphanumeric() || *c == '_').collect();
    match w.as_str() {
        "inst" | "var" | "let" | "const" | "param" | "assign" | "modport" | "struct" | "enum" | "case" | "switch" | "default" | "function" | "import"
        | "always_ff" | "always_comb" | "module" | "interface" | "package" | "type" | "connect" | "bind" | "if" | "for" => w,
        "" => "punctuation-or-number".to_string(),
        _ => "member-or-statement".to_string(),
    }
}

/// Coarse class of an idempotence failure: do the two outputs differ only in
/// the amount of blank padding inside lines (alignment), or in line structure?
fn classify_diff(f1: &str, f2: &str) -> &'static str {
    let strip = |l: &str| -> String { l.chars().filter(|c| !matches!(*c, ' ' | '\t' | '\r')).collect() };
    let a: Vec<String> = f1.split('\n').map(strip).collect();
    let b: Vec<String> = f2.split('\n').map(strip).collect();
    if a == b {
        "padding-only"
    } else if a.iter().filter(|l| !l.is_empty()).eq(b.iter().filter(|l| !l.is_empty())) {
        "blank-lines"
    } else if a.concat() == b.concat() {
        "line-breaks"
    } else {
        "content"
    }
}

/// Shape class of a comment text, for signatures.
fn comment_class(c: &str) -> &'static str {
    if c.starts_with("//") {
        if c.contains("/*") || c.contains("*/") { "line-comment-holding-block-delimiter" } else { "line-comment" }
    } else if c.len() >= 4 && c.ends_with("**/") {
        "block-comment-closed-by-star-run"
    } else if c.starts_with("/**") {
        "block-comment-opened-by-star-run"
    } else {
        "block-comment"
    }
}

fn trailing_commas(tokens: &[String]) -> i64 {
    tokens
        .iter()
        .enumerate()
        .filter(|(i, t)| *t == "," && tokens.get(i + 1).is_some_and(|n| is_closer(n)))
        .count() as i64
}

fn judge_c09(name: &str, input: &str, setting: &Setting, sab: &Sabotage) -> CaseReport {
    let mut r = CaseReport::default();
    let fx = match front_fresh(input, setting, true) {
        Ok(f) => f,
        Err(p) => {
            r.count("formatter_panicked_not_judged", 1);
            r.notes.push(panic_note("formatter", name, setting, &p));
            return r;
        }
    };
    if fx.parse_error.is_some() {
        r.count("rejected_by_parser", 1);
        return r;
    }
    r.count("parsed_inputs", 1);
    r.seen("settings", &setting.label());
    let mut f1 = sabotage_text(sab, &fx.formatted.clone().unwrap());
    // the parser's comment list of the original (a sabotage may thin it out, like a parser that
    // drops comments while parsing would)
    let mut in_comments = fx.stream.comments.clone();
    if sab.0.as_deref() == Some("parser_drops_starrun") {
        in_comments.retain(|c| !c.trim_end().ends_with("**/"));
        let mut t = String::new();
        for tok in vcommon::lex::lex(&f1, false) {
            if tok.kind == vcommon::lex::Kind::BlockComment && tok.text.ends_with("**/") {
                continue;
            }
            t.push_str(&tok.text);
        }
        f1 = t;
    }
    let f1 = f1;
    let replay = || {
        let mut c = replay_case(name, input, setting);
        c["formatted"] = json!(f1);
        c
    };
    let head = format!("{name} [{}]", setting.label());

    // (1) the formatted output parses
    let ff = match front_fresh(&f1, setting, false) {
        Ok(f) => f,
        Err(p) => {
            r.count("parser_panicked_on_formatted_not_judged", 1);
            r.notes.push(panic_note("parser (on formatted text)", name, setting, &p));
            return r;
        }
    };
    if let Some(e) = &ff.parse_error {
        let (ln, col) = error_pos(e);
        let ctx = f1.lines().nth(ln.saturating_sub(1)).unwrap_or("");
        r.violation(
            format!("unparseable:{}", line_shape(ctx)),
            format!("{head}: formatted output does not parse: {e} (line {ln} col {col}: {:?})", clip(ctx, 120)),
            replay(),
        );
        return r;
    }
    r.count("formatted_outputs_parsed", 1);

    // (2) token sequence
    let ta = normalise_tokens(&fx.stream.tokens);
    let tb = normalise_tokens(&ff.stream.tokens);
    r.count("tokens_compared", ta.len() as i64);
    let ca = trailing_commas(&fx.stream.tokens);
    let cb = trailing_commas(&ff.stream.tokens);
    r.count("trailing_separators_in_inputs", ca);
    r.count("trailing_separators_in_outputs", cb);
    if ca != cb {
        r.count("cases_where_trailing_separators_changed", 1);
    }
    let mut real_ok = true;
    if let Some((k, a, b)) = first_diff(&ta, &tb) {
        real_ok = false;
        r.violation(
            format!("tokens:{}", clip(ta.get(k).map(|s| s.as_str()).unwrap_or("<end>"), 20)),
            format!("{head}: token sequence changed at token {k}: input …{a}… vs formatted …{b}…"),
            replay(),
        );
    }
    // (3) comments
    let cma = normalise_comments(&in_comments);
    let cmb = normalise_comments(&ff.stream.comments);
    r.count("comments_compared", cma.len() as i64);
    if !fx.stream.comments.is_empty() {
        r.count("inputs_with_comments", 1);
    }
    if let Some((k, a, b)) = first_diff(&cma, &cmb) {
        real_ok = false;
        let kind = if cmb.len() < cma.len() {
            "lost"
        } else if cmb.len() > cma.len() {
            "gained"
        } else {
            "changed"
        };
        r.violation(
            format!("comments:{kind}"),
            format!(
                "{head}: comments {kind} ({} in input, {} in formatted), first difference at comment {k}: input …{a}… vs formatted …{b}…",
                cma.len(),
                cmb.len()
            ),
            replay(),
        );
    }
    // (3b) the same two comparisons through the independent lexer
    let la = lex_tokens_normalised(input);
    let lb = lex_tokens_normalised(&f1);
    let lca = lex_comments_normalised(input);
    let lcb = lex_comments_normalised(&f1);
    r.count("lexer_crosscheck_tokens", la.len() as i64);
    for (k, n) in comment_shape_counts(input) {
        r.count(&k, n);
    }
    r.count("comments_found_by_independent_scan_of_original", lca.len() as i64);
    if real_ok {
        if let Some((k, a, b)) = first_diff(&la, &lb) {
            r.violation(
                format!("lexcheck:tokens:{}", clip(la.get(k).map(|s| s.as_str()).unwrap_or("<end>"), 20)),
                format!("{head}: independent lexer sees a token change the parser's stream does not show, at token {k}: …{a}… vs …{b}…"),
                replay(),
            );
        }
        // comments: independent scan of the ORIGINAL text against independent scan of the
        // formatted text (a comment the parser drops while parsing is missing from its stream on
        // both sides, so only this comparison sees it)
        if let Some((k, a, b)) = first_diff(&lca, &lcb) {
            let kind = if lcb.len() < lca.len() { "lost" } else if lcb.len() > lca.len() { "gained" } else { "changed" };
            let shape = lca.get(k).map(|c| comment_class(c)).unwrap_or("none");
            r.violation(
                format!("lexcheck:comments:{kind}:{shape}"),
                format!(
                    "{head}: the original text holds {} comments (independent scan; the parser's own stream of the original lists {}), the formatted text {}; first difference at comment {k}: …{a}… vs …{b}…",
                    lca.len(),
                    fx.stream.comments.len(),
                    lcb.len()
                ),
                replay(),
            );
        }
    }

    // (4) same SystemVerilog
    let changed = f1 != input;
    if changed {
        r.count("inputs_changed_by_format", 1);
        if !fx.stream.comments.is_empty() {
            r.nontrivial = Some(hash_str(&format!("{}\u{0}{}", setting.label(), input)));
        }
    }
    if changed && real_ok {
        match (emit_sv(input, setting), emit_sv(&f1, setting)) {
            (Ok(Some(sa)), Ok(Some(sb))) => {
                let sb = if sab.0.as_deref() == Some("sv") { sb.replacen("logic", "bit", 1) } else { sb };
                let va = sv_tokens(&sa);
                let vb = sv_tokens(&sb);
                r.count("emit_pairs_compared", 1);
                r.count("sv_tokens_compared", va.len() as i64);
                if let Some((k, a, b)) = first_diff(&va, &vb) {
                    // control: is emission of x itself reproducible? (C24's business if not)
                    let again = emit_sv(input, setting).ok().flatten().map(|s| sv_tokens(&s));
                    if again.as_ref() != Some(&va) {
                        r.count("emit_not_reproducible_not_judged", 1);
                    } else {
                        r.violation(
                            format!("sv:{}", clip(va.get(k).map(|s| s.as_str()).unwrap_or("<end>"), 20)),
                            format!("{head}: emit(fmt(x)) differs from emit(x) at SV token {k}: …{a}… vs …{b}…"),
                            {
                                let mut c = replay();
                                c["sv_input"] = json!(sa);
                                c["sv_formatted"] = json!(sb);
                                c
                            },
                        );
                    }
                }
            }
            (Ok(Some(_)), Err(p)) => {
                // emission works on x but panics on fmt(x): confirm both halves once more
                let again_x = emit_sv(input, setting);
                let again_f = emit_sv(&f1, setting);
                if matches!(again_x, Ok(Some(_))) && again_f.is_err() {
                    r.violation(
                        format!("sv:emit-panics-after-format:{}", p.location),
                        format!("{head}: emission succeeds on x but panics on fmt(x) at {}: {}", p.location, clip(&p.message, 120)),
                        replay(),
                    );
                } else {
                    r.count("emit_not_reproducible_not_judged", 1);
                }
            }
            (Err(p), _) => {
                r.count("emitter_panicked_not_judged", 1);
                r.notes.push(panic_note("analyzer/emitter", name, setting, &p));
            }
            _ => {
                r.count("emit_skipped_not_judged", 1);
            }
        }
    }
    if r.violations.is_empty() && changed && fx.stream.comments.len() > 1 {
        r.sample = Some(json!({"case": name, "setting": setting.label(), "tokens": ta.len(), "comments": cma.len(),
            "input_head": clip(input, 160), "formatted_head": clip(&f1, 160)}));
    }
    r
}

/// (line, column) out of a parser error's first line, 0 when absent.
fn error_pos(e: &str) -> (usize, usize) {
    // miette/parol messages carry "…:LINE:COL" somewhere; take the last two numbers around ':'
    let mut best = (0, 0);
    let parts: Vec<&str> = e.split(':').collect();
    for w in parts.windows(2) {
        let a: String = w[0].chars().rev().take_while(|c| c.is_ascii_digit()).collect::<String>().chars().rev().collect();
        let b: String = w[1].chars().take_while(|c| c.is_ascii_digit()).collect();
        if !a.is_empty()
            && !b.is_empty()
            && let (Ok(x), Ok(y)) = (a.parse(), b.parse())
        {
            best = (x, y);
        }
    }
    best
}

/// Input `j`: the corpus as-is first, then layout mutations of it.
pub fn gen_input(corpus: &[vcommon::corpus::CorpusFile], seed: u64, tag: &str, j: u64) -> (String, String) {
    let n = corpus.len() as u64;
    if j < n {
        let f = &corpus[j as usize];
        return (format!("corpus:{}:{}", f.kind, f.name), f.text.clone());
    }
    let mut rng = Rng::for_case(seed, tag, j);
    // every second generated input is a synthetic module of adjacent alignable items with varied
    // name lengths, one item per source line (alignsyn.rs); half of those keep that layout
    let m = j - n;
    if m % 8 == 7 {
        let t = crate::alignsyn::string_module(&mut rng);
        let o = LayoutOpts::random(&mut rng);
        return (format!("strsyn+layout#{m}"), layout(&t, &mut rng, &o));
    }
    if m % 2 == 1 {
        let text = crate::alignsyn::module(&mut rng);
        if (m / 2) % 2 == 0 {
            return (format!("synth-one-item-per-line#{m}"), text);
        }
        if (m / 4) % 3 == 0 {
            let p = *rng.pick(&[30u64, 120]);
            return (format!("synth+comment-shapes#{m}"), mutate_comment_shapes(&text, &mut rng, p));
        }
        let o = LayoutOpts::random(&mut rng);
        return (format!("synth+layout#{m}"), layout(&text, &mut rng, &o));
    }
    let f = &corpus[((m / 2) % n) as usize];
    let mut text = f.text.clone();
    let mut ops = vec![];
    if rng.chance(3, 4) {
        let o = LayoutOpts::random(&mut rng);
        text = layout(&text, &mut rng, &o);
        ops.push("layout");
    }
    if rng.chance(1, 3) {
        let p = *rng.pick(&[200u64, 600, 1000]);
        text = join_lines(&text, &mut rng, p);
        ops.push("join");
    }
    if rng.chance(1, 2) {
        let add = *rng.pick(&[0u64, 100, 500]);
        let del = *rng.pick(&[0u64, 300, 1000]);
        text = mutate_trailing_commas(&text, &mut rng, add, del);
        ops.push("commas");
    }
    if rng.chance(1, 4) {
        text = crate::alignsyn::mutate_strings(&text, &mut rng, 700);
        ops.push("strings");
    }
    if rng.chance(2, 5) {
        let p = *rng.pick(&[15u64, 60, 150]);
        text = mutate_comment_shapes(&text, &mut rng, p);
        ops.push("comment-shapes");
    }
    if ops.is_empty() {
        let o = LayoutOpts { ws_permille: 900, insert_permille: 100, comment_permille: 40, multibyte: true, ..Default::default() };
        text = layout(&text, &mut rng, &o);
        ops.push("layout");
    }
    (format!("{}:{}:{}#{}", ops.join("+"), f.kind, f.name, m / (2 * n)), text)
}

/// The `k` settings tried for input `j` (first one is the default for as-is corpus files).
pub fn settings_for(seed: u64, tag: &str, j: u64, k: u64, as_is: bool) -> Vec<Setting> {
    let mut rng = Rng::for_case(seed, &format!("{tag}-settings"), j);
    let mut v: Vec<Setting> = vec![];
    if as_is {
        v.push(Setting::default());
    }
    let mut guard = 0;
    while (v.len() as u64) < k && guard < 1000 {
        guard += 1;
        let s = Setting::random(&mut rng);
        if !v.contains(&s) {
            v.push(s);
        }
    }
    v
}

pub fn main(args: Args) {
    let is08 = args.prop == "C08";
    let rule = if is08 {
        "case = (input text, [format] setting); inputs = repository .veryl corpus as-is plus layout mutations (random whitespace / \
         newlines / CRLF / inserted comments incl. multi-byte, joined lines, added/removed trailing commas) filtered by the real \
         parser; settings from indent_width{1,2,4,8} x max_width{20,40,80,120,200} x vertical_align x newline_style{auto,unix,windows}; \
         non-trivial = the first formatting changed the text; distinct = distinct (setting, input text)"
    } else {
        "case = (input text, [format] setting), same workload as C08; non-trivial = the formatter changed the text and the input \
         carries >=1 comment; distinct = distinct (setting, input text)"
    };
    let run = Arc::new(Run::new(args.clone(), "exploration", rule));
    run.assume("the formatter is driven as `veryl fmt` drives it: Parser::parse, Analyzer::analyze_pass1, Formatter::format (one run per fresh thread)");
    if !is08 {
        run.assume("'optional trailing separator' = a `,` token immediately followed by a closing ) } ] > token; removed from both streams before comparing");
        run.assume("comments and multi-line (embed) tokens are compared modulo blanks at line ends; SV streams are compared with vcommon::lex (whitespace/comment-insensitive)");
        run.assume("emission runs after all four analyzer passes on the single file; analyzer diagnostics do not prevent emission (as in `veryl build` for warnings; errors are ignored here on both sides alike)");
    }
    let sab = Sabotage(args.get("sabotage").map(|s| s.to_string()));
    if sab.0.is_some() {
        run.note(format!("SABOTAGE MODE {:?}: this run is a sensitivity experiment, not a verdict", sab.0));
    }

    if let Some(rp) = &args.replay {
        let v: Json = serde_json::from_str(&std::fs::read_to_string(rp).expect("replay file")).expect("replay json");
        let c = &v["case"];
        let input = c["input"].as_str().expect("case.input");
        let name = c["name"].as_str().unwrap_or("replay");
        let setting = Setting::from_json(&c["setting"]);
        if args.get("minimise").is_some() {
            // triage helper: shrink the input while the same signature keeps firing
            let want = v["signature"].as_str().unwrap_or("").to_string();
            // hard cap (seconds, default 120): the machine is shared
            let cap = args.get("minimise").and_then(|x| x.parse::<u64>().ok()).filter(|x| *x > 1).unwrap_or(120);
            let deadline = vcommon::pool::Deadline::new(cap);
            let test = |t: &str| -> bool {
                if deadline.expired() {
                    return false;
                }
                let r = if is08 { judge_c08("min", t, &setting, &sab) } else { judge_c09("min", t, &setting, &sab) };
                r.violations.iter().any(|(s, _, _)| *s == want)
            };
            if test(input) {
                let m = ddmin(input, &test);
                println!("MINIMISED ({} -> {} bytes) setting {}:\n-----\n{}\n-----", input.len(), m.len(), setting.label(), m);
                let r = if is08 { judge_c08("min", &m, &setting, &sab) } else { judge_c09("min", &m, &setting, &sab) };
                for (_, w, c) in &r.violations {
                    println!("{w}");
                    for k in ["fmt1", "fmt2", "formatted"] {
                        if let Some(t) = c[k].as_str() {
                            println!("--- {k}:\n{t}");
                        }
                    }
                }
            } else {
                println!("signature {want} does not reproduce on this tree");
            }
            std::process::exit(0);
        }
        let r = if is08 { judge_c08(name, input, &setting, &sab) } else { judge_c09(name, input, &setting, &sab) };
        r.apply(&run);
        run.finish(&[]);
    }

    let corpus: Arc<Vec<vcommon::corpus::CorpusFile>> = Arc::new(vcommon::corpus::all_veryl());
    // sized for a shared, heavily loaded 16-core machine (5-15 evaluations/s): quick 2-4 min, thorough ~30-40 min
    let n_inputs = args.budget("inputs", if is08 { 1000 } else { 700 }, if is08 { 2400 } else { 1800 });
    let k = args.budget("settings", if is08 { 3 } else { 2 }, if is08 { 5 } else { 4 });
    let seed = args.seed;
    let total = n_inputs * k;
    let tag: &'static str = if is08 { "C08" } else { "C09" };
    let run2 = run.clone();
    let corpus2 = corpus.clone();
    let sab2 = sab.clone();
    par_cases(
        total,
        args.jobs,
        STACK_64M,
        move |i| {
            let j = i / k;
            let si = (i % k) as usize;
            let as_is = j < corpus2.len() as u64;
            let settings = settings_for(seed, tag, j, k, as_is);
            let Some(setting) = settings.get(si) else {
                return CaseReport::default();
            };
            let (name, text) = gen_input(&corpus2, seed, tag, j);
            let mut r = if is08 { judge_c08(&name, &text, setting, &sab2) } else { judge_c09(&name, &text, setting, &sab2) };
            if text.contains("\r\n") {
                r.count("crlf_input_cases", 1);
            }
            if !as_is {
                r.count("mutated_input_cases", 1);
            }
            if name.starts_with("synth") {
                let parsed = r.counts.iter().any(|(k, _)| k == "parsed_inputs");
                r.count(if parsed { "synthetic_inputs_parsed" } else { "synthetic_inputs_rejected_by_parser" }, 1);
                if parsed && name.starts_with("synth-one-item-per-line") {
                    r.count("synthetic_one_item_per_line_cases", 1);
                    r.count("synthetic_breaking_inst_followed_by_shorter_one_line_inst", breaking_inst_pairs(&text));
                }
            }
            r
        },
        move |i, r| match r {
            Err(p) => {
                run2.eval();
                run2.count("harness_case_panicked_not_judged", 1);
                run2.note(format!("case {i}: harness thread panicked at {}: {}", p.location, p.message));
            }
            Ok(rep) => rep.apply(&run2),
        },
    );
    if is08 {
        run.finish(&[
            ("format_pairs_compared", 400),
            ("inputs_changed_by_first_format", 250),
            ("settings", 40),
            ("crlf_input_cases", 8),
            ("distinct_nontrivial", 250),
            ("synthetic_inputs_parsed", 300),
            ("synthetic_one_item_per_line_cases", 150),
            ("synthetic_breaking_inst_followed_by_shorter_one_line_inst", 25),
        ]);
    } else {
        run.finish(&[
            ("formatted_outputs_parsed", 230),
            ("tokens_compared", 30_000),
            ("comments_compared", 800),
            ("emit_pairs_compared", 100),
            ("cases_where_trailing_separators_changed", 12),
            ("block_comments_closed_by_star_run", 120),
            ("block_comments_closed_by_star_run:2", 50),
            ("block_comments_closed_by_star_run:3", 30),
            ("block_comments_closed_by_star_run:4", 30),
            ("block_comments_opened_by_star_run", 100),
            ("empty_block_comments", 40),
            ("comments_glued_to_previous_comment", 50),
            ("line_comments_holding_block_delimiters", 60),
            ("texts_starting_with_a_comment", 30),
            ("texts_ending_in_a_comment_without_newline", 20),
            ("settings", 30),
            ("distinct_nontrivial", 40),
        ]);
    }
}
