//! C13 — source maps point at matching text on both sides.
//!
//! Refuting events, per decoded entry (dst_line, dst_col, src_line, src_col, name) of the
//! `.sv.map` the real emitter builds: the emitted text at (dst_line, dst_col) does not start with
//! `name`; no token or comment starts at (src_line, src_col) in the Veryl source; entries not in
//! output order; an output line that contains a word spelled like a source identifier (and not
//! an SV keyword) but carries no entry.
//!
//! Observation: in-process `Emitter::emit` after the four analyzer passes
//! (`vcommon::pipeline::Analyzed::emit_with`), the map decoded with the `sourcemap` crate
//! (0-based → 1-based); source positions from the real parser's `TokenCollector(true)`, only on
//! files where C12's oracle passes.  Column unit: the repo stores *character* columns on both
//! sides (`render.rs` counts chars, parol columns are chars) while the source-map convention is
//! UTF-16 units; the property does not name a unit, so a file is judged under whichever single
//! unit (chars, UTF-16 units, bytes) fits all its entries, and only an entry that fits none — or
//! a file whose entries need different units — is a violation.

use crate::c12;
use crate::util::*;
use std::collections::{BTreeSet, HashSet};
use std::sync::Arc;
use vcommon::lex::{Kind, lex};
use vcommon::mutate::{LayoutOpts, layout};
use vcommon::pool::{STACK_64M, fresh_thread, par_cases};
use vcommon::rng::hash_str;
use vcommon::{Args, Json, Rng, Run, json};
use veryl_parser::token_collector::TokenCollector;
use veryl_parser::veryl_token::TokenSource;
use veryl_parser::veryl_walker::VerylWalker;

#[derive(Clone, Debug)]
struct Entry {
    dst_line: u32, // 1-based
    dst_col: u32,  // 1-based, unit unknown
    src_line: u32,
    src_col: u32,
    name: String,
}

#[derive(Clone, Debug)]
struct SrcTok {
    line: u32,
    pos: usize,
    comment: bool,
}

struct Emitted {
    analyzer_errors: Vec<String>,
    sv: String,
    entries: Vec<Entry>,
    map_error: Option<String>,
    src_toks: Vec<SrcTok>,
    src_idents: HashSet<String>,
    /// anchors the renderer recorded, in recording order (1-based)
    anchors: Vec<(u32, u32, u32, u32, String)>,
}

fn emit_case(text: &str, setting: &Setting, strip_comments: bool) -> Option<Emitted> {
    let md = setting.metadata(&format!("strip_comments = {strip_comments}"));
    let a = vcommon::pipeline::analyze_one(text, &md).ok()?;
    let analyzer_errors = a.error_codes();
    // source tokens
    let mut col = TokenCollector::new(true);
    col.veryl(&a.parsers[0].veryl);
    let mut src_toks = vec![];
    let mut src_idents = HashSet::new();
    for t in &col.tokens {
        if !matches!(t.source, TokenSource::File { .. }) {
            continue;
        }
        let s = t.to_string();
        if s.is_empty() {
            continue;
        }
        let comment = is_comment_text(&s);
        if !comment && is_plain_identifier(&s) && !is_veryl_keyword(&s) {
            src_idents.insert(s.clone());
        }
        src_toks.push(SrcTok { line: t.line, pos: t.pos as usize, comment });
    }
    veryl_pretty::verif::enable(true);
    let _ = veryl_pretty::verif::take();
    let (sv, map) = a.emit_with(0, &md);
    let recs = veryl_pretty::verif::take();
    veryl_pretty::verif::enable(false);
    let anchors = recs
        .iter()
        .rev()
        .find(|r| r.rendered.text == sv)
        .map(|r| {
            r.rendered
                .anchors
                .iter()
                .map(|x| (x.dst_line, x.dst_column, x.src_line, x.src_column, x.text.to_string()))
                .collect()
        })
        .unwrap_or_default();
    let mut entries = vec![];
    let mut map_error = None;
    match sourcemap::SourceMap::from_slice(map.as_bytes()) {
        Ok(sm) => {
            for t in sm.tokens() {
                entries.push(Entry {
                    dst_line: t.get_dst_line() + 1,
                    dst_col: t.get_dst_col() + 1,
                    src_line: t.get_src_line() + 1,
                    src_col: t.get_src_col() + 1,
                    name: t.get_name().unwrap_or("").to_string(),
                });
            }
        }
        Err(e) => map_error = Some(e.to_string()),
    }
    Some(Emitted { analyzer_errors, sv, entries, map_error, src_toks, src_idents, anchors })
}

fn is_plain_identifier(s: &str) -> bool {
    let mut it = s.chars();
    matches!(it.next(), Some(c) if c.is_ascii_alphabetic() || c == '_') && it.all(|c| c.is_ascii_alphanumeric() || c == '_')
}

/// Byte offsets of the starts of all lines ('\n'-separated) of `text`.
fn line_starts(text: &str) -> Vec<usize> {
    let mut v = vec![0];
    for (i, b) in text.bytes().enumerate() {
        if b == b'\n' {
            v.push(i + 1);
        }
    }
    v
}

/// Byte offset inside `line` of 1-based column `col` under a unit; None when past the end / inside a char.
fn col_to_offset(line: &str, col: u32, unit: usize) -> Option<usize> {
    let want = (col as usize).checked_sub(1)?;
    match unit {
        0 => {
            // characters
            let mut n = 0;
            for (i, _) in line.char_indices() {
                if n == want {
                    return Some(i);
                }
                n += 1;
            }
            (n == want).then_some(line.len())
        }
        1 => {
            // UTF-16 units
            let mut n = 0;
            for (i, c) in line.char_indices() {
                if n == want {
                    return Some(i);
                }
                n += c.len_utf16();
            }
            (n == want).then_some(line.len())
        }
        _ => (want <= line.len() && line.is_char_boundary(want)).then_some(want),
    }
}

const UNITS: [&str; 3] = ["chars", "utf16", "bytes"];

const SV_KEYWORDS: &[&str] = &[
    "alias", "always", "always_comb", "always_ff", "always_latch", "and", "assert", "assign", "assume", "automatic", "begin",
    "bind", "bit", "break", "buf", "byte", "case", "casex", "casez", "cell", "chandle", "class", "clocking", "config",
    "const", "constraint", "context", "continue", "cover", "default", "defparam", "design", "disable", "do", "edge", "else",
    "end", "endcase", "endclass", "endfunction", "endgenerate", "endinterface", "endmodule", "endpackage", "endtask", "enum",
    "event", "export", "extends", "extern", "final", "for", "force", "foreach", "forever", "fork", "function", "generate",
    "genvar", "if", "iff", "import", "initial", "inout", "input", "inside", "int", "integer", "interface", "join", "local",
    "localparam", "logic", "longint", "modport", "module", "negedge", "new", "not", "null", "or", "output", "package",
    "packed", "parameter", "posedge", "priority", "program", "property", "real", "ref", "reg", "repeat", "return",
    "shortint", "shortreal", "signed", "static", "string", "struct", "super", "task", "this", "time", "tri", "type",
    "typedef", "union", "unique", "unique0", "unsigned", "var", "virtual", "void", "wait", "while", "wire", "xor",
];

#[derive(Clone, Debug, Default)]
struct Sab(Option<String>);

fn judge(name: &str, input: &str, setting: &Setting, strip: bool, sab: &Sab) -> CaseReport {
    let mut r = CaseReport::default();
    let label = format!("{},strip_comments={strip}", setting.label());
    let head = format!("{name} [{label}]");
    let replay = |extra: Json| -> Json {
        let mut c = json!({"name": name, "input": input, "setting": setting.to_json(), "strip_comments": strip});
        if let Some(o) = extra.as_object() {
            for (k, v) in o {
                c[k] = v.clone();
            }
        }
        c
    };
    // C12's oracle first: positions of this file are only usable if it passes
    let t = input.to_string();
    let c12out = match fresh_thread(STACK_64M, move || c12::check_text(&t)) {
        Ok(o) => o,
        Err(_) => {
            r.count("parser_panicked_not_judged", 1);
            return r;
        }
    };
    if !c12out.parsed {
        r.count("rejected_by_parser", 1);
        return r;
    }
    if !c12out.bad.is_empty() {
        r.count("c12_oracle_failed_not_judged", 1);
        return r;
    }
    let (t, s) = (input.to_string(), setting.clone());
    let em = match fresh_thread(STACK_64M, move || emit_case(&t, &s, strip)) {
        Ok(Some(e)) => e,
        Ok(None) => {
            r.count("rejected_by_parser", 1);
            return r;
        }
        Err(p) => {
            r.count("analyzer_or_emitter_panicked_not_judged", 1);
            r.notes.push(format!("{head}: panic at {}: {}", p.location, clip(&p.message, 100)));
            return r;
        }
    };
    if !em.analyzer_errors.is_empty() {
        // the property quantifies over designs that build
        r.count("designs_with_analyzer_errors_not_judged", 1);
        if name.starts_with("strsyn") {
            r.count("string_modules_with_analyzer_errors_not_judged", 1);
            r.notes.push(format!("{head}: analyzer errors {:?}", em.analyzer_errors));
        }
        return r;
    }
    if let Some(e) = &em.map_error {
        r.violation("map:undecodable".into(), format!("{head}: the source map does not decode: {e}"), replay(json!({})));
        return r;
    }
    let mut entries = em.entries.clone();
    match sab.0.as_deref() {
        Some("dst_col") => {
            if let Some(e) = entries.iter_mut().find(|e| e.name.len() > 1) {
                e.dst_col += 1;
            }
        }
        Some("src_col") => {
            if let Some(e) = entries.iter_mut().find(|e| e.name.len() > 1) {
                e.src_col += 1;
            }
        }
        Some("drop_line") => {
            if let Some(l) = entries.iter().map(|e| e.dst_line).nth(entries.len() / 2) {
                entries.retain(|e| e.dst_line != l);
            }
        }
        Some("mb_cols") => {
            // what a renderer that advances by bytes instead of characters would record
            let mut extra: std::collections::HashMap<u32, u32> = Default::default();
            for e in entries.iter_mut() {
                let add = *extra.get(&e.dst_line).unwrap_or(&0);
                e.dst_col += add;
                if !e.name.contains('\n') {
                    *extra.entry(e.dst_line).or_insert(0) += (e.name.len() - e.name.chars().count()) as u32;
                }
            }
        }
        Some("swap") => {
            let n = entries.len();
            if n > 3 {
                entries.swap(n / 2, n / 2 + 1);
            }
        }
        _ => {}
    }
    r.count("designs_judged", 1);
    if name.starts_with("strsyn") {
        r.count("string_modules_judged", 1);
    }
    r.seen("settings", &label);
    // An entry with an empty name (the anonymous identifier `_` and the start-of-file token are
    // emitted as empty anchored text) has no "name text" to find; it is counted, not judged.
    let n_all = entries.len();
    entries.retain(|e| !e.name.is_empty());
    r.count("entries_with_empty_name_not_judged", (n_all - entries.len()) as i64);
    r.count("entries_checked", entries.len() as i64);

    let sv = &em.sv;
    let sv_ls = line_starts(sv);
    let mut src = input.to_string();
    if !src.ends_with('\n') {
        src.push('\n');
    }
    let src_ls = line_starts(&src);
    let line_of = |ls: &Vec<usize>, text: &str, l: u32| -> Option<(usize, usize)> {
        let i = (l as usize).checked_sub(1)?;
        let s = *ls.get(i)?;
        let e = ls.get(i + 1).map(|x| x - 1).unwrap_or(text.len());
        Some((s, e))
    };
    // source token starts per line: byte offsets
    let mut starts: HashSet<usize> = HashSet::new();
    let mut comment_starts: HashSet<usize> = HashSet::new();
    for t in &em.src_toks {
        starts.insert(t.pos);
        if t.comment {
            comment_starts.insert(t.pos);
        }
        let _ = t.line;
    }

    // (a)+(b) per entry under each unit
    let mut dst_ok_all = [true; 3];
    let mut src_ok_all = [true; 3];
    let mut first_dst_fail: [Option<String>; 3] = [None, None, None];
    let mut first_src_fail: [Option<String>; 3] = [None, None, None];
    let mut lines_with_entry: BTreeSet<u32> = BTreeSet::new();
    let mut non_ascii_sensitive = 0i64;
    for e in &entries {
        // a name that spans lines (block comment, embed payload) covers all of them
        for k in 0..=e.name.matches('\n').count() as u32 {
            lines_with_entry.insert(e.dst_line + k);
        }
        // destination
        let mut any = false;
        match line_of(&sv_ls, sv, e.dst_line) {
            None => {
                for u in 0..3 {
                    dst_ok_all[u] = false;
                    first_dst_fail[u].get_or_insert(format!("entry {:?} names output line {} which does not exist", clip(&e.name, 30), e.dst_line));
                }
            }
            Some((ls, le)) => {
                let line = &sv[ls..le];
                let mut offs = [None; 3];
                for u in 0..3 {
                    offs[u] = col_to_offset(line, e.dst_col, u);
                    let ok = offs[u].is_some_and(|o| sv[ls + o..].starts_with(e.name.as_str()));
                    if ok {
                        any = true;
                    } else {
                        dst_ok_all[u] = false;
                        first_dst_fail[u].get_or_insert(format!(
                            "entry name {:?} is recorded at output {}:{} ({}), but that line reads {:?}",
                            clip(&e.name, 40),
                            e.dst_line,
                            e.dst_col,
                            UNITS[u],
                            clip(line, 100)
                        ));
                    }
                }
                if offs[0] != offs[1] || offs[0] != offs[2] {
                    non_ascii_sensitive += 1;
                }
            }
        }
        if !any {
            r.violation(
                "dst:name-not-at-position".into(),
                format!("{head}: {}", first_dst_fail[0].clone().unwrap_or_default()),
                replay(json!({"sv": sv, "entry": format!("{e:?}")})),
            );
            return r;
        }
        // source
        let mut any = false;
        match line_of(&src_ls, &src, e.src_line) {
            None => {
                for u in 0..3 {
                    src_ok_all[u] = false;
                    first_src_fail[u].get_or_insert(format!("entry {:?} names source line {} which does not exist", clip(&e.name, 30), e.src_line));
                }
            }
            Some((ls, le)) => {
                let line = &src[ls..le];
                let mut offs = [None; 3];
                for u in 0..3 {
                    offs[u] = col_to_offset(line, e.src_col, u);
                    let ok = offs[u].is_some_and(|o| starts.contains(&(ls + o)));
                    if ok {
                        any = true;
                        if u == 0 && comment_starts.contains(&(ls + offs[0].unwrap())) {
                            r.count("entries_mapping_to_comments", 1);
                        }
                    } else {
                        src_ok_all[u] = false;
                        first_src_fail[u].get_or_insert(format!(
                            "entry {:?} (output {}:{}) points at source {}:{} ({}), where no token or comment starts; source line reads {:?}",
                            clip(&e.name, 40),
                            e.dst_line,
                            e.dst_col,
                            e.src_line,
                            e.src_col,
                            UNITS[u],
                            clip(line, 100)
                        ));
                    }
                }
                if offs[0] != offs[1] || offs[0] != offs[2] {
                    non_ascii_sensitive += 1;
                }
            }
        }
        if !any {
            r.violation(
                "src:no-token-at-position".into(),
                format!("{head}: {}", first_src_fail[0].clone().unwrap_or_default()),
                replay(json!({"sv": sv, "entry": format!("{e:?}")})),
            );
            return r;
        }
    }
    let mut mb_followed = 0i64;
    for w in entries.windows(2) {
        if !w[0].name.is_ascii() && !is_comment_text(&w[0].name) && !w[0].name.contains('\n') && w[1].dst_line == w[0].dst_line {
            mb_followed += 1;
        }
    }
    r.count("anchored_tokens_with_multibyte_text_followed_by_tokens", mb_followed);
    r.count("entries_where_column_unit_matters", non_ascii_sensitive);
    if non_ascii_sensitive > 0 {
        r.count("designs_where_column_unit_matters", 1);
    }
    let dst_units: Vec<&str> = (0..3).filter(|u| dst_ok_all[*u]).map(|u| UNITS[u]).collect();
    let src_units: Vec<&str> = (0..3).filter(|u| src_ok_all[*u]).map(|u| UNITS[u]).collect();
    if dst_units.is_empty() {
        r.violation(
            "dst:no-consistent-column-unit".into(),
            format!("{head}: no single column unit fits all output positions; as characters: {}", first_dst_fail[0].clone().unwrap_or_default()),
            replay(json!({"sv": sv})),
        );
        return r;
    }
    if src_units.is_empty() {
        r.violation(
            "src:no-consistent-column-unit".into(),
            format!("{head}: no single column unit fits all source positions; as characters: {}", first_src_fail[0].clone().unwrap_or_default()),
            replay(json!({"sv": sv})),
        );
        return r;
    }
    // one map, one convention: a unit that fits the output side must also fit the source side
    if !dst_units.iter().any(|u| src_units.contains(u)) {
        r.violation(
            "columns:units-differ-between-sides".into(),
            format!(
                "{head}: output positions only fit column unit(s) {dst_units:?}, source positions only {src_units:?}; as characters: {}",
                first_dst_fail[0].clone().or(first_src_fail[0].clone()).unwrap_or_default()
            ),
            replay(json!({"sv": sv})),
        );
        return r;
    }
    if non_ascii_sensitive > 0 {
        r.seen("column_units_fitting_output_side", &dst_units.join("+"));
        r.seen("column_units_fitting_source_side", &src_units.join("+"));
    }

    // (c) order of the decoded entries, and of the renderer's anchors before the crate sorts them
    for w in entries.windows(2) {
        if (w[1].dst_line, w[1].dst_col) < (w[0].dst_line, w[0].dst_col) {
            r.violation(
                "order:entries".into(),
                format!(
                    "{head}: entry {:?} at output {}:{} comes after entry {:?} at {}:{}",
                    clip(&w[1].name, 30),
                    w[1].dst_line,
                    w[1].dst_col,
                    clip(&w[0].name, 30),
                    w[0].dst_line,
                    w[0].dst_col
                ),
                replay(json!({"sv": sv})),
            );
            return r;
        }
    }
    r.count("anchors_harvested", em.anchors.len() as i64);
    if !em.anchors.is_empty() && sab.0.is_none() {
        let mut ordered = true;
        for w in em.anchors.windows(2) {
            if (w[1].0, w[1].1) < (w[0].0, w[0].1) {
                ordered = false;
            }
        }
        if !ordered {
            r.count("designs_with_anchors_recorded_out_of_order", 1);
        }
        // the map must be exactly the anchors, shifted to 0-based by SourceMap::add (the crate keeps
        // one entry per output position, and empty-text anchors share theirs with the next token)
        let aset: HashSet<(u32, u32, u32, u32, &str)> =
            em.anchors.iter().map(|x| (x.0, x.1, x.2, x.3, x.4.as_str())).collect();
        let epos: HashSet<(u32, u32)> = em.entries.iter().map(|e| (e.dst_line, e.dst_col)).collect();
        let stray = em.entries.iter().find(|e| !aset.contains(&(e.dst_line, e.dst_col, e.src_line, e.src_col, e.name.as_str())));
        let missing = em.anchors.iter().find(|x| !epos.contains(&(x.0, x.1)));
        if stray.is_some() || missing.is_some() {
            r.violation(
                "map:differs-from-renderer-anchors".into(),
                format!(
                    "{head}: decoded map ({} entries) and the renderer's anchors ({}) disagree: entry without identical anchor {:?}; anchor without entry at its position {:?}",
                    em.entries.len(),
                    em.anchors.len(),
                    stray,
                    missing
                ),
                replay(json!({"sv": sv})),
            );
            return r;
        }
        r.count("maps_equal_to_renderer_anchors", 1);
    }

    // (d) every output line with a word spelled like a source identifier has an entry
    let mut line = 1u32;
    let mut words_checked = 0i64;
    for t in lex(sv, true) {
        if t.kind == Kind::Ident && em.src_idents.contains(&t.text) && !SV_KEYWORDS.contains(&t.text.as_str()) {
            words_checked += 1;
            if !lines_with_entry.contains(&line) {
                let (ls, le) = line_of(&sv_ls, sv, line).unwrap_or((0, 0));
                let lt = sv[ls..le].trim();
                let sig_ctx = if lt.starts_with('`') {
                    "compiler-directive-line".to_string()
                } else {
                    format!("line-starting-with:{}", lex(lt, true).first().map(|t| clip(&t.text, 16)).unwrap_or_default())
                };
                r.violation(
                    format!("line-without-entry:{sig_ctx}"),
                    format!(
                        "{head}: output line {line} contains source identifier {:?} but the map has no entry on that line: {:?}",
                        t.text,
                        clip(&sv[ls..le], 120)
                    ),
                    replay(json!({"sv": sv, "line": line})),
                );
                return r;
            }
        }
        line += t.text.matches('\n').count() as u32;
    }
    r.count("identifier_words_checked", words_checked);
    r.count("output_lines_with_entries", lines_with_entry.len() as i64);
    if c12out.multibyte_comments > 0 {
        r.count("designs_with_multibyte_comments", 1);
    }
    if sv.contains("\r\n") {
        r.count("crlf_outputs", 1);
    }
    if strip {
        r.count("strip_comments_designs", 1);
    }
    if c12out.comments > 0 && !entries.is_empty() {
        r.nontrivial = Some(hash_str(&format!("{label}\u{0}{input}")));
        if c12out.multibyte_comments > 0 {
            r.sample = Some(json!({"case": name, "options": label, "entries": entries.len(), "source_bytes": input.len(),
                "first_entries": entries.iter().take(4).map(|e| format!("{}:{} <- {}:{} {:?}", e.dst_line, e.dst_col, e.src_line, e.src_col, clip(&e.name, 20))).collect::<Vec<_>>(),
                "units_output": dst_units, "units_source": src_units}));
        }
    }
    r
}

fn gen_input(corpus: &[vcommon::corpus::CorpusFile], seed: u64, j: u64) -> (String, String) {
    let n = corpus.len() as u64;
    if j < n {
        let f = &corpus[j as usize];
        return (format!("corpus:{}:{}", f.kind, f.name), f.text.clone());
    }
    let mut rng = Rng::for_case(seed, "C13", j);
    let m = j - n;
    if m % 3 == 2 {
        // multi-byte text inside TOKENS (string literals) followed by tokens on the same line
        let t = crate::alignsyn::string_module(&mut rng);
        if rng.bool() {
            return (format!("strsyn#{m}"), t);
        }
        let o = LayoutOpts::random(&mut rng);
        return (format!("strsyn+layout#{m}"), layout(&t, &mut rng, &o));
    }
    let f = &corpus[((m - m / 3) % n) as usize];
    let mut o = LayoutOpts::random(&mut rng);
    // this property is about comments next to tokens and non-ASCII text: make both frequent
    if o.comment_permille < 40 {
        o.comment_permille = *rng.pick(&[40, 120, 250]);
    }
    o.multibyte = rng.chance(3, 4);
    let mut text = layout(&f.text, &mut rng, &o);
    if rng.bool() {
        text = crate::alignsyn::mutate_strings(&text, &mut rng, 700);
    }
    (format!("layout:{}:{}#{}", f.kind, f.name, m / n), text)
}

pub fn main(args: Args) {
    let run = Arc::new(Run::new(
        args.clone(),
        "exploration",
        "case = (input text, [format] setting, strip_comments); inputs = testcases/veryl, std and native-test sources as-is plus \
         layout mutations (inserted line/block comments incl. multi-byte text and block comments followed by tokens on the same \
         line, random whitespace, CRLF); only designs the analyzer accepts without errors and on which C12's position oracle \
         passes are judged; non-trivial = judged design with >=1 comment and >=1 map entry; distinct = distinct (options, text)",
    ));
    run.assume("C12's oracle (vcommon::lex::line_col) vouches for the TokenCollector positions used as 'where tokens start'");
    run.assume("column unit: a file passes if one unit among chars / UTF-16 units / bytes fits all its entries (the property names no unit)");
    run.assume("third clause as in DESIGN C13: a non-keyword word of the output spelled exactly like an identifier token of the source needs >=1 entry on its line");
    run.assume("single-file emission through vcommon::pipeline::Analyzed::emit_with (src/top.veryl -> src/top.sv, src/top.sv.map)");
    let sab = Sab(args.get("sabotage").map(|s| s.to_string()));
    if sab.0.is_some() {
        run.note(format!("SABOTAGE MODE {:?}: sensitivity experiment, not a verdict", sab.0));
    }
    if let Some(rp) = &args.replay {
        let v: Json = serde_json::from_str(&std::fs::read_to_string(rp).expect("replay file")).expect("replay json");
        let c = &v["case"];
        let r = judge(
            c["name"].as_str().unwrap_or("replay"),
            c["input"].as_str().expect("case.input"),
            &Setting::from_json(&c["setting"]),
            c["strip_comments"].as_bool().unwrap_or(false),
            &sab,
        );
        r.apply(&run);
        run.finish(&[]);
    }
    let corpus: Vec<vcommon::corpus::CorpusFile> =
        vcommon::corpus::all_veryl().into_iter().filter(|f| f.kind != "error").collect();
    let corpus = Arc::new(corpus);
    let n_inputs = args.budget("inputs", 450, 3000);
    let k = args.budget("settings", 2, 4);
    let total = n_inputs * k;
    let seed = args.seed;
    let run2 = run.clone();
    let corpus2 = corpus.clone();
    par_cases(
        total,
        args.jobs,
        STACK_64M,
        move |i| {
            let j = i / k;
            let si = i % k;
            let as_is = j < corpus2.len() as u64;
            let mut rng = Rng::for_case(seed, "C13-settings", i);
            let setting = if as_is && si == 0 { Setting::default() } else { Setting::random(&mut rng) };
            let strip = rng.chance(1, 4);
            let (name, text) = gen_input(&corpus2, seed, j);
            let mut r = judge(&name, &text, &setting, strip, &sab);
            if !as_is {
                r.count("mutated_input_cases", 1);
            }
            r
        },
        move |i, r| match r {
            Err(p) => {
                run2.eval();
                run2.count("harness_case_panicked_not_judged", 1);
                run2.note(format!("case {i}: harness thread panicked at {}: {}", p.location, p.message));
            }
            Ok(rep) => rep.apply(&run2),
        },
    );
    run.finish(&[
        ("designs_judged", 250),
        ("entries_checked", 60_000),
        ("entries_mapping_to_comments", 3_000),
        ("entries_where_column_unit_matters", 1_500),
        ("anchored_tokens_with_multibyte_text_followed_by_tokens", 150),
        ("string_modules_judged", 60),
        ("designs_where_column_unit_matters", 60),
        ("identifier_words_checked", 15_000),
        ("maps_equal_to_renderer_anchors", 250),
        ("crlf_outputs", 60),
        ("strip_comments_designs", 40),
        ("settings", 50),
        ("distinct_nontrivial", 150),
    ]);
}
