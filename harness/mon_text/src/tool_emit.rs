//! Hidden helper (not a check): emit one testcase exactly the way
//! `crates/tests` does (metadata from the repo's Veryl.toml, relative paths),
//! used to regenerate `testcases/sv` / `testcases/map` files for a proposed
//! fix that changes a committed testcase.  `--prop TOOL_EMIT --set cwd=… --set toml=… --set src=… --set dst=… --set map=… --set out=…`

use std::path::PathBuf;
use vcommon::Args;
use veryl_analyzer::{Analyzer, Context};
use veryl_emitter::Emitter;
use veryl_metadata::Metadata;
use veryl_parser::Parser;

pub fn main(args: Args) {
    let g = |k: &str| args.get(k).unwrap_or_else(|| panic!("missing --set {k}=")).to_string();
    std::env::set_current_dir(g("cwd")).expect("cwd");
    let metadata = Metadata::load(g("toml")).expect("metadata");
    let (src, dst, map) = (PathBuf::from(g("src")), PathBuf::from(g("dst")), PathBuf::from(g("map")));
    let input = std::fs::read_to_string(g("text")).expect("text");
    let parsed = Parser::parse(&input, &src).expect("parse");
    let prj = metadata.project.name.clone();
    let analyzer = Analyzer::new(&metadata);
    let _ = analyzer.analyze_pass1(&prj, &parsed.veryl);
    let _ = Analyzer::analyze_post_pass1();
    let mut context = Context::default();
    let analyzer = Analyzer::new(&metadata);
    let _ = analyzer.analyze_pass2(&parsed.veryl, &mut context, None);
    let mut emitter = Emitter::new(&metadata, &prj, &src, &dst, &map);
    emitter.emit(&parsed.veryl, &input);
    let out = g("out");
    std::fs::write(format!("{out}.sv"), emitter.as_str()).unwrap();
    std::fs::write(format!("{out}.sv.map"), emitter.source_map().to_bytes().unwrap()).unwrap();
    println!("wrote {out}.sv and {out}.sv.map");
    std::process::exit(0);
}

/// Hidden helper: print parse errors of synthetic modules (generator debugging).
pub fn synth(args: Args) {
    let n: u64 = args.get("n").and_then(|x| x.parse().ok()).unwrap_or(40);
    let mut bad = std::collections::BTreeMap::<String, (u64, String)>::new();
    for i in 0..n {
        let mut rng = vcommon::Rng::for_case(args.seed, "SYN", i);
        let t = crate::alignsyn::module(&mut rng);
        if let Err(e) = Parser::parse(&t, &"syn.veryl") {
            let off = match &e {
                veryl_parser::ParserError::SyntaxError(b) => b.error_location.offset(),
                _ => 0,
            };
            let (l, _) = vcommon::lex::line_col(&t, off);
            let line = t.lines().nth(l as usize - 1).unwrap_or("").trim().to_string();
            let key: String = line.split_whitespace().next().unwrap_or("").to_string();
            let e = bad.entry(key).or_insert((0, format!("{}: {}", e.to_string().lines().next().unwrap_or(""), line)));
            e.0 += 1;
        }
    }
    for (k, (c, ex)) in bad {
        println!("{c:4} {k:12} {}", ex.chars().take(150).collect::<String>());
    }
    std::process::exit(0);
}
