//! Helpers shared by the text monitors of this crate (C08/C09/C13/C23/C28):
//! the [format] settings grid, the real front end driven the way `veryl fmt`
//! / `veryl build` drive it, token/comment streams from the real parser, the
//! "optional trailing separator" normalisation, and a few extra layout
//! mutators that `vcommon::mutate` does not have.

use std::path::Path;
use vcommon::lex::{Kind, lex};
use vcommon::pool::{PanicInfo, STACK_64M, fresh_thread};
use vcommon::{Json, Rng, json};
use veryl_analyzer::Analyzer;
use veryl_formatter::Formatter;
use veryl_metadata::Metadata;
use veryl_parser::Parser;
use veryl_parser::token_collector::TokenCollector;
use veryl_parser::veryl_token::TokenSource;
use veryl_parser::veryl_walker::VerylWalker;

pub const INDENTS: [usize; 4] = [1, 2, 4, 8];
pub const WIDTHS: [usize; 5] = [20, 40, 80, 120, 200];
pub const NEWLINES: [&str; 3] = ["auto", "unix", "windows"];

/// One point of the `[format]` settings grid.
#[derive(Clone, Debug, PartialEq, Eq, Hash)]
pub struct Setting {
    pub indent_width: usize,
    pub max_width: usize,
    pub vertical_align: bool,
    pub newline_style: String,
}

impl Default for Setting {
    fn default() -> Self {
        Setting {
            indent_width: 4,
            max_width: 120,
            vertical_align: true,
            newline_style: "auto".into(),
        }
    }
}

impl Setting {
    pub fn all() -> Vec<Setting> {
        let mut v = vec![];
        for &i in &INDENTS {
            for &w in &WIDTHS {
                for va in [true, false] {
                    for nl in NEWLINES {
                        v.push(Setting {
                            indent_width: i,
                            max_width: w,
                            vertical_align: va,
                            newline_style: nl.into(),
                        });
                    }
                }
            }
        }
        v
    }

    pub fn random(rng: &mut Rng) -> Setting {
        Setting {
            indent_width: *rng.pick(&INDENTS),
            max_width: *rng.pick(&WIDTHS),
            vertical_align: rng.bool(),
            newline_style: rng.pick(&NEWLINES).to_string(),
        }
    }

    pub fn format_toml(&self) -> String {
        format!(
            "indent_width = {}\nmax_width = {}\nvertical_align = {}\nnewline_style = \"{}\"",
            self.indent_width, self.max_width, self.vertical_align, self.newline_style
        )
    }

    pub fn label(&self) -> String {
        format!(
            "indent={},width={},align={},nl={}",
            self.indent_width, self.max_width, self.vertical_align, self.newline_style
        )
    }

    pub fn to_json(&self) -> Json {
        json!({"indent_width": self.indent_width, "max_width": self.max_width,
               "vertical_align": self.vertical_align, "newline_style": self.newline_style})
    }

    pub fn from_json(v: &Json) -> Setting {
        Setting {
            indent_width: v["indent_width"].as_u64().unwrap_or(4) as usize,
            max_width: v["max_width"].as_u64().unwrap_or(120) as usize,
            vertical_align: v["vertical_align"].as_bool().unwrap_or(true),
            newline_style: v["newline_style"].as_str().unwrap_or("auto").to_string(),
        }
    }

    pub fn metadata(&self, build_extra: &str) -> Metadata {
        vcommon::pipeline::metadata_from_toml(build_extra, &self.format_toml())
    }
}

/// Token and comment texts of a parseable text, in stream order, from the
/// REAL parser (`TokenCollector(include_comments = true)`).
#[derive(Clone, Debug, Default)]
pub struct Stream {
    pub tokens: Vec<String>,
    pub comments: Vec<String>,
}

pub fn is_comment_text(t: &str) -> bool {
    t.starts_with("//") || t.starts_with("/*")
}

pub fn collect_stream(parser: &Parser) -> Stream {
    let mut c = TokenCollector::new(true);
    c.veryl(&parser.veryl);
    let mut s = Stream::default();
    for t in &c.tokens {
        if !matches!(t.source, TokenSource::File { .. }) {
            continue;
        }
        let text = t.to_string();
        if text.is_empty() {
            continue;
        }
        if is_comment_text(&text) {
            s.comments.push(text);
        } else {
            s.tokens.push(text);
        }
    }
    s
}

/// What one front-end run over one text produced (runs on the calling thread;
/// call it on a fresh one).
#[derive(Clone, Debug, Default)]
pub struct Front {
    pub parse_error: Option<String>,
    pub stream: Stream,
    pub formatted: Option<String>,
}

/// parse → (token stream) → analyze_pass1 → Formatter::format, exactly the
/// sequence of `crates/veryl/src/cmd_fmt.rs` (pass1 fills the attribute table
/// the formatter consults for `#[fmt(...)]`).
pub fn front(text: &str, setting: &Setting, do_format: bool) -> Front {
    let mut out = Front::default();
    let parser = match Parser::parse(text, &Path::new("fmt.veryl")) {
        Ok(p) => p,
        Err(e) => {
            out.parse_error = Some(first_line(&e.to_string()));
            return out;
        }
    };
    out.stream = collect_stream(&parser);
    if do_format {
        let md = setting.metadata("");
        let analyzer = Analyzer::new(&md);
        let _ = analyzer.analyze_pass1("prj", &parser.veryl);
        let mut f = Formatter::new(&md);
        f.format(&parser.veryl, text);
        out.formatted = Some(f.as_str().to_string());
    }
    out
}

pub fn front_fresh(text: &str, setting: &Setting, do_format: bool) -> Result<Front, PanicInfo> {
    let t = text.to_string();
    let s = setting.clone();
    fresh_thread(STACK_64M, move || front(&t, &s, do_format))
}

pub fn first_line(s: &str) -> String {
    s.lines().next().unwrap_or("").chars().take(200).collect()
}

/// Tokens that close a bracketed list.  `>` closes generic argument lists
/// (`::<a, b,>`) and width lists (`logic<2, 3,>`).
pub fn is_closer(t: &str) -> bool {
    matches!(t, ")" | "}" | "]" | ">" | "}}}")
}

/// "Optional trailing separators may be added or removed" made precise: a `,`
/// immediately followed by a closing token is dropped from a stream.  Tokens
/// that span lines (embed payload) are compared modulo blanks at line ends.
pub fn normalise_tokens(tokens: &[String]) -> Vec<String> {
    let mut out = Vec::with_capacity(tokens.len());
    for (i, t) in tokens.iter().enumerate() {
        if t == "," && tokens.get(i + 1).is_some_and(|n| is_closer(n)) {
            continue;
        }
        if t.contains('\n') || t.ends_with([' ', '\t', '\r']) {
            out.push(trim_line_ends(t));
        } else {
            out.push(t.clone());
        }
    }
    out
}

/// Right-trim every line of a (possibly multi-line) text.
pub fn trim_line_ends(t: &str) -> String {
    let v: Vec<&str> = t.split('\n').map(|l| l.trim_end()).collect();
    v.join("\n").trim_end().to_string()
}

pub fn normalise_comments(cs: &[String]) -> Vec<String> {
    cs.iter().map(|c| trim_line_ends(c)).collect()
}

/// Independent lexer's view of the same thing (cross-check of the oracle's
/// dependence on the real parser): the significant tokens of `vcommon::lex`
/// with `,`-before-closer removed, glued into one non-whitespace character
/// stream.  Gluing makes the check independent of `vcommon::lex`'s operator
/// munching (`>>` / `>:` where Veryl closes two generic lists); token
/// boundaries are the real parser's business in the primary comparison.
/// Embed blocks are one opaque atom for `vcommon::lex`; the formatter may
/// respace `\{ x \}` inside them, so their whitespace is dropped.
pub fn lex_tokens_normalised(src: &str) -> Vec<String> {
    // `vcommon::lex` takes every `{{{` for the start of an embed payload; nested concatenations
    // `{{{a, b}, c}, d}` look the same.  Without the `embed` keyword there is no payload.
    let toks: Vec<String> = lex(src, !src.contains("embed"))
        .into_iter()
        .filter(|t| !matches!(t.kind, Kind::Ws | Kind::LineComment | Kind::BlockComment))
        .map(|t| {
            if t.kind == Kind::Embed {
                t.text.chars().filter(|c| !c.is_whitespace()).collect()
            } else {
                t.text
            }
        })
        .collect();
    let mut glued = String::new();
    for (i, t) in toks.iter().enumerate() {
        if t == "," && toks.get(i + 1).is_some_and(|n| n.starts_with([')', '}', ']', '>'])) {
            continue;
        }
        glued.push_str(t);
    }
    // chunks of 24 characters so that `first_diff` can show a window
    let chars: Vec<char> = glued.chars().collect();
    chars.chunks(24).map(|c| c.iter().collect()).collect()
}

pub fn lex_comments_normalised(src: &str) -> Vec<String> {
    lex(src, !src.contains("embed"))
        .into_iter()
        .filter(|t| matches!(t.kind, Kind::LineComment | Kind::BlockComment))
        .map(|t| trim_line_ends(&t.text))
        .collect()
}

/// SystemVerilog token stream, whitespace/comment-insensitive.
pub fn sv_tokens(sv: &str) -> Vec<String> {
    vcommon::lex::significant(sv, true)
}

/// First index where two sequences differ, with a small window of context.
pub fn first_diff(a: &[String], b: &[String]) -> Option<(usize, String, String)> {
    let n = a.len().min(b.len());
    let mut k = 0;
    while k < n && a[k] == b[k] {
        k += 1;
    }
    if k == a.len() && k == b.len() {
        return None;
    }
    let win = |v: &[String]| -> String {
        let lo = k.saturating_sub(4);
        let hi = (k + 5).min(v.len());
        v[lo..hi].iter().map(|s| clip(s, 40)).collect::<Vec<_>>().join(" ")
    };
    Some((k, win(a), win(b)))
}

pub fn clip(s: &str, n: usize) -> String {
    let mut t: String = s.chars().take(n).collect();
    if t.len() < s.len() {
        t.push('…');
    }
    t
}

/// First differing line of two texts (1-based) with both lines.
pub fn first_diff_line(a: &str, b: &str) -> Option<(usize, String, String)> {
    let la: Vec<&str> = a.split('\n').collect();
    let lb: Vec<&str> = b.split('\n').collect();
    let n = la.len().max(lb.len());
    for i in 0..n {
        let x = la.get(i).copied();
        let y = lb.get(i).copied();
        if x != y {
            return Some((
                i + 1,
                x.map(|s| clip(s, 160)).unwrap_or_else(|| "<end of text>".into()),
                y.map(|s| clip(s, 160)).unwrap_or_else(|| "<end of text>".into()),
            ));
        }
    }
    None
}

/// A coarse, layout-independent "shape" of a source line, used to build
/// violation signatures that are stable across seeds: identifiers → `i`
/// (keywords kept), numbers → `n`, strings → `s`, comments → `c`.
pub fn line_shape(line: &str) -> String {
    let mut out = String::new();
    for t in lex(line, false) {
        match t.kind {
            Kind::Ws => {}
            Kind::LineComment | Kind::BlockComment => out.push('c'),
            Kind::Str => out.push('s'),
            Kind::Number => out.push('n'),
            Kind::Ident => {
                if is_veryl_keyword(&t.text) {
                    out.push_str(&t.text);
                    out.push(' ');
                } else {
                    out.push('i');
                }
            }
            _ => out.push_str(&t.text),
        }
    }
    clip(out.trim(), 60)
}

pub fn is_veryl_keyword(s: &str) -> bool {
    const KW: &[&str] = &[
        "alias", "always_comb", "always_ff", "as", "assign", "bind", "bit", "bool", "block", "break", "case", "clock",
        "clock_negedge", "clock_posedge", "connect", "const", "converse", "default", "else", "embed", "enum", "f32",
        "f64", "false", "final", "for", "function", "gen", "i16", "i32", "i64", "i8", "if", "if_reset", "import", "in",
        "include", "initial", "inout", "input", "inside", "inst", "interface", "let", "logic", "lsb", "modport",
        "module", "msb", "output", "outside", "package", "param", "proto", "pub", "repeat", "reset",
        "reset_async_high", "reset_async_low", "reset_sync_high", "reset_sync_low", "return", "rev", "same", "signed",
        "step", "string", "struct", "switch", "tri", "true", "type", "u16", "u32", "u64", "u8", "union", "unsafe",
        "var", "mixin", "p8", "p16", "p32", "p64",
    ];
    KW.contains(&s)
}

/// Add / remove optional trailing commas in bracketed lists (only lists that
/// already contain a top-level comma get one added).  The result may not
/// parse; callers filter with the real parser.
pub fn mutate_trailing_commas(src: &str, rng: &mut Rng, add_permille: u64, del_permille: u64) -> String {
    let toks = lex(src, false);
    // bracket matching over significant tokens
    let sig: Vec<usize> = toks
        .iter()
        .enumerate()
        .filter(|(_, t)| !matches!(t.kind, Kind::Ws | Kind::LineComment | Kind::BlockComment))
        .map(|(i, _)| i)
        .collect();
    let mut stack: Vec<(usize, bool)> = vec![]; // (sig index of opener, saw top-level comma)
    let mut insert_after: Vec<usize> = vec![]; // token indices after which to insert ","
    let mut delete: Vec<usize> = vec![];
    for (k, &ti) in sig.iter().enumerate() {
        let t = toks[ti].text.as_str();
        match t {
            "(" | "{" | "[" | "'{" | "#[" => stack.push((k, false)),
            "," => {
                if let Some(top) = stack.last_mut() {
                    top.1 = true;
                }
            }
            ")" | "}" | "]" => {
                if let Some((open_k, has_comma)) = stack.pop() {
                    if k == 0 || k - 1 == open_k {
                        continue;
                    }
                    let prev = sig[k - 1];
                    let pt = toks[prev].text.as_str();
                    if pt == "," {
                        if rng.below(1000) < del_permille {
                            delete.push(prev);
                        }
                    } else if has_comma && !matches!(pt, ";" | "{" | "(" | "[") && rng.below(1000) < add_permille {
                        insert_after.push(prev);
                    }
                }
            }
            _ => {}
        }
    }
    let mut out = String::with_capacity(src.len() + 16);
    for (i, t) in toks.iter().enumerate() {
        if delete.contains(&i) {
            continue;
        }
        out.push_str(&t.text);
        if insert_after.contains(&i) {
            out.push(',');
        }
    }
    out
}

/// Join lines: replace newlines by spaces where no line comment precedes, so
/// the formatter has to break very long lines itself.
pub fn join_lines(src: &str, rng: &mut Rng, permille: u64) -> String {
    let toks = lex(src, false);
    let mut out = String::with_capacity(src.len());
    let mut prev_line_comment = false;
    for t in &toks {
        match t.kind {
            Kind::Ws => {
                if !prev_line_comment && t.text.contains('\n') && rng.below(1000) < permille {
                    out.push(' ');
                } else {
                    out.push_str(&t.text);
                }
                prev_line_comment = false;
            }
            Kind::LineComment => {
                out.push_str(&t.text);
                prev_line_comment = true;
            }
            _ => {
                out.push_str(&t.text);
                prev_line_comment = false;
            }
        }
    }
    out
}

/// What one case contributes to the run; produced on the case thread, applied
/// by the sink.
#[derive(Default)]
pub struct CaseReport {
    pub counts: Vec<(String, i64)>,
    pub seen: Vec<(String, String)>,
    pub nontrivial: Option<u64>,
    pub sample: Option<Json>,
    /// (signature, what, replay case)
    pub violations: Vec<(String, String, Json)>,
    pub notes: Vec<String>,
}

impl CaseReport {
    pub fn count(&mut self, k: &str, n: i64) {
        self.counts.push((k.to_string(), n));
    }
    pub fn seen(&mut self, set: &str, member: &str) {
        self.seen.push((set.to_string(), member.to_string()));
    }
    pub fn violation(&mut self, sig: String, what: String, replay: Json) {
        self.violations.push((sig, what, replay));
    }
    pub fn apply(self, run: &vcommon::Run) {
        run.eval();
        for (k, n) in &self.counts {
            run.count(k, *n);
        }
        for (s, m) in &self.seen {
            run.seen(s, m);
        }
        if let Some(h) = self.nontrivial {
            run.nontrivial(h);
        }
        if let Some(s) = self.sample {
            run.sample(s);
        }
        for n in self.notes {
            run.note(n);
        }
        for (sig, what, replay) in self.violations {
            run.count("violating_cases", 1);
            run.violation(&sig, &what, replay);
        }
    }
}

/// Delta debugging (ddmin) over the independent lexer's tokens of `src`
/// (whitespace runs are units too): the smallest token subsequence for which
/// `test` still holds.  `test(src)` must hold on entry.
pub fn ddmin(src: &str, test: &dyn Fn(&str) -> bool) -> String {
    let mut units: Vec<String> = lex(src, false).into_iter().map(|t| t.text).collect();
    let mut n = 2usize;
    while units.len() >= 2 {
        let chunk = units.len().div_ceil(n);
        let mut reduced = false;
        let mut start = 0;
        while start < units.len() {
            let end = (start + chunk).min(units.len());
            let cand: Vec<String> = units[..start].iter().chain(units[end..].iter()).cloned().collect();
            if !cand.is_empty() && test(&cand.concat()) {
                units = cand;
                n = n.saturating_sub(1).max(2);
                reduced = true;
                break;
            }
            start = end;
        }
        if !reduced {
            if chunk == 1 {
                break;
            }
            n = (n * 2).min(units.len());
        }
    }
    // second phase: shorten identifiers / whitespace runs where possible
    let mut i = 0;
    while i < units.len() {
        let u = units[i].clone();
        if u.chars().all(|c| c.is_whitespace()) && u.len() > 1 {
            for cand in [" ", "\n"] {
                let mut v = units.clone();
                v[i] = cand.to_string();
                if test(&v.concat()) {
                    units = v;
                    break;
                }
            }
        }
        i += 1;
    }
    units.concat()
}

/// Comment SHAPES the lexer's `CommentsTerm` accepts and that a hand-written splitter may not:
/// star runs before the closing slash and after the opening slash, empty comments, stars inside,
/// `//` holding `/*` or `*/`, comments glued to each other.
pub fn comment_shape(rng: &mut Rng) -> String {
    let body = *rng.pick(&["", "x", " note ", " a * b ** c ", "日本", " -- ", "/", " x\n   * y\n "]);
    let open = rng.below(5) as usize; // extra stars after `/*`
    let close = rng.below(5) as usize; // extra stars before `*/`
    let one = |rng: &mut Rng| -> String {
        match rng.below(10) {
            0 => "/**/".to_string(),
            1 => "/***/".to_string(),
            2 => "/****/".to_string(),
            3 => "/*****/".to_string(),
            4 => format!("/*{}{}*/", *rng.pick(&[" banner ", "x", " a*b "]), "*".repeat(1 + rng.below(4) as usize)),
            _ => String::new(),
        }
    };
    let fixed = one(rng);
    let first = if !fixed.is_empty() { fixed } else { format!("/*{}{}{}*/", "*".repeat(open), body, "*".repeat(close)) };
    match rng.below(8) {
        // glued to a second comment, with and without whitespace
        0 => format!("{first}/* b */"),
        1 => format!("{first}/**/"),
        2 => format!("{first} /* b **/"),
        3 => format!("{first}// tail /* not a block\n"),
        4 => format!("// has /* inside */ and **/\n{first}"),
        _ => first,
    }
}

/// Put comment shapes into existing whitespace runs between tokens (always after at least one
/// blank, so no `//` or `*/` is formed with a neighbouring token), optionally at the very start
/// of the text and before EOF without a newline.
pub fn mutate_comment_shapes(src: &str, rng: &mut Rng, permille: u64) -> String {
    let toks = lex(src, false);
    let mut out = String::with_capacity(src.len() + 256);
    if rng.chance(1, 4) {
        out.push_str(&comment_shape(rng));
        if rng.bool() {
            out.push('\n');
        }
    }
    let mut prev_line_comment = false;
    for t in &toks {
        match t.kind {
            Kind::Ws => {
                out.push_str(&t.text);
                if rng.below(1000) < permille {
                    if !t.text.ends_with([' ', '\n', '\t']) {
                        out.push(' ');
                    }
                    let c = comment_shape(rng);
                    let ends_nl = c.ends_with('\n');
                    out.push_str(&c);
                    // directly followed by the next token, by a blank or by a newline
                    if !ends_nl {
                        match rng.below(3) {
                            0 => {}
                            1 => out.push(' '),
                            _ => out.push('\n'),
                        }
                    }
                }
                prev_line_comment = false;
            }
            Kind::LineComment => {
                out.push_str(&t.text);
                prev_line_comment = true;
            }
            _ => {
                let _ = prev_line_comment;
                out.push_str(&t.text);
                prev_line_comment = false;
            }
        }
    }
    if rng.chance(1, 4) {
        // before EOF, no newline after it
        let mut t = out.trim_end().to_string();
        t.push(' ');
        let c = comment_shape(rng);
        t.push_str(c.trim_end_matches('\n'));
        return t;
    }
    out
}

/// Shape statistics of the comments of a text (independent lexer), for non-vacuity counters.
pub fn comment_shape_counts(src: &str) -> Vec<(String, i64)> {
    let toks = lex(src, false);
    let mut v: std::collections::BTreeMap<String, i64> = Default::default();
    let mut prev_comment_end: Option<usize> = None;
    let sig: Vec<&vcommon::lex::Tok> = toks.iter().filter(|t| t.kind != Kind::Ws).collect();
    for t in &toks {
        match t.kind {
            Kind::BlockComment if t.text.len() >= 4 && t.text.ends_with("*/") => {
                let body = &t.text[2..t.text.len() - 1];
                let close = body.chars().rev().take_while(|c| *c == '*').count();
                let inner = &t.text[2..t.text.len() - 2];
                let open = inner.chars().take_while(|c| *c == '*').count();
                if close >= 2 {
                    *v.entry("block_comments_closed_by_star_run".into()).or_default() += 1;
                    *v.entry(format!("block_comments_closed_by_star_run:{}", close.min(6))).or_default() += 1;
                }
                if open >= 1 {
                    *v.entry("block_comments_opened_by_star_run".into()).or_default() += 1;
                }
                if inner.is_empty() {
                    *v.entry("empty_block_comments".into()).or_default() += 1;
                }
                if inner.trim_matches('*').contains('*') {
                    *v.entry("block_comments_with_stars_inside".into()).or_default() += 1;
                }
                if prev_comment_end == Some(t.pos) {
                    *v.entry("comments_glued_to_previous_comment".into()).or_default() += 1;
                }
                prev_comment_end = Some(t.pos + t.text.len());
            }
            Kind::LineComment => {
                if t.text.contains("/*") || t.text.contains("*/") {
                    *v.entry("line_comments_holding_block_delimiters".into()).or_default() += 1;
                }
                if prev_comment_end == Some(t.pos) {
                    *v.entry("comments_glued_to_previous_comment".into()).or_default() += 1;
                }
                prev_comment_end = Some(t.pos + t.text.len());
            }
            _ => {}
        }
    }
    if sig.first().is_some_and(|t| matches!(t.kind, Kind::BlockComment | Kind::LineComment)) {
        *v.entry("texts_starting_with_a_comment".into()).or_default() += 1;
    }
    if !src.ends_with('\n') && sig.last().is_some_and(|t| matches!(t.kind, Kind::BlockComment | Kind::LineComment)) {
        *v.entry("texts_ending_in_a_comment_without_newline".into()).or_default() += 1;
    }
    v.into_iter().collect()
}
