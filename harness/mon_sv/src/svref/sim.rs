//! svref elaboration + 4-state event kernel.
//!
//! Elaboration flattens the hierarchy into scopes, variables and processes:
//! * comb processes: `assign`, `always_comb`, port connections (continuous
//!   assignments between parent expression and child port variable);
//! * ff processes: `always_ff @(edge sig, …)`.
//!
//! Kernel (`Sim::eval`): settle all comb processes to a fixpoint (bounded);
//! detect edges on every signal that appears in an `always_ff` event list
//! (value before vs after the settle); run the triggered `always_ff` bodies
//! on the settled pre-commit values, queueing non-blocking assignments; commit
//! the NBAs in order; repeat until no further edge fires.
//!
//! All arithmetic goes through `refmodel::bv4`: an svref expression is
//! lowered to a `bv4::Expr` whose leaves are the current values of the
//! operands (with their declared width and signedness) and evaluated with the
//! IEEE §11.6/§11.8 two-pass sizing implemented there.

use super::SvErr;
use super::ast::*;
use refmodel::bv4::{self, BinOp, Bv, Expr as BE, X, Z};
use std::collections::{BTreeSet, HashMap};
use std::rc::Rc;

type R<T> = Result<T, SvErr>;
pub type ScopeId = usize;
pub type VarId = usize;

const MAX_LOOP_ITERS: u64 = 100_000;
const MAX_CALL_DEPTH: usize = 48;
const MAX_GEN_ITERS: usize = 4096;
const MAX_INST_DEPTH: usize = 24;
const MAX_WIDTH: usize = 1 << 16;

thread_local! {
    /// Defect-emulation switches (attribution only, never for a verdict): bit 0x2 = a widening size cast
    /// `N'(e)` behaves like `N'($unsigned(e))` (what the Veryl simulator computes for `e as N` used as an operand).
    static EMULATE: std::cell::Cell<u8> = const { std::cell::Cell::new(0) };
}

/// Set the defect-emulation switches for svref instances built on THIS thread.
pub fn set_emulation(flags: u8) {
    EMULATE.with(|e| e.set(flags));
}

fn emulation() -> u8 {
    EMULATE.with(|e| e.get())
}

// ------------------------------------------------------------------------------------------------
// types

#[derive(Clone, Debug)]
pub struct Ty {
    /// packed dimensions, outermost first, as written `[left:right]`
    pub dims: Vec<(i64, i64)>,
    pub base: Base,
    pub signed: bool,
    pub two_state: bool,
}

#[derive(Clone, Debug)]
pub enum Base {
    Bit,
    Struct(Rc<StructTy>),
}

#[derive(Debug)]
pub struct StructTy {
    pub fields: Vec<Field>,
    pub width: usize,
}

#[derive(Debug)]
pub struct Field {
    pub name: String,
    pub ty: Ty,
    pub lsb: usize,
}

fn dim_size(d: &(i64, i64)) -> usize {
    ((d.0 - d.1).unsigned_abs() + 1) as usize
}

impl Ty {
    pub fn bit(signed: bool) -> Ty {
        Ty { dims: vec![], base: Base::Bit, signed, two_state: false }
    }
    pub fn vector(width: usize, signed: bool) -> Ty {
        Ty { dims: vec![(width as i64 - 1, 0)], base: Base::Bit, signed, two_state: false }
    }
    pub fn int() -> Ty {
        Ty { dims: vec![(31, 0)], base: Base::Bit, signed: true, two_state: true }
    }
    pub fn base_width(&self) -> usize {
        match &self.base {
            Base::Bit => 1,
            Base::Struct(s) => s.width,
        }
    }
    pub fn width(&self) -> usize {
        self.dims.iter().map(dim_size).product::<usize>() * self.base_width()
    }
    /// element type after indexing the outermost packed dimension
    fn elem(&self) -> Ty {
        let dims = self.dims[1..].to_vec();
        let signed = if dims.is_empty() && matches!(self.base, Base::Struct(_)) { self.signed } else { false };
        Ty { dims, base: self.base.clone(), signed, two_state: self.two_state }
    }
    /// position (in elements from the LSB side) of index `i` in the outermost dimension
    fn pos(&self, i: i64) -> i64 {
        let (l, r) = self.dims[0];
        if l >= r { i - r } else { r - i }
    }
}

// ------------------------------------------------------------------------------------------------
// symbols, scopes, variables, processes

#[derive(Clone, Debug)]
pub enum Sym {
    Param(Bv, Ty),
    Var(VarId),
    Type(Ty),
    Func(Rc<Function>, ScopeId),
    Scope(ScopeId),
}

#[derive(Default, Debug)]
pub struct Scope {
    parent: Option<ScopeId>,
    names: HashMap<String, Sym>,
    imports: Vec<ScopeId>,
}

#[derive(Debug)]
pub struct Var {
    pub name: String,
    pub ty: Ty,
    /// unpacked dimensions: (lowest index, size), outermost first
    pub unpacked: Vec<(i64, usize)>,
    pub vals: Vec<Bv>,
}

#[derive(Debug)]
enum Proc {
    Comb { scope: ScopeId, stmt: Stmt },
    Assign { scope: ScopeId, lhs: Expr, rhs: Expr },
    PortIn { scope: ScopeId, expr: Expr, child: VarId },
    PortOut { scope: ScopeId, lhs: Expr, child: VarId },
}

#[derive(Debug)]
struct FfProc {
    scope: ScopeId,
    events: Vec<(Edge, VarId)>,
    stmt: Stmt,
}

#[derive(Clone, Debug)]
pub struct PortInfo {
    pub name: String,
    pub dir: Dir,
    pub var: VarId,
    pub width: usize,
    pub signed: bool,
}

pub struct Sim {
    scopes: Vec<Scope>,
    pub vars: Vec<Var>,
    packages: HashMap<String, ScopeId>,
    package_asts: HashMap<String, Rc<Package>>,
    packages_in_progress: Vec<String>,
    modules: HashMap<String, Rc<Module>>,
    procs: Vec<Rc<Proc>>,
    ffs: Vec<Rc<FfProc>>,
    inits: Vec<(ScopeId, Expr, Expr)>,
    pub ports: Vec<PortInfo>,
    sens: Vec<VarId>,
    prev: Vec<Bv>,
    inst_depth: usize,
    /// construct classes that were elaborated / executed (for the evidence histogram)
    pub constructs: BTreeSet<&'static str>,
    /// test-only fault injection: treat every `negedge` in an always_ff event list as `posedge`
    /// (used once to prove the monitors' sensitivity)
    pub fault_flip_edges: bool,
}

// ------------------------------------------------------------------------------------------------
// execution state

#[derive(Clone, Debug)]
struct Local {
    ty: Ty,
    val: Bv,
}

struct Frame {
    scope: ScopeId,
    blocks: Vec<HashMap<String, Local>>,
    ret: Option<Local>,
    func: String,
}

#[derive(Clone, Copy, PartialEq, Eq, Debug)]
enum Flow {
    Normal,
    Break,
    Return,
}

#[derive(Clone, Debug)]
enum Place {
    Temp(Bv),
    Local(usize, usize, String),
    Ret(usize),
    Var(VarId),
}

/// A resolved (part of a) storage element: bits `[lo, lo+ty.width())` of one element.
#[derive(Clone, Debug)]
struct Loc {
    place: Place,
    elem: usize,
    pending: Vec<(i64, usize)>,
    ty: Ty,
    lo: i64,
    valid: bool,
}

struct Exec<'a> {
    sim: &'a mut Sim,
    frames: Vec<Frame>,
    nba: Vec<(Loc, Bv)>,
    touched: HashMap<(VarId, usize), Bv>,
    steps: u64,
}

fn to_i64(v: &Bv) -> Option<i64> {
    if v.has_xz() {
        return None;
    }
    let w = v.width();
    let neg = v.signed && v.msb() == 1;
    let mut out: i64 = if neg { -1 } else { 0 };
    for i in 0..w {
        let d = v.bits[i];
        if i < 63 {
            if d == 1 {
                out |= 1i64 << i;
            } else {
                out &= !(1i64 << i);
            }
        } else if (d == 1) != neg {
            return None; // does not fit
        }
    }
    Some(out)
}

fn int_bv(v: i64) -> Bv {
    Bv::from_i128(v as i128, 32)
}

fn two_state(v: Bv) -> Bv {
    if !v.has_xz() {
        return v;
    }
    Bv { bits: v.bits.iter().map(|d| if *d > 1 { 0 } else { *d }).collect(), signed: v.signed }
}

impl<'a> Exec<'a> {
    fn new(sim: &'a mut Sim, scope: ScopeId) -> Exec<'a> {
        Exec { sim, frames: vec![Frame { scope, blocks: vec![HashMap::new()], ret: None, func: String::new() }], nba: vec![], touched: HashMap::new(), steps: 0 }
    }

    fn scope(&self) -> ScopeId {
        self.frames.last().unwrap().scope
    }

    fn tick(&mut self) -> R<()> {
        self.steps += 1;
        if self.steps > 5_000_000 {
            return Err(SvErr::runtime("statement budget exceeded"));
        }
        Ok(())
    }

    // -------------------------------------------------------------------------------- name lookup

    fn lookup_path(&mut self, path: &[String]) -> R<Sym> {
        match path.len() {
            1 => self.sim.lookup(self.scope(), &path[0]).ok_or_else(|| SvErr::unsupported(&format!("unresolved identifier {}", path[0]))),
            2 => {
                let ps = self.sim.package_scope(&path[0])?;
                match self.sim.scopes[ps].names.get(&path[1]) {
                    Some(s) => Ok(s.clone()),
                    None => Err(SvErr::unsupported(&format!("unresolved package item {}::{}", path[0], path[1]))),
                }
            }
            _ => Err(SvErr::unsupported("scoped path deeper than pkg::name")),
        }
    }

    fn find_local(&self, name: &str) -> Option<(usize, usize)> {
        let fi = self.frames.len() - 1;
        let f = &self.frames[fi];
        for (bi, b) in f.blocks.iter().enumerate().rev() {
            if b.contains_key(name) {
                return Some((fi, bi));
            }
        }
        None
    }

    // -------------------------------------------------------------------------------- types

    fn const_i64(&mut self, e: &Expr) -> R<i64> {
        let v = self.eval_self(e)?;
        to_i64(&v).ok_or_else(|| SvErr::unsupported("constant expression with x/z or out of range"))
    }

    fn dims(&mut self, dims: &[(Expr, Expr)]) -> R<Vec<(i64, i64)>> {
        let mut out = vec![];
        for (a, b) in dims {
            let (a, b) = (self.const_i64(a)?, self.const_i64(b)?);
            if (a - b).unsigned_abs() as usize >= MAX_WIDTH {
                return Err(SvErr::unsupported("dimension too large"));
            }
            out.push((a, b));
        }
        Ok(out)
    }

    /// Resolve a data type in the current scope.  Enum members are declared
    /// into the current scope when `declare_enums`.
    fn resolve_type(&mut self, t: &DataType, declare_enums: bool) -> R<Ty> {
        let ty = match t {
            DataType::Vector { two_state, signed, dims } => Ty { dims: self.dims(dims)?, base: Base::Bit, signed: *signed, two_state: *two_state },
            DataType::Int { width, two_state, signed } => Ty { dims: vec![(*width as i64 - 1, 0)], base: Base::Bit, signed: *signed, two_state: *two_state },
            DataType::Implicit { signed, dims } => Ty { dims: self.dims(dims)?, base: Base::Bit, signed: *signed, two_state: false },
            DataType::Named { path, dims } => {
                let sym = self.lookup_path(path)?;
                let Sym::Type(inner) = sym else {
                    return Err(SvErr::unsupported(&format!("{} is not a type", path.join("::"))));
                };
                let mut d = self.dims(dims)?;
                if d.is_empty() {
                    inner
                } else {
                    d.extend(inner.dims.iter().cloned());
                    Ty { dims: d, base: inner.base, signed: inner.signed, two_state: inner.two_state }
                }
            }
            DataType::Struct { signed, members, dims } => {
                let mut fields = vec![];
                let mut tys = vec![];
                for (mt, name) in members {
                    tys.push((self.resolve_type(mt, declare_enums)?, name.clone()));
                }
                let mut lsb = 0usize;
                for (ty, name) in tys.into_iter().rev() {
                    let w = ty.width();
                    fields.push(Field { name, ty, lsb });
                    lsb += w;
                }
                fields.reverse();
                let st = Rc::new(StructTy { fields, width: lsb });
                self.sim.constructs.insert("struct_packed");
                Ty { dims: self.dims(dims)?, base: Base::Struct(st), signed: *signed, two_state: false }
            }
            DataType::Enum { base, members, dims } => {
                let bt = match base {
                    Some(b) => self.resolve_type(b, false)?,
                    None => Ty::int(),
                };
                if !matches!(bt.base, Base::Bit) {
                    return Err(SvErr::unsupported("enum with struct base"));
                }
                self.sim.constructs.insert("enum");
                if declare_enums {
                    let w = bt.width();
                    let mut next = Bv::zeros(w, bt.signed);
                    let one = Bv::from_u64(1, w, bt.signed);
                    let scope = self.scope();
                    for (name, val) in members {
                        let v = match val {
                            Some(e) => self.eval_to_type(e, &bt)?,
                            None => next.clone(),
                        };
                        next = v.add(&one).as_signed(bt.signed);
                        self.sim.scopes[scope].names.insert(name.clone(), Sym::Param(v, bt.clone()));
                    }
                }
                let mut d = self.dims(dims)?;
                d.extend(bt.dims.iter().cloned());
                Ty { dims: d, base: Base::Bit, signed: bt.signed, two_state: bt.two_state }
            }
        };
        if ty.width() == 0 || ty.width() > MAX_WIDTH {
            return Err(SvErr::unsupported("type width out of range"));
        }
        Ok(ty)
    }

    // -------------------------------------------------------------------------------- locations

    fn resolve_loc(&mut self, e: &Expr) -> R<Loc> {
        match e {
            Expr::Ident(path) => {
                if path.len() == 1 {
                    if let Some((fi, bi)) = self.find_local(&path[0]) {
                        let ty = self.frames[fi].blocks[bi][&path[0]].ty.clone();
                        return Ok(Loc { place: Place::Local(fi, bi, path[0].clone()), elem: 0, pending: vec![], ty, lo: 0, valid: true });
                    }
                    let fi = self.frames.len() - 1;
                    if self.frames[fi].func == path[0]
                        && let Some(r) = &self.frames[fi].ret
                    {
                        return Ok(Loc { place: Place::Ret(fi), elem: 0, pending: vec![], ty: r.ty.clone(), lo: 0, valid: true });
                    }
                }
                match self.lookup_path(path)? {
                    Sym::Var(id) => {
                        let v = &self.sim.vars[id];
                        Ok(Loc { place: Place::Var(id), elem: 0, pending: v.unpacked.clone(), ty: v.ty.clone(), lo: 0, valid: true })
                    }
                    Sym::Param(v, ty) => Ok(Loc { place: Place::Temp(v), elem: 0, pending: vec![], ty, lo: 0, valid: true }),
                    Sym::Type(_) => Err(SvErr::unsupported("type used as value")),
                    Sym::Func(..) => Err(SvErr::unsupported("function name used as value")),
                    Sym::Scope(_) => Err(SvErr::unsupported("hierarchical reference")),
                }
            }
            Expr::Member(b, name) => {
                if let Expr::Ident(p) = &**b
                    && p.len() == 1
                    && self.find_local(&p[0]).is_none()
                    && let Some(Sym::Scope(_)) = self.sim.lookup(self.scope(), &p[0])
                {
                    return Err(SvErr::unsupported("hierarchical reference"));
                }
                let mut loc = self.resolve_loc(b)?;
                if !loc.pending.is_empty() || !loc.ty.dims.is_empty() {
                    return Err(SvErr::unsupported("member access on array"));
                }
                let Base::Struct(st) = loc.ty.base.clone() else {
                    return Err(SvErr::unsupported("member access on non-struct"));
                };
                let Some(f) = st.fields.iter().find(|f| &f.name == name) else {
                    return Err(SvErr::unsupported("unknown struct member"));
                };
                loc.lo += f.lsb as i64;
                loc.ty = f.ty.clone();
                self.sim.constructs.insert("struct_member");
                Ok(loc)
            }
            Expr::Index(b, i) => {
                let mut loc = self.resolve_loc(b)?;
                let idx = to_i64(&self.eval_self(i)?);
                if !loc.pending.is_empty() {
                    let (lo, size) = loc.pending.remove(0);
                    match idx {
                        Some(ix) if ix >= lo && ix < lo + size as i64 => loc.elem = loc.elem * size + (ix - lo) as usize,
                        _ => {
                            loc.elem *= size;
                            loc.valid = false;
                        }
                    }
                    self.sim.constructs.insert("unpacked_index");
                    return Ok(loc);
                }
                if loc.ty.dims.is_empty() {
                    return Err(SvErr::unsupported("bit-select of scalar"));
                }
                let et = loc.ty.elem();
                let ew = et.width() as i64;
                match idx {
                    Some(ix) => {
                        let p = loc.ty.pos(ix);
                        if p < 0 || p >= dim_size(&loc.ty.dims[0]) as i64 {
                            loc.valid = false;
                        } else {
                            loc.lo += p * ew;
                        }
                    }
                    None => loc.valid = false,
                }
                loc.ty = et;
                Ok(loc)
            }
            Expr::Range(b, m, l) => {
                let mut loc = self.resolve_loc(b)?;
                if !loc.pending.is_empty() {
                    return Err(SvErr::unsupported("slice of unpacked array"));
                }
                if loc.ty.dims.is_empty() {
                    return Err(SvErr::unsupported("part-select of scalar"));
                }
                let (m, l) = (self.const_i64(m)?, self.const_i64(l)?);
                let ew = loc.ty.elem().width() as i64;
                let (pm, pl) = (loc.ty.pos(m), loc.ty.pos(l));
                if pm < pl {
                    return Err(SvErr::unsupported("reversed part-select"));
                }
                let n = pm - pl + 1;
                loc.lo += pl * ew;
                loc.ty = Ty::vector((n * ew) as usize, false);
                self.sim.constructs.insert("part_select");
                Ok(loc)
            }
            Expr::Indexed(b, base, w, up) => {
                let mut loc = self.resolve_loc(b)?;
                if !loc.pending.is_empty() {
                    return Err(SvErr::unsupported("slice of unpacked array"));
                }
                if loc.ty.dims.is_empty() {
                    return Err(SvErr::unsupported("part-select of scalar"));
                }
                let w = self.const_i64(w)?;
                if w <= 0 || w as usize > MAX_WIDTH {
                    return Err(SvErr::unsupported("indexed part-select width"));
                }
                let ew = loc.ty.elem().width() as i64;
                let basev = to_i64(&self.eval_self(base)?);
                let descending = loc.ty.dims[0].0 >= loc.ty.dims[0].1;
                match basev {
                    Some(bv) => {
                        // indices covered: up → bv .. bv+w-1 ; down → bv-w+1 .. bv
                        let (i_lo, i_hi) = if *up { (bv, bv + w - 1) } else { (bv - w + 1, bv) };
                        let p = if descending { loc.ty.pos(i_lo) } else { loc.ty.pos(i_hi) };
                        loc.lo += p * ew;
                    }
                    None => loc.valid = false,
                }
                loc.ty = Ty::vector((w * ew) as usize, false);
                self.sim.constructs.insert("indexed_part_select");
                Ok(loc)
            }
            _ => Err(SvErr::unsupported("select on a non-identifier expression")),
        }
    }

    fn elem_value<'b>(&'b self, loc: &'b Loc) -> R<&'b Bv> {
        Ok(match &loc.place {
            Place::Temp(v) => v,
            Place::Local(f, b, n) => &self.frames[*f].blocks[*b][n].val,
            Place::Ret(f) => &self.frames[*f].ret.as_ref().unwrap().val,
            Place::Var(id) => {
                let v = &self.sim.vars[*id];
                v.vals.get(loc.elem).ok_or_else(|| SvErr::runtime("element index out of range"))?
            }
        })
    }

    fn read_loc(&mut self, loc: &Loc) -> R<Bv> {
        if !loc.pending.is_empty() {
            return Err(SvErr::unsupported("whole unpacked array as a value"));
        }
        let w = loc.ty.width();
        if !loc.valid {
            return Ok(Bv::xs(w, loc.ty.signed));
        }
        let src = self.elem_value(loc)?;
        let sw = src.width() as i64;
        if loc.lo == 0 && w as i64 == sw {
            return Ok(src.as_signed(loc.ty.signed));
        }
        let mut bits = Vec::with_capacity(w);
        for k in 0..w as i64 {
            let p = loc.lo + k;
            bits.push(if p < 0 || p >= sw { X } else { src.bits[p as usize] });
        }
        Ok(Bv::new(bits, loc.ty.signed))
    }

    /// Store `v` (already `loc.ty.width()` wide) into the location.
    fn write_loc(&mut self, loc: &Loc, v: &Bv) -> R<()> {
        if !loc.pending.is_empty() {
            return Err(SvErr::unsupported("assignment to a whole unpacked array"));
        }
        if !loc.valid {
            return Ok(()); // IEEE 11.5.1: out-of-range / x index write has no effect
        }
        let w = loc.ty.width();
        debug_assert_eq!(v.width(), w);
        let lo = loc.lo;
        let splice = |dst: &mut Bv, two: bool| {
            let dw = dst.width() as i64;
            for k in 0..w as i64 {
                let p = lo + k;
                if p >= 0 && p < dw {
                    let d = v.bits[k as usize];
                    dst.bits[p as usize] = if two && d > 1 { 0 } else { d };
                }
            }
        };
        match &loc.place {
            Place::Temp(_) => return Err(SvErr::unsupported("assignment to a constant")),
            Place::Local(f, b, n) => {
                let l = self.frames[*f].blocks[*b].get_mut(n).unwrap();
                let two = l.ty.two_state;
                splice(&mut l.val, two);
            }
            Place::Ret(f) => {
                let l = self.frames[*f].ret.as_mut().unwrap();
                let two = l.ty.two_state;
                splice(&mut l.val, two);
            }
            Place::Var(id) => {
                let var = &mut self.sim.vars[*id];
                let two = var.ty.two_state;
                let Some(dst) = var.vals.get_mut(loc.elem) else {
                    return Err(SvErr::runtime("element index out of range"));
                };
                self.touched.entry((*id, loc.elem)).or_insert_with(|| dst.clone());
                splice(dst, two);
            }
        }
        Ok(())
    }

    // -------------------------------------------------------------------------------- expressions

    fn eval_self(&mut self, e: &Expr) -> R<Bv> {
        let l = self.lower(e)?;
        Ok(bv4::eval_expr(&l, None))
    }

    /// Evaluate as the right-hand side of an assignment to a `width`-bit target
    /// (IEEE 11.6: context width max(L(rhs), width); 10.7: then truncate).
    fn eval_ctx(&mut self, e: &Expr, width: usize) -> R<Bv> {
        let l = self.lower(e)?;
        Ok(bv4::eval_expr(&l, Some(width)).resize(width))
    }

    fn eval_to_type(&mut self, e: &Expr, ty: &Ty) -> R<Bv> {
        let v = self.eval_ctx(e, ty.width())?.as_signed(ty.signed);
        Ok(if ty.two_state { two_state(v) } else { v })
    }

    fn type_of_path(&mut self, path: &[String]) -> Option<Ty> {
        if path.len() == 1 && self.find_local(&path[0]).is_some() {
            return None;
        }
        match self.lookup_path(path) {
            Ok(Sym::Type(t)) => Some(t),
            _ => None,
        }
    }

    fn lower(&mut self, e: &Expr) -> R<BE> {
        Ok(match e {
            Expr::Num(v) => BE::Lit(v.clone()),
            Expr::Fill(d) => BE::Fill(*d),
            Expr::Str(_) => return Err(SvErr::unsupported("string literal")),
            Expr::Ident(_) | Expr::Member(..) | Expr::Index(..) | Expr::Range(..) | Expr::Indexed(..) => {
                let loc = self.resolve_loc(e)?;
                BE::Lit(self.read_loc(&loc)?)
            }
            Expr::Unary(op, x) => BE::Un(*op, Box::new(self.lower(x)?)),
            Expr::Binary(op, a, b) => BE::Bin(*op, Box::new(self.lower(a)?), Box::new(self.lower(b)?)),
            Expr::Cond(c, a, b) => BE::Cond(Box::new(self.lower(c)?), Box::new(self.lower(a)?), Box::new(self.lower(b)?)),
            Expr::Concat(v) => {
                let mut parts = vec![];
                for x in v {
                    if matches!(x, Expr::Fill(_)) {
                        return Err(SvErr::unsupported("unsized literal in concatenation"));
                    }
                    parts.push(self.lower(x)?);
                }
                self.sim.constructs.insert("concat");
                BE::Concat(parts)
            }
            Expr::Repl(n, v) => {
                let n = self.const_i64(n)?;
                if n <= 0 || n > 4096 {
                    return Err(SvErr::unsupported("replication count"));
                }
                let mut parts = vec![];
                for x in v {
                    parts.push(self.lower(x)?);
                }
                self.sim.constructs.insert("replication");
                BE::Repl(n as usize, Box::new(BE::Concat(parts)))
            }
            Expr::Call(path, args) => BE::Lit(self.call(path, args)?),
            Expr::SysCall(name, args) => self.syscall(name, args)?,
            Expr::Cast(to, x) => {
                self.sim.constructs.insert("cast");
                match to {
                    CastTo::Signed => BE::Signed(Box::new(self.lower(x)?)),
                    CastTo::Unsigned => BE::Unsigned(Box::new(self.lower(x)?)),
                    CastTo::Type(t) => {
                        let ty = self.resolve_type(t, false)?;
                        BE::Lit(self.eval_to_type(x, &ty)?)
                    }
                    CastTo::Expr(te) => {
                        if let Expr::Ident(p) = &**te
                            && let Some(ty) = self.type_of_path(p)
                        {
                            BE::Lit(self.eval_to_type(x, &ty)?)
                        } else {
                            let n = self.const_i64(te)?;
                            if n <= 0 || n as usize > MAX_WIDTH {
                                return Err(SvErr::unsupported("cast size"));
                            }
                            let lx = self.lower(x)?;
                            if emulation() & 2 != 0 && (n as usize) > bv4::expr_type(&lx).0 {
                                BE::Cast(n as usize, Box::new(BE::Unsigned(Box::new(lx))))
                            } else {
                                BE::Cast(n as usize, Box::new(lx))
                            }
                        }
                    }
                }
            }
            Expr::Inside(x, items) => {
                self.sim.constructs.insert("inside_operator");
                let lx = self.lower(x)?;
                self.inside(&lx, items)?
            }
            Expr::Pattern(_) => return Err(SvErr::unsupported("assignment pattern")),
        })
    }

    /// IEEE 11.4.13: OR over `x ==? item` / `lo <= x && x <= hi`
    fn inside(&mut self, lx: &BE, items: &[InsideItem]) -> R<BE> {
        let mut acc: Option<BE> = None;
        for it in items {
            let t = match it {
                InsideItem::Value(v) => BE::Bin(BinOp::WildEq, Box::new(lx.clone()), Box::new(self.lower(v)?)),
                InsideItem::Range(lo, hi) => {
                    let (lo, hi) = (self.lower(lo)?, self.lower(hi)?);
                    BE::Bin(
                        BinOp::LogicAnd,
                        Box::new(BE::Bin(BinOp::Ge, Box::new(lx.clone()), Box::new(lo))),
                        Box::new(BE::Bin(BinOp::Le, Box::new(lx.clone()), Box::new(hi))),
                    )
                }
            };
            acc = Some(match acc {
                None => t,
                Some(a) => BE::Bin(BinOp::LogicOr, Box::new(a), Box::new(t)),
            });
        }
        acc.ok_or_else(|| SvErr::unsupported("empty inside set"))
    }

    fn syscall(&mut self, name: &str, args: &[SysArg]) -> R<BE> {
        let one_expr = |args: &[SysArg]| -> R<Expr> {
            match args {
                [SysArg::Expr(e)] => Ok(e.clone()),
                _ => Err(SvErr::unsupported("system function argument shape")),
            }
        };
        match name {
            "$signed" => {
                let e = one_expr(args)?;
                self.sim.constructs.insert("$signed");
                Ok(BE::Signed(Box::new(self.lower(&e)?)))
            }
            "$unsigned" => {
                let e = one_expr(args)?;
                self.sim.constructs.insert("$unsigned");
                Ok(BE::Unsigned(Box::new(self.lower(&e)?)))
            }
            "$bits" => {
                self.sim.constructs.insert("$bits");
                let w = match args {
                    [SysArg::Type(t)] => self.resolve_type(t, false)?.width(),
                    [SysArg::Expr(Expr::Ident(p))] if self.type_of_path(p).is_some() => self.type_of_path(p).unwrap().width(),
                    [SysArg::Expr(e)] => {
                        // unpacked arrays: total bits
                        if let Ok(loc) = self.resolve_loc(e)
                            && !loc.pending.is_empty()
                        {
                            loc.pending.iter().map(|p| p.1).product::<usize>() * loc.ty.width()
                        } else {
                            let l = self.lower(e)?;
                            bv4::expr_type(&l).0
                        }
                    }
                    _ => return Err(SvErr::unsupported("$bits argument shape")),
                };
                Ok(BE::Lit(int_bv(w as i64)))
            }
            "$clog2" => {
                self.sim.constructs.insert("$clog2");
                let e = one_expr(args)?;
                let v = self.eval_self(&e)?;
                if v.has_xz() {
                    return Ok(BE::Lit(Bv::xs(32, true)));
                }
                // IEEE 20.8.1: argument treated as unsigned; $clog2(0) = 0
                let top = v.bits.iter().rposition(|d| *d == 1);
                let r = match top {
                    None => 0,
                    Some(t) => {
                        let pow2 = v.bits.iter().filter(|d| **d == 1).count() == 1;
                        if pow2 { t } else { t + 1 }
                    }
                };
                Ok(BE::Lit(int_bv(r as i64)))
            }
            _ => Err(SvErr::unsupported(&format!("system function {name}"))),
        }
    }

    fn call(&mut self, path: &[String], args: &[Expr]) -> R<Bv> {
        let Sym::Func(f, fscope) = self.lookup_path(path)? else {
            return Err(SvErr::unsupported("call of a non-function"));
        };
        if self.frames.len() > MAX_CALL_DEPTH {
            return Err(SvErr::runtime("call depth exceeded"));
        }
        if args.len() != f.args.len() {
            return Err(SvErr::unsupported("function argument count mismatch"));
        }
        self.sim.constructs.insert("function_call");
        // types are resolved in the function's defining scope
        self.frames.push(Frame { scope: fscope, blocks: vec![HashMap::new()], ret: None, func: String::new() });
        let mut tys = vec![];
        let mut err = None;
        for a in &f.args {
            match self.resolve_type(&a.ty, false) {
                Ok(t) => tys.push(t),
                Err(e) => {
                    err = Some(e);
                    break;
                }
            }
        }
        let ret_ty = match (&f.ret, &err) {
            (Some(t), None) => match self.resolve_type(t, false) {
                Ok(t) => Some(t),
                Err(e) => {
                    err = Some(e);
                    None
                }
            },
            _ => None,
        };
        self.frames.pop();
        if let Some(e) = err {
            return Err(e);
        }
        // actuals are evaluated in the caller's frame
        let mut locals = HashMap::new();
        for ((a, ty), actual) in f.args.iter().zip(tys.iter()).zip(args.iter()) {
            let v = match a.dir {
                Dir::Input | Dir::Inout => self.eval_to_type(actual, ty)?,
                Dir::Output => {
                    if ty.two_state {
                        Bv::zeros(ty.width(), ty.signed)
                    } else {
                        Bv::xs(ty.width(), ty.signed)
                    }
                }
            };
            locals.insert(a.name.clone(), Local { ty: ty.clone(), val: v });
        }
        let ret = ret_ty.as_ref().map(|t| Local { ty: t.clone(), val: if t.two_state { Bv::zeros(t.width(), t.signed) } else { Bv::xs(t.width(), t.signed) } });
        self.frames.push(Frame { scope: fscope, blocks: vec![locals], ret, func: f.name.clone() });
        let mut res = Ok(Flow::Normal);
        for s in &f.body {
            res = self.exec(s);
            match res {
                Ok(Flow::Normal) => {}
                _ => break,
            }
        }
        let frame = self.frames.pop().unwrap();
        res?;
        // copy-out of output arguments
        for (a, actual) in f.args.iter().zip(args.iter()) {
            if matches!(a.dir, Dir::Output | Dir::Inout) {
                self.sim.constructs.insert("function_output_arg");
                let v = frame.blocks[0][&a.name].val.clone();
                let locs = self.resolve_lvalue(actual)?;
                self.assign_value(&locs, &BE::Lit(v), false)?;
            }
        }
        match frame.ret {
            Some(r) => Ok(r.val),
            None => Ok(Bv::xs(1, false)),
        }
    }

    // -------------------------------------------------------------------------------- statements

    fn resolve_lvalue(&mut self, e: &Expr) -> R<Vec<Loc>> {
        match e {
            Expr::Concat(v) => {
                let mut out = vec![];
                for x in v {
                    out.extend(self.resolve_lvalue(x)?);
                }
                self.sim.constructs.insert("concat_lvalue");
                Ok(out)
            }
            _ => Ok(vec![self.resolve_loc(e)?]),
        }
    }

    /// Assign the value of `rhs` (a lowered expression) to the location list
    /// (first = most significant).
    fn assign_value(&mut self, locs: &[Loc], rhs: &BE, nonblocking: bool) -> R<()> {
        for l in locs {
            if !l.pending.is_empty() {
                return Err(SvErr::unsupported("assignment to a whole unpacked array"));
            }
        }
        let total: usize = locs.iter().map(|l| l.ty.width()).sum();
        let v = bv4::eval_expr(rhs, Some(total)).resize(total);
        let mut hi = total;
        for l in locs {
            let w = l.ty.width();
            let part = Bv::new(v.bits[hi - w..hi].to_vec(), l.ty.signed);
            hi -= w;
            if nonblocking {
                if !matches!(l.place, Place::Var(_)) {
                    return Err(SvErr::unsupported("non-blocking assignment to a local variable"));
                }
                self.nba.push((l.clone(), part));
            } else {
                self.write_loc(l, &part)?;
            }
        }
        Ok(())
    }

    fn push_block(&mut self) {
        self.frames.last_mut().unwrap().blocks.push(HashMap::new());
    }
    fn pop_block(&mut self) {
        self.frames.last_mut().unwrap().blocks.pop();
    }

    fn exec(&mut self, s: &Stmt) -> R<Flow> {
        self.tick()?;
        match s {
            Stmt::Null => Ok(Flow::Normal),
            Stmt::Block(v) => {
                self.push_block();
                let mut flow = Ok(Flow::Normal);
                for x in v {
                    flow = self.exec(x);
                    if !matches!(flow, Ok(Flow::Normal)) {
                        break;
                    }
                }
                self.pop_block();
                flow
            }
            Stmt::Decl(d) => {
                if !d.unpacked.is_empty() {
                    return Err(SvErr::unsupported("local unpacked array"));
                }
                let ty = self.resolve_type(&d.ty, true)?;
                let val = match &d.init {
                    Some(e) => self.eval_to_type(e, &ty)?,
                    None => {
                        if ty.two_state {
                            Bv::zeros(ty.width(), ty.signed)
                        } else {
                            Bv::xs(ty.width(), ty.signed)
                        }
                    }
                };
                self.frames.last_mut().unwrap().blocks.last_mut().unwrap().insert(d.name.clone(), Local { ty, val });
                self.sim.constructs.insert("local_variable");
                Ok(Flow::Normal)
            }
            Stmt::Assign { lhs, op, rhs, nonblocking } => {
                let locs = self.resolve_lvalue(lhs)?;
                let r = self.lower(rhs)?;
                let r = match op {
                    None => r,
                    Some(op) => {
                        // IEEE 11.4.1: `a op= b` is `a = a op b`
                        if locs.len() != 1 {
                            return Err(SvErr::unsupported("compound assignment to concatenation"));
                        }
                        self.sim.constructs.insert("compound_assign");
                        let cur = self.read_loc(&locs[0])?;
                        BE::Bin(*op, Box::new(BE::Lit(cur)), Box::new(r))
                    }
                };
                if *nonblocking {
                    self.sim.constructs.insert("nonblocking_assign");
                }
                self.assign_value(&locs, &r, *nonblocking)?;
                Ok(Flow::Normal)
            }
            Stmt::IncDec { lhs, inc } => {
                let locs = self.resolve_lvalue(lhs)?;
                if locs.len() != 1 {
                    return Err(SvErr::unsupported("inc/dec of concatenation"));
                }
                let cur = self.read_loc(&locs[0])?;
                let r = BE::Bin(if *inc { BinOp::Add } else { BinOp::Sub }, Box::new(BE::Lit(cur)), Box::new(BE::Lit(int_bv(1))));
                self.assign_value(&locs, &r, false)?;
                Ok(Flow::Normal)
            }
            Stmt::If(c, t, e) => {
                self.sim.constructs.insert("if");
                let cv = self.eval_self(c)?;
                if cv.truth() == 1 {
                    self.exec(t)
                } else if let Some(e) = e {
                    self.exec(e)
                } else {
                    Ok(Flow::Normal)
                }
            }
            Stmt::Case { kind, subject, arms, default } => {
                let ls = self.lower(subject)?;
                match kind {
                    CaseKind::Wild => return Err(SvErr::unsupported("casez/casex")),
                    CaseKind::Inside => {
                        self.sim.constructs.insert("case_inside");
                        for (items, body) in arms {
                            let m = self.inside(&ls, items)?;
                            if bv4::eval_expr(&m, None).truth() == 1 {
                                return self.exec(body);
                            }
                        }
                    }
                    CaseKind::Plain => {
                        self.sim.constructs.insert(if matches!(subject, Expr::Num(_)) { "case_constant_subject" } else { "case" });
                        // IEEE 12.5: all expressions are sized to the longest, signed only if all are;
                        // comparison is 4-state exact (===)
                        let mut lowered: Vec<Vec<BE>> = vec![];
                        let (mut w, mut sg) = bv4::expr_type(&ls);
                        for (items, _) in arms {
                            let mut row = vec![];
                            for it in items {
                                let InsideItem::Value(v) = it else {
                                    return Err(SvErr::unsupported("range in plain case"));
                                };
                                let l = self.lower(v)?;
                                let (iw, is) = bv4::expr_type(&l);
                                w = w.max(iw);
                                sg = sg && is;
                                row.push(l);
                            }
                            lowered.push(row);
                        }
                        let sv = bv4::eval_in(&ls, w, sg);
                        for (row, (_, body)) in lowered.iter().zip(arms.iter()) {
                            for l in row {
                                if bv4::eval_in(l, w, sg).bits == sv.bits {
                                    return self.exec(body);
                                }
                            }
                        }
                    }
                }
                match default {
                    Some(d) => self.exec(d),
                    None => Ok(Flow::Normal),
                }
            }
            Stmt::For { init, cond, step, body } => {
                self.sim.constructs.insert("for");
                self.push_block();
                let r = (|| -> R<Flow> {
                    self.exec(init)?;
                    let mut n = 0u64;
                    loop {
                        if self.eval_self(cond)?.truth() != 1 {
                            return Ok(Flow::Normal);
                        }
                        match self.exec(body)? {
                            Flow::Break => {
                                self.sim.constructs.insert("break");
                                return Ok(Flow::Normal);
                            }
                            Flow::Return => return Ok(Flow::Return),
                            Flow::Normal => {}
                        }
                        self.exec(step)?;
                        n += 1;
                        if n > MAX_LOOP_ITERS {
                            return Err(SvErr::runtime("for-loop iteration limit"));
                        }
                    }
                })();
                self.pop_block();
                r
            }
            Stmt::Break => Ok(Flow::Break),
            Stmt::Return(e) => {
                if let Some(e) = e {
                    let fi = self.frames.len() - 1;
                    let Some(rt) = self.frames[fi].ret.as_ref().map(|r| r.ty.clone()) else {
                        return Err(SvErr::unsupported("return value in void context"));
                    };
                    let v = self.eval_to_type(e, &rt)?;
                    self.frames[fi].ret.as_mut().unwrap().val = v;
                }
                Ok(Flow::Return)
            }
            Stmt::Expr(e) => {
                self.lower(e)?;
                Ok(Flow::Normal)
            }
        }
    }
}

// ------------------------------------------------------------------------------------------------
// elaboration

impl Sim {
    fn lookup(&self, scope: ScopeId, name: &str) -> Option<Sym> {
        let mut s = Some(scope);
        while let Some(id) = s {
            let sc = &self.scopes[id];
            if let Some(x) = sc.names.get(name) {
                return Some(x.clone());
            }
            for imp in &sc.imports {
                if let Some(x) = self.scopes[*imp].names.get(name) {
                    return Some(x.clone());
                }
            }
            s = sc.parent;
        }
        None
    }

    fn new_scope(&mut self, parent: Option<ScopeId>) -> ScopeId {
        self.scopes.push(Scope { parent, ..Default::default() });
        self.scopes.len() - 1
    }

    fn package_scope(&mut self, name: &str) -> R<ScopeId> {
        if let Some(s) = self.packages.get(name) {
            return Ok(*s);
        }
        let Some(ast) = self.package_asts.get(name).cloned() else {
            return Err(SvErr::unsupported(&format!("unknown package {name}")));
        };
        if self.packages_in_progress.iter().any(|p| p == name) {
            // self reference while the package is being elaborated: its scope exists already
            return Err(SvErr::unsupported("recursive package reference"));
        }
        self.packages_in_progress.push(name.to_string());
        let scope = self.new_scope(None);
        // register early so items can refer to earlier items through pkg::name
        self.packages.insert(name.to_string(), scope);
        self.constructs.insert("package");
        let r = self.elaborate_items(scope, &ast.items, name);
        self.packages_in_progress.pop();
        r?;
        Ok(scope)
    }

    fn add_var(&mut self, scope: ScopeId, name: &str, hier: &str, ty: Ty, unpacked: Vec<(i64, usize)>) -> R<VarId> {
        let n: usize = unpacked.iter().map(|u| u.1).product();
        if n == 0 || n > 1 << 16 {
            return Err(SvErr::unsupported("unpacked array size"));
        }
        let init = if ty.two_state { Bv::zeros(ty.width(), ty.signed) } else { Bv::xs(ty.width(), ty.signed) };
        self.vars.push(Var { name: format!("{hier}.{name}"), ty, unpacked, vals: vec![init; n] });
        let id = self.vars.len() - 1;
        self.scopes[scope].names.insert(name.to_string(), Sym::Var(id));
        Ok(id)
    }

    fn unpacked_dims(&mut self, scope: ScopeId, dims: &[UnpackedDim]) -> R<Vec<(i64, usize)>> {
        let mut out = vec![];
        for d in dims {
            let mut ex = Exec::new(self, scope);
            match d {
                UnpackedDim::Size(e) => {
                    let n = ex.const_i64(e)?;
                    if n <= 0 {
                        return Err(SvErr::unsupported("unpacked dimension size"));
                    }
                    out.push((0, n as usize));
                }
                UnpackedDim::Range(a, b) => {
                    let (a, b) = (ex.const_i64(a)?, ex.const_i64(b)?);
                    out.push((a.min(b), ((a - b).unsigned_abs() + 1) as usize));
                }
            }
        }
        if !out.is_empty() {
            self.constructs.insert("unpacked_array");
        }
        Ok(out)
    }

    fn declare_param(&mut self, scope: ScopeId, p: &ParamDecl, override_v: Option<Bv>) -> R<()> {
        if p.is_type {
            let Some(tv) = &p.type_value else {
                return Err(SvErr::unsupported("type parameter without default"));
            };
            let ty = Exec::new(self, scope).resolve_type(tv, true)?;
            self.scopes[scope].names.insert(p.name.clone(), Sym::Type(ty));
            self.constructs.insert("type_parameter");
            return Ok(());
        }
        let implicit_plain = matches!(&p.ty, DataType::Implicit { signed: false, dims } if dims.is_empty());
        let mut ex = Exec::new(self, scope);
        let (v, ty) = if implicit_plain {
            // IEEE 6.20.2: no type and no range → type and range of the final value
            let v = match override_v {
                Some(v) => v,
                None => match &p.value {
                    Some(e) => ex.eval_self(e)?,
                    None => return Err(SvErr::unsupported("parameter without value")),
                },
            };
            let ty = Ty::vector(v.width(), v.signed);
            (v, ty)
        } else {
            let ty = ex.resolve_type(&p.ty, true)?;
            let v = match override_v {
                Some(v) => {
                    let l = BE::Lit(v);
                    let r = bv4::eval_expr(&l, Some(ty.width())).resize(ty.width()).as_signed(ty.signed);
                    if ty.two_state { two_state(r) } else { r }
                }
                None => match &p.value {
                    Some(e) => ex.eval_to_type(e, &ty)?,
                    None => return Err(SvErr::unsupported("parameter without value")),
                },
            };
            (v, ty)
        };
        self.scopes[scope].names.insert(p.name.clone(), Sym::Param(v, ty));
        Ok(())
    }

    fn instantiate(&mut self, m: &Rc<Module>, overrides: Vec<(String, Bv)>, hier: &str) -> R<(ScopeId, Vec<PortInfo>)> {
        if self.inst_depth > MAX_INST_DEPTH {
            return Err(SvErr::runtime("instance depth exceeded"));
        }
        self.inst_depth += 1;
        let scope = self.new_scope(None);
        for (n, _) in &overrides {
            if !m.params.iter().any(|p| &p.name == n && !p.local) {
                return Err(SvErr::unsupported("override of unknown / local parameter"));
            }
        }
        for p in &m.params {
            let ov = overrides.iter().find(|(n, _)| n == &p.name).map(|(_, v)| v.clone());
            if p.is_type && ov.is_some() {
                return Err(SvErr::unsupported("type parameter override"));
            }
            self.declare_param(scope, p, ov)?;
            if !p.local {
                self.constructs.insert("module_parameter");
            }
        }
        let mut ports = vec![];
        for p in &m.ports {
            let ty = Exec::new(self, scope).resolve_type(&p.ty, true)?;
            let unp = self.unpacked_dims(scope, &p.unpacked)?;
            let (w, s) = (ty.width(), ty.signed);
            let id = self.add_var(scope, &p.name, hier, ty, unp)?;
            ports.push(PortInfo { name: p.name.clone(), dir: p.dir, var: id, width: w, signed: s });
        }
        self.elaborate_items(scope, &m.items, hier)?;
        self.inst_depth -= 1;
        Ok((scope, ports))
    }

    fn elaborate_items(&mut self, scope: ScopeId, items: &[ModItem], hier: &str) -> R<()> {
        for it in items {
            match it {
                ModItem::Param(p) => self.declare_param(scope, p, None)?,
                ModItem::Var(d) => {
                    let ty = Exec::new(self, scope).resolve_type(&d.ty, true)?;
                    let unp = self.unpacked_dims(scope, &d.unpacked)?;
                    self.add_var(scope, &d.name, hier, ty, unp)?;
                    if let Some(init) = &d.init {
                        self.constructs.insert("variable_initializer");
                        self.inits.push((scope, Expr::Ident(vec![d.name.clone()]), init.clone()));
                    }
                }
                ModItem::Typedef(name, t) => {
                    let ty = Exec::new(self, scope).resolve_type(t, true)?;
                    self.scopes[scope].names.insert(name.clone(), Sym::Type(ty));
                    self.constructs.insert("typedef");
                }
                ModItem::Assign(l, r) => {
                    self.constructs.insert("assign");
                    self.procs.push(Rc::new(Proc::Assign { scope, lhs: l.clone(), rhs: r.clone() }));
                }
                ModItem::AlwaysComb(s) => {
                    self.constructs.insert(if matches!(s, Stmt::Block(_)) { "always_comb_block" } else { "always_comb_single" });
                    self.procs.push(Rc::new(Proc::Comb { scope, stmt: s.clone() }));
                }
                ModItem::AlwaysFf(evs, s) => {
                    let mut events = vec![];
                    for (edge, e) in evs {
                        let Expr::Ident(p) = e else {
                            return Err(SvErr::unsupported("always_ff event on a non-identifier"));
                        };
                        if p.len() != 1 {
                            return Err(SvErr::unsupported("always_ff event on a scoped name"));
                        }
                        let Some(Sym::Var(id)) = self.lookup(scope, &p[0]) else {
                            return Err(SvErr::unsupported("always_ff event on a non-variable"));
                        };
                        if self.vars[id].ty.width() != 1 || !self.vars[id].unpacked.is_empty() {
                            return Err(SvErr::unsupported("always_ff event on a vector"));
                        }
                        let edge = if self.fault_flip_edges { Edge::Pos } else { *edge };
                        events.push((edge, id));
                        if !self.sens.contains(&id) {
                            self.sens.push(id);
                        }
                    }
                    self.constructs.insert(match events.len() {
                        1 => "always_ff_clock_only",
                        _ => "always_ff_clock_and_async_reset",
                    });
                    for (e, _) in &events {
                        self.constructs.insert(if *e == Edge::Pos { "posedge" } else { "negedge" });
                    }
                    self.ffs.push(Rc::new(FfProc { scope, events, stmt: s.clone() }));
                }
                ModItem::Function(f) => {
                    self.scopes[scope].names.insert(f.name.clone(), Sym::Func(f.clone(), scope));
                    self.constructs.insert("function_declaration");
                }
                ModItem::Import(pkg, name) => {
                    let ps = self.package_scope(pkg)?;
                    self.constructs.insert("import");
                    match name {
                        None => self.scopes[scope].imports.push(ps),
                        Some(n) => {
                            let Some(sym) = self.scopes[ps].names.get(n).cloned() else {
                                return Err(SvErr::unsupported("import of unknown package item"));
                            };
                            self.scopes[scope].names.insert(n.clone(), sym);
                        }
                    }
                }
                ModItem::Genvar(_) => {}
                ModItem::GenBlock { label, items } => {
                    let child = self.new_scope(Some(scope));
                    if let Some(l) = label {
                        self.scopes[scope].names.insert(l.clone(), Sym::Scope(child));
                    }
                    let h = format!("{hier}.{}", label.clone().unwrap_or_default());
                    self.elaborate_items(child, items, &h)?;
                }
                ModItem::GenIf { cond, then_label, then_items, else_label, else_items } => {
                    self.constructs.insert("generate_if");
                    let c = Exec::new(self, scope).eval_self(cond)?;
                    let (label, items) = if c.truth() == 1 {
                        (then_label, Some(then_items))
                    } else {
                        if c.has_xz() {
                            return Err(SvErr::unsupported("x in generate condition"));
                        }
                        (else_label, else_items.as_ref())
                    };
                    if let Some(items) = items {
                        let child = self.new_scope(Some(scope));
                        if let Some(l) = label {
                            self.scopes[scope].names.insert(l.clone(), Sym::Scope(child));
                        }
                        let h = format!("{hier}.{}", label.clone().unwrap_or_default());
                        self.elaborate_items(child, items, &h)?;
                    }
                }
                ModItem::GenFor { var, init, cond, step, label, items } => {
                    self.constructs.insert("generate_for");
                    let mut v = Exec::new(self, scope).eval_to_type(init, &Ty::int())?;
                    let holder = self.new_scope(Some(scope));
                    if let Some(l) = label {
                        self.scopes[scope].names.insert(l.clone(), Sym::Scope(holder));
                    }
                    let mut n = 0usize;
                    loop {
                        let child = self.new_scope(Some(scope));
                        self.scopes[child].names.insert(var.clone(), Sym::Param(v.clone(), Ty::int()));
                        let c = Exec::new(self, child).eval_self(cond)?;
                        if c.has_xz() {
                            return Err(SvErr::unsupported("x in generate loop condition"));
                        }
                        if c.truth() != 1 {
                            break;
                        }
                        let h = format!("{hier}.{}[{}]", label.clone().unwrap_or_default(), to_i64(&v).unwrap_or(0));
                        self.elaborate_items(child, items, &h)?;
                        // step
                        let mut ex = Exec::new(self, child);
                        let next = match step {
                            Stmt::IncDec { lhs: Expr::Ident(p), inc } if p.len() == 1 && &p[0] == var => {
                                let r = BE::Bin(if *inc { BinOp::Add } else { BinOp::Sub }, Box::new(BE::Lit(v.clone())), Box::new(BE::Lit(int_bv(1))));
                                bv4::eval_expr(&r, Some(32)).resize(32)
                            }
                            Stmt::Assign { lhs: Expr::Ident(p), op, rhs, nonblocking: false } if p.len() == 1 && &p[0] == var => {
                                let r = ex.lower(rhs)?;
                                let r = match op {
                                    None => r,
                                    Some(op) => BE::Bin(*op, Box::new(BE::Lit(v.clone())), Box::new(r)),
                                };
                                bv4::eval_expr(&r, Some(32)).resize(32)
                            }
                            _ => return Err(SvErr::unsupported("generate loop step shape")),
                        };
                        v = two_state(next.as_signed(true));
                        n += 1;
                        if n > MAX_GEN_ITERS {
                            return Err(SvErr::runtime("generate loop iteration limit"));
                        }
                    }
                }
                ModItem::Inst(inst) => {
                    self.constructs.insert("module_instance");
                    let Some(m) = self.modules.get(&inst.module).cloned() else {
                        return Err(SvErr::unsupported(&format!("unknown module {}", inst.module)));
                    };
                    let mut ovs = vec![];
                    for (n, e) in &inst.params {
                        if let Some(e) = e {
                            let v = Exec::new(self, scope).eval_self(e)?;
                            ovs.push((n.clone(), v));
                            self.constructs.insert("parameter_override");
                        }
                    }
                    let h = format!("{hier}.{}", inst.name);
                    let (child, ports) = self.instantiate(&m, ovs, &h)?;
                    self.scopes[scope].names.insert(inst.name.clone(), Sym::Scope(child));
                    for (k, (pname, e)) in inst.ports.iter().enumerate() {
                        let port = if inst.positional { ports.get(k) } else { ports.iter().find(|p| &p.name == pname) };
                        let Some(port) = port else {
                            return Err(SvErr::unsupported("connection to unknown port"));
                        };
                        if !self.vars[port.var].unpacked.is_empty() {
                            return Err(SvErr::unsupported("unpacked array port connection"));
                        }
                        let Some(e) = e else { continue };
                        match port.dir {
                            Dir::Input => self.procs.push(Rc::new(Proc::PortIn { scope, expr: e.clone(), child: port.var })),
                            Dir::Output => self.procs.push(Rc::new(Proc::PortOut { scope, lhs: e.clone(), child: port.var })),
                            Dir::Inout => return Err(SvErr::unsupported("inout port")),
                        }
                    }
                }
            }
        }
        Ok(())
    }

    /// Parse and elaborate `srcs` with `top` as the root module.
    pub fn build(srcs: &[String], top: &str) -> R<Sim> {
        Sim::build_with(srcs, top, false)
    }

    pub fn build_with(srcs: &[String], top: &str, fault_flip_edges: bool) -> R<Sim> {
        let mut sim = Sim {
            scopes: vec![],
            vars: vec![],
            packages: HashMap::new(),
            package_asts: HashMap::new(),
            packages_in_progress: vec![],
            modules: HashMap::new(),
            procs: vec![],
            ffs: vec![],
            inits: vec![],
            ports: vec![],
            sens: vec![],
            prev: vec![],
            inst_depth: 0,
            constructs: BTreeSet::new(),
            fault_flip_edges,
        };
        for s in srcs {
            let unit = super::parse::parse(s)?;
            for it in unit.items {
                match it {
                    Item::Module(m) => {
                        sim.modules.insert(m.name.clone(), m);
                    }
                    Item::Package(p) => {
                        sim.package_asts.insert(p.name.clone(), p);
                    }
                }
            }
        }
        let Some(m) = sim.modules.get(top).cloned() else {
            return Err(SvErr::unsupported(&format!("top module {top} not found")));
        };
        let (_, ports) = sim.instantiate(&m, vec![], top)?;
        sim.ports = ports;
        // declaration initialisers (time-0 values)
        let inits = std::mem::take(&mut sim.inits);
        for (scope, l, r) in &inits {
            let mut ex = Exec::new(&mut sim, *scope);
            let locs = ex.resolve_lvalue(l)?;
            let rv = ex.lower(r)?;
            ex.assign_value(&locs, &rv, false)?;
        }
        Ok(sim)
    }

    // -------------------------------------------------------------------------------- kernel

    pub fn port(&self, name: &str) -> Option<&PortInfo> {
        self.ports.iter().find(|p| p.name == name)
    }

    /// Drive a top-level port (no event processing until `eval`).
    pub fn poke(&mut self, name: &str, v: &Bv) -> R<()> {
        let Some(p) = self.port(name).cloned() else {
            return Err(SvErr::unsupported(&format!("no port {name}")));
        };
        let var = &mut self.vars[p.var];
        if !var.unpacked.is_empty() {
            return Err(SvErr::unsupported("unpacked top-level port"));
        }
        let nv = v.resize(p.width).as_signed(p.signed);
        var.vals[0] = if var.ty.two_state { two_state(nv) } else { nv };
        Ok(())
    }

    pub fn peek(&self, name: &str) -> R<Bv> {
        let Some(p) = self.port(name) else {
            return Err(SvErr::unsupported(&format!("no port {name}")));
        };
        Ok(self.vars[p.var].vals[0].clone())
    }

    /// Value of any variable by hierarchical name (`Top.c0`), for debugging.
    pub fn peek_var(&self, hier: &str) -> Option<Vec<Bv>> {
        self.vars.iter().find(|v| v.name == hier).map(|v| v.vals.clone())
    }

    /// True when some stored variable carries X/Z.
    pub fn any_xz(&self) -> bool {
        self.vars.iter().any(|v| v.vals.iter().any(|b| b.has_xz()))
    }

    pub fn xz_vars(&self) -> Vec<String> {
        self.vars.iter().filter(|v| v.vals.iter().any(|b| b.has_xz())).map(|v| v.name.clone()).collect()
    }

    fn run_comb(&mut self, p: &Proc) -> R<bool> {
        let scope = match p {
            Proc::Comb { scope, .. } | Proc::Assign { scope, .. } | Proc::PortIn { scope, .. } | Proc::PortOut { scope, .. } => *scope,
        };
        let mut ex = Exec::new(self, scope);
        match p {
            Proc::Comb { stmt, .. } => {
                ex.exec(stmt)?;
            }
            Proc::Assign { lhs, rhs, .. } => {
                let locs = ex.resolve_lvalue(lhs)?;
                let r = ex.lower(rhs)?;
                ex.assign_value(&locs, &r, false)?;
            }
            Proc::PortIn { expr, child, .. } => {
                let ty = ex.sim.vars[*child].ty.clone();
                let v = ex.eval_to_type(expr, &ty)?;
                let loc = Loc { place: Place::Var(*child), elem: 0, pending: vec![], ty, lo: 0, valid: true };
                ex.write_loc(&loc, &v)?;
            }
            Proc::PortOut { lhs, child, .. } => {
                let v = ex.sim.vars[*child].vals[0].clone();
                let locs = ex.resolve_lvalue(lhs)?;
                ex.assign_value(&locs, &BE::Lit(v), false)?;
            }
        }
        if !ex.nba.is_empty() {
            return Err(SvErr::unsupported("non-blocking assignment in combinational process"));
        }
        let touched = std::mem::take(&mut ex.touched);
        let mut changed = false;
        for ((id, elem), old) in touched {
            if self.vars[id].vals[elem] != old {
                changed = true;
            }
        }
        Ok(changed)
    }

    fn settle(&mut self) -> R<()> {
        let limit = self.procs.len() + 8;
        for _ in 0..limit {
            let mut changed = false;
            for i in 0..self.procs.len() {
                let p = self.procs[i].clone();
                changed |= self.run_comb(&p)?;
            }
            if !changed {
                return Ok(());
            }
        }
        Err(SvErr::runtime("combinational settle did not converge"))
    }

    fn snapshot_sens(&mut self) {
        self.prev = self.sens.iter().map(|id| self.vars[*id].vals[0].clone()).collect();
    }

    /// Initial settle at time 0 (after the initial `poke`s): no edge fires.
    pub fn init(&mut self) -> R<()> {
        self.settle()?;
        self.snapshot_sens();
        Ok(())
    }

    fn edge(prev: u8, cur: u8, e: Edge) -> bool {
        // IEEE 9.4.2 Table 9-2
        match e {
            Edge::Pos => (prev == 0 && cur != 0) || (cur == 1 && prev != 1),
            Edge::Neg => (prev == 1 && cur != 1) || (cur == 0 && prev != 0),
        }
    }

    /// Propagate all pending changes: settle, fire edge-triggered processes, commit NBAs, repeat.
    pub fn eval(&mut self) -> R<()> {
        for _round in 0..64 {
            self.settle()?;
            let cur: Vec<Bv> = self.sens.iter().map(|id| self.vars[*id].vals[0].clone()).collect();
            let mut fired = vec![];
            for (k, f) in self.ffs.iter().enumerate() {
                for (e, id) in &f.events {
                    let si = self.sens.iter().position(|s| s == id).unwrap();
                    let (p, c) = (self.prev.get(si).map(|b| b.bits[0]).unwrap_or(X), cur[si].bits[0]);
                    let (p, c) = (if p == Z { X } else { p }, if c == Z { X } else { c });
                    if p != c && Sim::edge(p, c, *e) {
                        fired.push(k);
                        break;
                    }
                }
            }
            self.prev = cur;
            if fired.is_empty() {
                return Ok(());
            }
            let mut nba: Vec<(Loc, Bv)> = vec![];
            for k in fired {
                let f = self.ffs[k].clone();
                let mut ex = Exec::new(self, f.scope);
                ex.exec(&f.stmt)?;
                nba.append(&mut ex.nba);
            }
            let mut ex = Exec::new(self, 0);
            for (loc, v) in &nba {
                ex.write_loc(loc, v)?;
            }
        }
        Err(SvErr::runtime("event loop did not converge"))
    }
}
