//! svref — a small SystemVerilog reference interpreter (the "standard
//! SystemVerilog simulator" of C01/C22/C26; no SV simulator is installed).
//!
//! Scope: exactly the SV shapes the Veryl emitter produces for DesignGen
//! designs and what SvGen generates for C22.  Own lexer (`lex`), recursive
//! descent parser (`parse`), elaboration to flat processes and a 4-state event
//! kernel (`sim`).  All expression arithmetic is done by `refmodel::bv4`
//! (IEEE 1800 §11 operators with §11.6/§11.8 two-pass sizing).
//!
//! Any construct outside the subset yields `SvErr::Unsupported(what)`: the
//! design is then INCONCLUSIVE for the monitor, never a violation.

pub mod ast;
pub mod lex;
pub mod parse;
pub mod selftest;
pub mod sim;

pub use sim::Sim;

#[derive(Clone, Debug, PartialEq, Eq)]
pub enum SvErr {
    /// a construct svref does not implement (or does not parse)
    Unsupported(String),
    /// the kernel could not finish (no convergence, loop limit)
    Runtime(String),
}

impl SvErr {
    pub fn unsupported(what: &str) -> SvErr {
        SvErr::Unsupported(what.to_string())
    }
    /// svref's own parser is not the syntax gate (sv-parser is): a text it
    /// cannot parse is outside the subset.
    pub fn parse(what: String) -> SvErr {
        SvErr::Unsupported(format!("parse: {what}"))
    }
    pub fn runtime(what: &str) -> SvErr {
        SvErr::Runtime(what.to_string())
    }
    /// histogram key: the construct class without positions / names
    pub fn class(&self) -> String {
        match self {
            SvErr::Unsupported(s) => {
                let s = s.split(" at line").next().unwrap_or(s);
                format!("unsupported: {}", s.chars().take(60).collect::<String>())
            }
            SvErr::Runtime(s) => format!("runtime: {}", s.chars().take(60).collect::<String>()),
        }
    }
}

impl std::fmt::Display for SvErr {
    fn fmt(&self, f: &mut std::fmt::Formatter<'_>) -> std::fmt::Result {
        match self {
            SvErr::Unsupported(s) => write!(f, "unsupported: {s}"),
            SvErr::Runtime(s) => write!(f, "runtime: {s}"),
        }
    }
}

/// IEEE-1800 syntax gate: `sv-parser` must accept the text.
pub fn syntax_gate(text: &str) -> Result<(), String> {
    use std::collections::HashMap;
    let defines: sv_parser::Defines<std::collections::hash_map::RandomState> = HashMap::new();
    let inc: Vec<std::path::PathBuf> = vec![];
    match sv_parser::parse_sv_str(text, std::path::Path::new("gate.sv"), &defines, &inc, false, false) {
        Ok(_) => Ok(()),
        Err(e) => Err(format!("{e:?}")),
    }
}
