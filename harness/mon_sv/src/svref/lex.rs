//! svref lexer — SystemVerilog tokens for the subset svref understands.
//! Independent of veryl's parser and of vcommon::lex.

use super::SvErr;
use refmodel::bv4::{Bv, X, Z};

#[derive(Clone, Debug, PartialEq)]
pub enum Tok {
    Ident(String),
    /// `$name`
    SysIdent(String),
    /// number literal: value, and whether it carried an explicit size
    Num(Bv, bool),
    /// unbased unsized literal '0 '1 'x 'z
    Fill(u8),
    Str(String),
    /// punctuation / operator
    P(&'static str),
    Eof,
}

#[derive(Clone, Debug)]
pub struct Token {
    pub tok: Tok,
    pub line: u32,
}

const PUNCT: &[&str] = &[
    "<<<=", ">>>=", "===", "!==", "==?", "!=?", "<<<", ">>>", "<<=", ">>=", "'{", "+=", "-=", "*=", "/=", "%=", "&=", "|=", "^=", "<<", ">>", "==", "!=", "<=", ">=", "||",
    "&&", "~^", "^~", "~&", "~|", "**", "::", "+:", "-:", "++", "--", "->", "(", ")", "[", "]", "{", "}", ",", ";", ":", ".", "?", "+", "-", "*", "/", "%", "&", "|", "^",
    "~", "!", "<", ">", "=", "@", "#", "'",
];

fn digit_val(c: u8) -> Option<u8> {
    match c {
        b'0'..=b'9' => Some(c - b'0'),
        b'a'..=b'f' => Some(c - b'a' + 10),
        b'A'..=b'F' => Some(c - b'A' + 10),
        _ => None,
    }
}

/// decimal digit string -> bits (LSB first), by repeated multiply-add on a bit vector
fn decimal_bits(digits: &str) -> Vec<u8> {
    // value as little-endian base-2^32 limbs
    let mut limbs: Vec<u32> = vec![0];
    for c in digits.bytes() {
        if c == b'_' {
            continue;
        }
        let d = (c - b'0') as u64;
        let mut carry = d;
        for l in limbs.iter_mut() {
            let v = (*l as u64) * 10 + carry;
            *l = v as u32;
            carry = v >> 32;
        }
        if carry != 0 {
            limbs.push(carry as u32);
        }
    }
    let mut bits = vec![];
    for l in &limbs {
        for i in 0..32 {
            bits.push(((l >> i) & 1) as u8);
        }
    }
    while bits.len() > 1 && *bits.last().unwrap() == 0 {
        bits.pop();
    }
    bits
}

/// Build the literal value: `size` (None = unsized), signed flag, base, digits.
fn based_literal(size: Option<usize>, signed: bool, base: u8, digits: &str) -> Result<Bv, SvErr> {
    let mut bits: Vec<u8> = vec![];
    match base {
        b'd' => {
            let ds: String = digits.chars().filter(|c| *c != '_').collect();
            if ds.len() == 1 && matches!(ds.as_bytes()[0], b'x' | b'X' | b'z' | b'Z' | b'?') {
                let d = if matches!(ds.as_bytes()[0], b'x' | b'X') { X } else { Z };
                let w = size.unwrap_or(32);
                return Ok(Bv::fill(d, w, signed));
            }
            if !ds.bytes().all(|c| c.is_ascii_digit()) {
                return Err(SvErr::parse(format!("bad decimal literal digits {digits:?}")));
            }
            bits = decimal_bits(&ds);
        }
        _ => {
            let per = match base {
                b'b' => 1,
                b'o' => 3,
                _ => 4,
            };
            for c in digits.bytes().rev() {
                if c == b'_' {
                    continue;
                }
                match c {
                    b'x' | b'X' => bits.extend(std::iter::repeat_n(X, per)),
                    b'z' | b'Z' | b'?' => bits.extend(std::iter::repeat_n(Z, per)),
                    _ => {
                        let v = digit_val(c).ok_or_else(|| SvErr::parse(format!("bad digit in literal {digits:?}")))?;
                        if (v as u32) >= (1u32 << per) {
                            return Err(SvErr::parse(format!("digit out of range for base in {digits:?}")));
                        }
                        for i in 0..per {
                            bits.push((v >> i) & 1);
                        }
                    }
                }
            }
        }
    }
    if bits.is_empty() {
        return Err(SvErr::parse("empty literal".into()));
    }
    let w = match size {
        Some(w) => w,
        None => bits.len().max(32),
    };
    // IEEE 5.7.1: left-extend with 0, or with x/z when the leftmost digit is x/z; truncate from the left
    let top = *bits.last().unwrap();
    let fill = if top == X || top == Z { top } else { 0 };
    if bits.len() < w {
        bits.resize(w, fill);
    } else {
        bits.truncate(w);
    }
    Ok(Bv::new(bits, signed))
}

pub fn lex(src: &str) -> Result<Vec<Token>, SvErr> {
    let b = src.as_bytes();
    let n = b.len();
    let mut i = 0usize;
    let mut line = 1u32;
    let mut out: Vec<Token> = vec![];
    while i < n {
        let c = b[i];
        if c == b'\n' {
            line += 1;
            i += 1;
            continue;
        }
        if c.is_ascii_whitespace() {
            i += 1;
            continue;
        }
        if c == b'/' && i + 1 < n && b[i + 1] == b'/' {
            while i < n && b[i] != b'\n' {
                i += 1;
            }
            continue;
        }
        if c == b'/' && i + 1 < n && b[i + 1] == b'*' {
            i += 2;
            while i + 1 < n && !(b[i] == b'*' && b[i + 1] == b'/') {
                if b[i] == b'\n' {
                    line += 1;
                }
                i += 1;
            }
            i = (i + 2).min(n);
            continue;
        }
        if c == b'`' {
            return Err(SvErr::unsupported("compiler directive"));
        }
        if c == b'"' {
            let s = i + 1;
            i += 1;
            while i < n && b[i] != b'"' {
                if b[i] == b'\\' {
                    i += 1;
                }
                i += 1;
            }
            let text = src.get(s..i.min(n)).unwrap_or("").to_string();
            i = (i + 1).min(n);
            out.push(Token { tok: Tok::Str(text), line });
            continue;
        }
        if c.is_ascii_alphabetic() || c == b'_' {
            let s = i;
            while i < n && (b[i].is_ascii_alphanumeric() || b[i] == b'_' || b[i] == b'$') {
                i += 1;
            }
            out.push(Token { tok: Tok::Ident(src[s..i].to_string()), line });
            continue;
        }
        if c == b'\\' {
            // escaped identifier: up to whitespace
            let s = i + 1;
            i += 1;
            while i < n && !b[i].is_ascii_whitespace() {
                i += 1;
            }
            out.push(Token { tok: Tok::Ident(src[s..i].to_string()), line });
            continue;
        }
        if c == b'$' {
            let s = i;
            i += 1;
            while i < n && (b[i].is_ascii_alphanumeric() || b[i] == b'_' || b[i] == b'$') {
                i += 1;
            }
            out.push(Token { tok: Tok::SysIdent(src[s..i].to_string()), line });
            continue;
        }
        // numbers: [size] ' [s] base digits   |  decimal  |  '0 '1 'x 'z
        if c.is_ascii_digit() || (c == b'\'' && i + 1 < n && b[i + 1] != b'{' && b[i + 1] != b'(') {
            let s = i;
            let mut size: Option<usize> = None;
            if c.is_ascii_digit() {
                while i < n && (b[i].is_ascii_digit() || b[i] == b'_') {
                    i += 1;
                }
                if i < n && (b[i] == b'.' && i + 1 < n && b[i + 1].is_ascii_digit()) {
                    return Err(SvErr::unsupported("real literal"));
                }
                // a size may be separated from the base by whitespace (IEEE 5.7.1)
                let mut j = i;
                while j < n && (b[j] == b' ' || b[j] == b'\t') {
                    j += 1;
                }
                let is_based = j < n
                    && b[j] == b'\''
                    && j + 1 < n
                    && (matches!(b[j + 1], b's' | b'S' | b'b' | b'B' | b'o' | b'O' | b'd' | b'D' | b'h' | b'H'));
                if !is_based {
                    // plain decimal: 32-bit signed (wider if it does not fit)
                    let text: String = src[s..i].chars().filter(|c| *c != '_').collect();
                    let mut bits = decimal_bits(&text);
                    if bits.len() < 32 {
                        bits.resize(32, 0);
                    } else if !(bits.len() == 32 && bits[31] == 0) {
                        // does not fit 32-bit signed: keep one zero bit above (implementation-defined size >= 32)
                        bits.push(0);
                    }
                    out.push(Token { tok: Tok::Num(Bv::new(bits, true), false), line });
                    continue;
                }
                let text: String = src[s..i].chars().filter(|c| *c != '_').collect();
                let w: usize = text.parse().map_err(|_| SvErr::parse("bad literal size".into()))?;
                if w == 0 {
                    return Err(SvErr::parse("zero literal size".into()));
                }
                size = Some(w);
                i = j;
            }
            // now at '
            i += 1;
            if i >= n {
                return Err(SvErr::parse("dangling '".into()));
            }
            if size.is_none() && matches!(b[i], b'0' | b'1' | b'x' | b'X' | b'z' | b'Z') && !(i + 1 < n && (b[i + 1].is_ascii_alphanumeric() || b[i + 1] == b'_')) {
                let d = match b[i] {
                    b'0' => 0,
                    b'1' => 1,
                    b'x' | b'X' => X,
                    _ => Z,
                };
                i += 1;
                out.push(Token { tok: Tok::Fill(d), line });
                continue;
            }
            let mut signed = false;
            if matches!(b[i], b's' | b'S') {
                signed = true;
                i += 1;
            }
            if i >= n || !matches!(b[i], b'b' | b'B' | b'o' | b'O' | b'd' | b'D' | b'h' | b'H') {
                if size.is_none() && !signed {
                    // a lone ' (cast operator) — handled as punctuation
                    out.push(Token { tok: Tok::P("'"), line });
                    continue;
                }
                return Err(SvErr::parse("bad based literal".into()));
            }
            let base = b[i].to_ascii_lowercase();
            i += 1;
            while i < n && (b[i] == b' ' || b[i] == b'\t') {
                i += 1;
            }
            let ds = i;
            while i < n && (b[i].is_ascii_hexdigit() || matches!(b[i], b'x' | b'X' | b'z' | b'Z' | b'?' | b'_')) {
                i += 1;
            }
            let v = based_literal(size, signed, base, &src[ds..i])?;
            out.push(Token { tok: Tok::Num(v, size.is_some()), line });
            continue;
        }
        let rest = &src[i..];
        let mut matched = None;
        for p in PUNCT {
            if rest.starts_with(p) {
                matched = Some(*p);
                break;
            }
        }
        match matched {
            Some(p) => {
                i += p.len();
                out.push(Token { tok: Tok::P(p), line });
            }
            None => return Err(SvErr::parse(format!("unexpected character {:?} at line {line}", c as char))),
        }
    }
    out.push(Token { tok: Tok::Eof, line });
    Ok(out)
}
