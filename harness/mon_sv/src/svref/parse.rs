//! svref recursive-descent parser for the SystemVerilog subset the Veryl
//! emitter produces (and SvGen generates).  Anything else is `Unsupported`.

use super::SvErr;
use super::ast::*;
use super::lex::{Tok, Token, lex};
use refmodel::bv4::{BinOp, UnOp};
use std::rc::Rc;

pub struct Parser {
    toks: Vec<Token>,
    pos: usize,
}

type R<T> = Result<T, SvErr>;

const TYPE_KEYWORDS: &[&str] = &["logic", "bit", "reg", "int", "integer", "longint", "shortint", "byte", "struct", "enum", "var", "signed", "unsigned"];
const UNSUPPORTED_KEYWORDS: &[&str] = &[
    "initial", "final", "always", "always_latch", "interface", "modport", "class", "task", "program", "wire", "tri", "union", "string", "real", "shortreal", "time", "realtime",
    "casez", "casex", "while", "do", "foreach", "forever", "repeat", "wait", "fork", "assert", "assume", "cover", "property", "sequence", "covergroup", "bind", "defparam",
    "specify", "primitive", "config", "checker", "clocking", "alias", "event", "chandle", "virtual", "static", "ref", "const", "continue", "disable", "force", "release",
    "deassign", "export", "extern", "let", "nettype", "supply0", "supply1", "wand", "wor", "uwire", "tri0", "tri1", "triand", "trior", "trireg", "type",
];

pub fn parse(src: &str) -> R<SourceUnit> {
    let toks = lex(src)?;
    let mut p = Parser { toks, pos: 0 };
    p.source_unit()
}

/// Parse a single expression (used by the self-tests).
pub fn parse_expr_str(src: &str) -> R<Expr> {
    let toks = lex(src)?;
    let mut p = Parser { toks, pos: 0 };
    let e = p.expr()?;
    if !matches!(p.peek(), Tok::Eof) {
        return Err(p.err("trailing tokens after expression"));
    }
    Ok(e)
}

impl Parser {
    fn peek(&self) -> &Tok {
        &self.toks[self.pos].tok
    }
    fn peek_at(&self, k: usize) -> &Tok {
        let i = (self.pos + k).min(self.toks.len() - 1);
        &self.toks[i].tok
    }
    fn line(&self) -> u32 {
        self.toks[self.pos].line
    }
    fn next(&mut self) -> Tok {
        let t = self.toks[self.pos].tok.clone();
        if self.pos + 1 < self.toks.len() {
            self.pos += 1;
        }
        t
    }
    fn err(&self, what: &str) -> SvErr {
        SvErr::parse(format!("{what} at line {} near {:?}", self.line(), self.peek()))
    }
    fn is_p(&self, p: &str) -> bool {
        matches!(self.peek(), Tok::P(q) if *q == p)
    }
    fn is_p_at(&self, k: usize, p: &str) -> bool {
        matches!(self.peek_at(k), Tok::P(q) if *q == p)
    }
    fn eat_p(&mut self, p: &str) -> bool {
        if self.is_p(p) {
            self.next();
            true
        } else {
            false
        }
    }
    fn expect_p(&mut self, p: &str) -> R<()> {
        if self.eat_p(p) { Ok(()) } else { Err(self.err(&format!("expected {p:?}"))) }
    }
    fn is_kw(&self, k: &str) -> bool {
        matches!(self.peek(), Tok::Ident(s) if s == k)
    }
    fn is_kw_at(&self, n: usize, k: &str) -> bool {
        matches!(self.peek_at(n), Tok::Ident(s) if s == k)
    }
    fn eat_kw(&mut self, k: &str) -> bool {
        if self.is_kw(k) {
            self.next();
            true
        } else {
            false
        }
    }
    fn expect_kw(&mut self, k: &str) -> R<()> {
        if self.eat_kw(k) { Ok(()) } else { Err(self.err(&format!("expected keyword {k}"))) }
    }
    fn ident(&mut self) -> R<String> {
        match self.peek().clone() {
            Tok::Ident(s) => {
                if UNSUPPORTED_KEYWORDS.contains(&s.as_str()) {
                    return Err(SvErr::unsupported(&format!("keyword {s}")));
                }
                self.next();
                Ok(s)
            }
            _ => Err(self.err("expected identifier")),
        }
    }
    fn check_unsupported_kw(&self) -> R<()> {
        if let Tok::Ident(s) = self.peek()
            && UNSUPPORTED_KEYWORDS.contains(&s.as_str())
        {
            return Err(SvErr::unsupported(&format!("keyword {s}")));
        }
        Ok(())
    }

    // ------------------------------------------------------------------ top level

    fn source_unit(&mut self) -> R<SourceUnit> {
        let mut items = vec![];
        loop {
            match self.peek().clone() {
                Tok::Eof => break,
                Tok::Ident(k) if k == "module" => items.push(Item::Module(Rc::new(self.module()?))),
                Tok::Ident(k) if k == "package" => items.push(Item::Package(Rc::new(self.package()?))),
                Tok::Ident(k) if k == "interface" => return Err(SvErr::unsupported("interface declaration")),
                Tok::P("(") if self.is_p_at(1, "*") => self.skip_attribute()?,
                _ => {
                    self.check_unsupported_kw()?;
                    return Err(self.err("expected module or package"));
                }
            }
        }
        Ok(SourceUnit { items })
    }

    fn skip_attribute(&mut self) -> R<()> {
        // (* … *)
        self.expect_p("(")?;
        self.expect_p("*")?;
        loop {
            if matches!(self.peek(), Tok::Eof) {
                return Err(self.err("unterminated attribute"));
            }
            if self.is_p("*") && self.is_p_at(1, ")") {
                self.next();
                self.next();
                return Ok(());
            }
            self.next();
        }
    }

    fn package(&mut self) -> R<Package> {
        self.expect_kw("package")?;
        let name = self.ident()?;
        self.expect_p(";")?;
        let mut items = vec![];
        while !self.is_kw("endpackage") {
            if matches!(self.peek(), Tok::Eof) {
                return Err(self.err("unterminated package"));
            }
            self.module_item(&mut items)?;
        }
        self.next();
        self.opt_end_label()?;
        Ok(Package { name, items })
    }

    fn opt_end_label(&mut self) -> R<()> {
        if self.eat_p(":") {
            self.ident()?;
        }
        Ok(())
    }

    fn module(&mut self) -> R<Module> {
        self.expect_kw("module")?;
        let _ = self.eat_kw("automatic");
        let name = self.ident()?;
        let mut params = vec![];
        let mut ports = vec![];
        while self.is_kw("import") {
            return Err(SvErr::unsupported("import in module header"));
        }
        if self.eat_p("#") {
            self.expect_p("(")?;
            let mut local = false;
            while !self.is_p(")") {
                if self.eat_kw("parameter") {
                    local = false;
                } else if self.eat_kw("localparam") {
                    local = true;
                }
                let mut p = self.param_assignment()?;
                p.local = local;
                params.push(p);
                if !self.eat_p(",") {
                    break;
                }
            }
            self.expect_p(")")?;
        }
        if self.eat_p("(") {
            let mut last: Option<(Dir, DataType)> = None;
            while !self.is_p(")") {
                if self.is_p("(") && self.is_p_at(1, "*") {
                    self.skip_attribute()?;
                }
                let dir = if self.eat_kw("input") {
                    Some(Dir::Input)
                } else if self.eat_kw("output") {
                    Some(Dir::Output)
                } else if self.eat_kw("inout") {
                    Some(Dir::Inout)
                } else {
                    None
                };
                let (dir, ty) = match dir {
                    Some(d) => {
                        let ty = self.data_type_for_decl()?;
                        (d, ty)
                    }
                    None => {
                        // `input logic a, b` continuation, or interface port
                        if let (Tok::Ident(_), Some(l)) = (self.peek().clone(), last.clone())
                            && (self.is_p_at(1, ",") || self.is_p_at(1, ")") || self.is_p_at(1, "["))
                        {
                            l
                        } else {
                            return Err(SvErr::unsupported("non-ANSI or interface port"));
                        }
                    }
                };
                let name = self.ident()?;
                let unpacked = self.unpacked_dims()?;
                if self.is_p("=") {
                    return Err(SvErr::unsupported("port default value"));
                }
                last = Some((dir, ty.clone()));
                ports.push(PortDecl { dir, ty, name, unpacked });
                if !self.eat_p(",") {
                    break;
                }
            }
            self.expect_p(")")?;
        }
        self.expect_p(";")?;
        let mut items = vec![];
        while !self.is_kw("endmodule") {
            if matches!(self.peek(), Tok::Eof) {
                return Err(self.err("unterminated module"));
            }
            self.module_item(&mut items)?;
        }
        self.next();
        self.opt_end_label()?;
        Ok(Module { name, params, ports, items })
    }

    /// `[type] name = value` of a parameter / localparam (one assignment)
    fn param_assignment(&mut self) -> R<ParamDecl> {
        if self.is_kw("type") {
            self.next();
            let name = self.ident()?;
            let tv = if self.eat_p("=") { Some(self.data_type()?) } else { None };
            return Ok(ParamDecl { local: false, ty: DataType::Implicit { signed: false, dims: vec![] }, name, value: None, type_value: tv, is_type: true });
        }
        let ty = self.data_type_for_decl()?;
        let name = self.ident()?;
        let unp = self.unpacked_dims()?;
        if !unp.is_empty() {
            return Err(SvErr::unsupported("unpacked parameter"));
        }
        let value = if self.eat_p("=") { Some(self.expr()?) } else { None };
        Ok(ParamDecl { local: false, ty, name, value, type_value: None, is_type: false })
    }

    // ------------------------------------------------------------------ types

    fn starts_type_keyword(&self) -> bool {
        matches!(self.peek(), Tok::Ident(s) if TYPE_KEYWORDS.contains(&s.as_str()))
    }

    fn packed_dims(&mut self) -> R<Vec<(Expr, Expr)>> {
        let mut dims = vec![];
        while self.is_p("[") {
            self.next();
            let a = self.expr()?;
            self.expect_p(":")?;
            let b = self.expr()?;
            self.expect_p("]")?;
            dims.push((a, b));
        }
        Ok(dims)
    }

    fn unpacked_dims(&mut self) -> R<Vec<UnpackedDim>> {
        let mut dims = vec![];
        while self.is_p("[") {
            self.next();
            let a = self.expr()?;
            if self.eat_p(":") {
                let b = self.expr()?;
                dims.push(UnpackedDim::Range(a, b));
            } else {
                dims.push(UnpackedDim::Size(a));
            }
            self.expect_p("]")?;
        }
        Ok(dims)
    }

    fn signing(&mut self) -> Option<bool> {
        if self.eat_kw("signed") {
            Some(true)
        } else if self.eat_kw("unsigned") {
            Some(false)
        } else {
            None
        }
    }

    /// A data type in a declaration position where the declared name follows:
    /// the type may be implicit (`parameter X = 1`, `input [3:0] a`).
    fn data_type_for_decl(&mut self) -> R<DataType> {
        let _ = self.eat_kw("var");
        if self.starts_type_keyword() {
            return self.data_type();
        }
        if self.is_p("[") {
            let dims = self.packed_dims()?;
            return Ok(DataType::Implicit { signed: false, dims });
        }
        // `Name x` / `pkg::Name x` / `Name [3:0] x` are named types; a lone `x` is implicit
        if let Tok::Ident(_) = self.peek() {
            self.check_unsupported_kw()?;
            if self.is_p_at(1, "::") || matches!(self.peek_at(1), Tok::Ident(_)) || self.is_p_at(1, "[") && self.named_type_with_dims_follows() {
                return self.data_type();
            }
            if self.is_p_at(1, ".") {
                return Err(SvErr::unsupported("interface port"));
            }
        }
        Ok(DataType::Implicit { signed: false, dims: vec![] })
    }

    /// at `Name [ … ] … ident` → true when after the bracket groups an identifier follows
    fn named_type_with_dims_follows(&self) -> bool {
        let mut k = 1;
        loop {
            if !self.is_p_at(k, "[") {
                return matches!(self.peek_at(k), Tok::Ident(_));
            }
            let mut depth = 0;
            loop {
                match self.peek_at(k) {
                    Tok::P("[") => depth += 1,
                    Tok::P("]") => {
                        depth -= 1;
                        if depth == 0 {
                            k += 1;
                            break;
                        }
                    }
                    Tok::Eof => return false,
                    _ => {}
                }
                k += 1;
            }
        }
    }

    pub fn data_type(&mut self) -> R<DataType> {
        let _ = self.eat_kw("var");
        match self.peek().clone() {
            Tok::Ident(k) if k == "logic" || k == "bit" || k == "reg" => {
                self.next();
                let signed = self.signing().unwrap_or(false);
                let dims = self.packed_dims()?;
                Ok(DataType::Vector { two_state: k == "bit", signed, dims })
            }
            Tok::Ident(k) if ["int", "integer", "longint", "shortint", "byte"].contains(&k.as_str()) => {
                self.next();
                let width = match k.as_str() {
                    "int" | "integer" => 32,
                    "longint" => 64,
                    "shortint" => 16,
                    _ => 8,
                };
                let signed = self.signing().unwrap_or(true);
                if self.is_p("[") && false {
                    return Err(SvErr::unsupported("packed dims on integer atom type"));
                }
                Ok(DataType::Int { width, two_state: k != "integer", signed })
            }
            Tok::Ident(k) if k == "signed" || k == "unsigned" => {
                let signed = self.signing().unwrap_or(false);
                let dims = self.packed_dims()?;
                Ok(DataType::Implicit { signed, dims })
            }
            Tok::Ident(k) if k == "struct" => {
                self.next();
                if !self.eat_kw("packed") {
                    return Err(SvErr::unsupported("unpacked struct"));
                }
                let signed = self.signing().unwrap_or(false);
                self.expect_p("{")?;
                let mut members = vec![];
                while !self.is_p("}") {
                    let ty = self.data_type()?;
                    loop {
                        let name = self.ident()?;
                        if self.is_p("[") {
                            return Err(SvErr::unsupported("unpacked dims on struct member"));
                        }
                        if self.is_p("=") {
                            return Err(SvErr::unsupported("struct member default"));
                        }
                        members.push((ty.clone(), name));
                        if !self.eat_p(",") {
                            break;
                        }
                    }
                    self.expect_p(";")?;
                }
                self.expect_p("}")?;
                let dims = self.packed_dims()?;
                Ok(DataType::Struct { signed, members, dims })
            }
            Tok::Ident(k) if k == "enum" => {
                self.next();
                let base = if self.is_p("{") { None } else { Some(Box::new(self.data_type()?)) };
                self.expect_p("{")?;
                let mut members = vec![];
                while !self.is_p("}") {
                    let name = self.ident()?;
                    if self.is_p("[") {
                        return Err(SvErr::unsupported("enum member range"));
                    }
                    let v = if self.eat_p("=") { Some(self.expr()?) } else { None };
                    members.push((name, v));
                    if !self.eat_p(",") {
                        break;
                    }
                }
                self.expect_p("}")?;
                let dims = self.packed_dims()?;
                Ok(DataType::Enum { base, members, dims })
            }
            Tok::Ident(_) => {
                let mut path = vec![self.ident()?];
                while self.eat_p("::") {
                    path.push(self.ident()?);
                }
                if self.is_p("#") {
                    return Err(SvErr::unsupported("parameterised class/type"));
                }
                let dims = self.packed_dims()?;
                Ok(DataType::Named { path, dims })
            }
            _ => Err(self.err("expected data type")),
        }
    }

    // ------------------------------------------------------------------ module items

    fn module_item(&mut self, out: &mut Vec<ModItem>) -> R<()> {
        if self.is_p("(") && self.is_p_at(1, "*") {
            return self.skip_attribute();
        }
        if self.eat_p(";") {
            return Ok(());
        }
        let Tok::Ident(k) = self.peek().clone() else {
            return Err(self.err("expected module item"));
        };
        match k.as_str() {
            "generate" | "endgenerate" => {
                self.next();
                Ok(())
            }
            "localparam" | "parameter" => {
                self.next();
                loop {
                    let mut p = self.param_assignment()?;
                    p.local = k == "localparam";
                    out.push(ModItem::Param(p));
                    if !self.eat_p(",") {
                        break;
                    }
                }
                self.expect_p(";")
            }
            "typedef" => {
                self.next();
                let ty = self.data_type()?;
                let name = self.ident()?;
                if self.is_p("[") {
                    return Err(SvErr::unsupported("typedef with unpacked dims"));
                }
                self.expect_p(";")?;
                out.push(ModItem::Typedef(name, ty));
                Ok(())
            }
            "import" => {
                self.next();
                loop {
                    let pkg = self.ident()?;
                    self.expect_p("::")?;
                    if self.eat_p("*") {
                        out.push(ModItem::Import(pkg, None));
                    } else {
                        let n = self.ident()?;
                        out.push(ModItem::Import(pkg, Some(n)));
                    }
                    if !self.eat_p(",") {
                        break;
                    }
                }
                self.expect_p(";")
            }
            "genvar" => {
                self.next();
                loop {
                    let n = self.ident()?;
                    out.push(ModItem::Genvar(n));
                    if !self.eat_p(",") {
                        break;
                    }
                }
                self.expect_p(";")
            }
            "assign" => {
                self.next();
                loop {
                    let lhs = self.lvalue()?;
                    self.expect_p("=")?;
                    let rhs = self.expr()?;
                    out.push(ModItem::Assign(lhs, rhs));
                    if !self.eat_p(",") {
                        break;
                    }
                }
                self.expect_p(";")
            }
            "always_comb" => {
                self.next();
                let s = self.stmt()?;
                out.push(ModItem::AlwaysComb(s));
                Ok(())
            }
            "always_ff" => {
                self.next();
                self.expect_p("@")?;
                self.expect_p("(")?;
                let mut evs = vec![];
                loop {
                    let edge = if self.eat_kw("posedge") {
                        Edge::Pos
                    } else if self.eat_kw("negedge") {
                        Edge::Neg
                    } else {
                        return Err(SvErr::unsupported("always_ff event without edge"));
                    };
                    let e = self.lvalue()?;
                    evs.push((edge, e));
                    if self.eat_p(",") || self.eat_kw("or") {
                        continue;
                    }
                    break;
                }
                self.expect_p(")")?;
                let s = self.stmt()?;
                out.push(ModItem::AlwaysFf(evs, s));
                Ok(())
            }
            "function" => {
                let f = self.function()?;
                out.push(ModItem::Function(Rc::new(f)));
                Ok(())
            }
            "for" => {
                self.next();
                self.expect_p("(")?;
                let _ = self.eat_kw("genvar");
                let var = self.ident()?;
                self.expect_p("=")?;
                let init = self.expr()?;
                self.expect_p(";")?;
                let cond = self.expr()?;
                self.expect_p(";")?;
                let step = self.simple_stmt_no_semi()?;
                self.expect_p(")")?;
                let (label, items) = self.gen_block()?;
                out.push(ModItem::GenFor { var, init, cond, step, label, items });
                Ok(())
            }
            "if" => {
                self.next();
                self.expect_p("(")?;
                let cond = self.expr()?;
                self.expect_p(")")?;
                let (then_label, then_items) = self.gen_block()?;
                let (else_label, else_items) = if self.eat_kw("else") {
                    let (l, i) = self.gen_block()?;
                    (l, Some(i))
                } else {
                    (None, None)
                };
                out.push(ModItem::GenIf { cond, then_label, then_items, else_label, else_items });
                Ok(())
            }
            "begin" => {
                let (label, items) = self.gen_block()?;
                out.push(ModItem::GenBlock { label, items });
                Ok(())
            }
            "case" => Err(SvErr::unsupported("generate case")),
            _ => {
                self.check_unsupported_kw()?;
                if self.starts_type_keyword() {
                    return self.var_decl_item(out);
                }
                // named-type variable declaration or module instantiation
                // instance:  M [#(…)] name ( … ) ;
                let mut k = 1;
                while self.is_p_at(k, "::") {
                    k += 2;
                }
                if self.is_p_at(k, "#") || (matches!(self.peek_at(k), Tok::Ident(_)) && self.is_p_at(k + 1, "(")) {
                    let inst = self.instance()?;
                    out.push(ModItem::Inst(inst));
                    return Ok(());
                }
                self.var_decl_item(out)
            }
        }
    }

    fn var_decl_item(&mut self, out: &mut Vec<ModItem>) -> R<()> {
        let ty = self.data_type()?;
        loop {
            let name = self.ident()?;
            let unpacked = self.unpacked_dims()?;
            let init = if self.eat_p("=") { Some(self.expr()?) } else { None };
            out.push(ModItem::Var(VarDecl { ty: ty.clone(), name, unpacked, init }));
            if !self.eat_p(",") {
                break;
            }
        }
        self.expect_p(";")
    }

    /// a generate block: `begin [:label] items end [:label]` or a single item
    fn gen_block(&mut self) -> R<(Option<String>, Vec<ModItem>)> {
        let mut items = vec![];
        let mut label = None;
        // `label: begin` form
        if let Tok::Ident(_) = self.peek()
            && self.is_p_at(1, ":")
            && self.is_kw_at(2, "begin")
        {
            label = Some(self.ident()?);
            self.next();
        }
        if self.eat_kw("begin") {
            if self.eat_p(":") {
                label = Some(self.ident()?);
            }
            while !self.is_kw("end") {
                if matches!(self.peek(), Tok::Eof) {
                    return Err(self.err("unterminated generate block"));
                }
                self.module_item(&mut items)?;
            }
            self.next();
            self.opt_end_label()?;
        } else {
            self.module_item(&mut items)?;
        }
        Ok((label, items))
    }

    fn instance(&mut self) -> R<Inst> {
        let mut module = self.ident()?;
        while self.eat_p("::") {
            module = self.ident()?;
        }
        let mut params = vec![];
        if self.eat_p("#") {
            self.expect_p("(")?;
            while !self.is_p(")") {
                if !self.eat_p(".") {
                    return Err(SvErr::unsupported("positional parameter override"));
                }
                let n = self.ident()?;
                self.expect_p("(")?;
                let v = if self.is_p(")") { None } else { Some(self.expr_or_type()?) };
                self.expect_p(")")?;
                params.push((n, v));
                if !self.eat_p(",") {
                    break;
                }
            }
            self.expect_p(")")?;
        }
        let name = self.ident()?;
        if self.is_p("[") {
            return Err(SvErr::unsupported("instance array"));
        }
        self.expect_p("(")?;
        let mut ports = vec![];
        let mut positional = false;
        while !self.is_p(")") {
            if self.eat_p(".") {
                if self.eat_p("*") {
                    return Err(SvErr::unsupported(".* port connection"));
                }
                let n = self.ident()?;
                if self.eat_p("(") {
                    let v = if self.is_p(")") { None } else { Some(self.expr()?) };
                    self.expect_p(")")?;
                    ports.push((n, v));
                } else {
                    // .name implicit connection
                    ports.push((n.clone(), Some(Expr::Ident(vec![n]))));
                }
            } else {
                positional = true;
                let v = self.expr()?;
                ports.push((String::new(), Some(v)));
            }
            if !self.eat_p(",") {
                break;
            }
        }
        self.expect_p(")")?;
        if self.is_p(",") {
            return Err(SvErr::unsupported("multiple instances in one statement"));
        }
        self.expect_p(";")?;
        Ok(Inst { module, params, name, ports, positional })
    }

    fn expr_or_type(&mut self) -> R<Expr> {
        if self.starts_type_keyword() {
            return Err(SvErr::unsupported("type parameter override"));
        }
        self.expr()
    }

    fn function(&mut self) -> R<Function> {
        self.expect_kw("function")?;
        let _ = self.eat_kw("automatic");
        let ret = if self.eat_kw("void") {
            None
        } else {
            // implicit return type: `function f(...)` → 1-bit logic
            if matches!(self.peek(), Tok::Ident(_)) && (self.is_p_at(1, "(") || self.is_p_at(1, ";")) && !self.starts_type_keyword() {
                Some(DataType::Vector { two_state: false, signed: false, dims: vec![] })
            } else {
                Some(self.data_type_for_decl()?)
            }
        };
        let name = self.ident()?;
        let mut args = vec![];
        if self.eat_p("(") {
            let mut last_dir = Dir::Input;
            let mut last_ty: Option<DataType> = None;
            while !self.is_p(")") {
                let dir = if self.eat_kw("input") {
                    Some(Dir::Input)
                } else if self.eat_kw("output") {
                    Some(Dir::Output)
                } else if self.eat_kw("inout") {
                    Some(Dir::Inout)
                } else {
                    None
                };
                if let Some(d) = dir {
                    last_dir = d;
                }
                let only_name = matches!(self.peek(), Tok::Ident(_)) && !self.starts_type_keyword() && (self.is_p_at(1, ",") || self.is_p_at(1, ")"));
                let ty = if only_name && dir.is_none() && last_ty.is_some() {
                    last_ty.clone().unwrap()
                } else {
                    let t = self.data_type_for_decl()?;
                    match t {
                        DataType::Implicit { signed: false, ref dims } if dims.is_empty() => DataType::Vector { two_state: false, signed: false, dims: vec![] },
                        t => t,
                    }
                };
                last_ty = Some(ty.clone());
                let name = self.ident()?;
                if self.is_p("[") {
                    return Err(SvErr::unsupported("unpacked function argument"));
                }
                if self.is_p("=") {
                    return Err(SvErr::unsupported("function argument default"));
                }
                args.push(FuncArg { dir: last_dir, ty, name });
                if !self.eat_p(",") {
                    break;
                }
            }
            self.expect_p(")")?;
        }
        self.expect_p(";")?;
        let mut body = vec![];
        while !self.is_kw("endfunction") {
            if matches!(self.peek(), Tok::Eof) {
                return Err(self.err("unterminated function"));
            }
            if self.is_kw("input") || self.is_kw("output") {
                return Err(SvErr::unsupported("non-ANSI function ports"));
            }
            body.push(self.stmt()?);
        }
        self.next();
        self.opt_end_label()?;
        Ok(Function { name, ret, args, body })
    }

    // ------------------------------------------------------------------ statements

    fn stmt_is_decl(&self) -> bool {
        if self.starts_type_keyword() || self.is_kw("automatic") {
            return true;
        }
        // `T x;` / `pkg::T x;` / `T [..] x`
        if let Tok::Ident(_) = self.peek() {
            let mut k = 1;
            while self.is_p_at(k, "::") {
                k += 2;
            }
            if matches!(self.peek_at(k), Tok::Ident(_)) {
                return true;
            }
        }
        false
    }

    pub fn stmt(&mut self) -> R<Stmt> {
        if self.is_p("(") && self.is_p_at(1, "*") {
            self.skip_attribute()?;
        }
        if self.eat_p(";") {
            return Ok(Stmt::Null);
        }
        // statement label `name: begin`
        if let Tok::Ident(_) = self.peek()
            && self.is_p_at(1, ":")
            && self.is_kw_at(2, "begin")
        {
            self.next();
            self.next();
        }
        if self.is_kw("unique") || self.is_kw("unique0") || self.is_kw("priority") {
            // violation checks only; evaluation order semantics are unchanged
            self.next();
        }
        let Tok::Ident(k) = self.peek().clone() else {
            // `{a, b} = …`
            if self.is_p("{") {
                let s = self.simple_stmt_no_semi()?;
                self.expect_p(";")?;
                return Ok(s);
            }
            return Err(self.err("expected statement"));
        };
        match k.as_str() {
            "begin" => {
                self.next();
                if self.eat_p(":") {
                    self.ident()?;
                }
                let mut v = vec![];
                while !self.is_kw("end") {
                    if matches!(self.peek(), Tok::Eof) {
                        return Err(self.err("unterminated begin"));
                    }
                    v.push(self.stmt()?);
                }
                self.next();
                self.opt_end_label()?;
                Ok(Stmt::Block(v))
            }
            "if" => {
                self.next();
                self.expect_p("(")?;
                let c = self.expr()?;
                self.expect_p(")")?;
                let t = self.stmt()?;
                let e = if self.eat_kw("else") { Some(Box::new(self.stmt()?)) } else { None };
                Ok(Stmt::If(c, Box::new(t), e))
            }
            "case" => {
                self.next();
                self.expect_p("(")?;
                let subject = self.expr()?;
                self.expect_p(")")?;
                let kind = if self.eat_kw("inside") { CaseKind::Inside } else { CaseKind::Plain };
                let mut arms = vec![];
                let mut default = None;
                while !self.is_kw("endcase") {
                    if matches!(self.peek(), Tok::Eof) {
                        return Err(self.err("unterminated case"));
                    }
                    if self.eat_kw("default") {
                        let _ = self.eat_p(":");
                        let s = self.stmt()?;
                        if default.is_some() {
                            return Err(self.err("two default items"));
                        }
                        default = Some(Box::new(s));
                        continue;
                    }
                    let mut items = vec![];
                    loop {
                        if kind == CaseKind::Inside && self.is_p("[") {
                            self.next();
                            let a = self.expr()?;
                            self.expect_p(":")?;
                            let b = self.expr()?;
                            self.expect_p("]")?;
                            items.push(InsideItem::Range(a, b));
                        } else {
                            items.push(InsideItem::Value(self.expr()?));
                        }
                        if !self.eat_p(",") {
                            break;
                        }
                    }
                    self.expect_p(":")?;
                    let s = self.stmt()?;
                    arms.push((items, s));
                }
                self.next();
                Ok(Stmt::Case { kind, subject, arms, default })
            }
            "for" => {
                self.next();
                self.expect_p("(")?;
                let init = if self.stmt_is_decl() {
                    let ty = self.data_type()?;
                    let name = self.ident()?;
                    self.expect_p("=")?;
                    let e = self.expr()?;
                    Stmt::Decl(VarDecl { ty, name, unpacked: vec![], init: Some(e) })
                } else {
                    self.simple_stmt_no_semi()?
                };
                if self.is_p(",") {
                    return Err(SvErr::unsupported("multiple for-init"));
                }
                self.expect_p(";")?;
                let cond = self.expr()?;
                self.expect_p(";")?;
                let step = self.simple_stmt_no_semi()?;
                if self.is_p(",") {
                    return Err(SvErr::unsupported("multiple for-step"));
                }
                self.expect_p(")")?;
                let body = self.stmt()?;
                Ok(Stmt::For { init: Box::new(init), cond, step: Box::new(step), body: Box::new(body) })
            }
            "break" => {
                self.next();
                self.expect_p(";")?;
                Ok(Stmt::Break)
            }
            "return" => {
                self.next();
                let e = if self.is_p(";") { None } else { Some(self.expr()?) };
                self.expect_p(";")?;
                Ok(Stmt::Return(e))
            }
            "void" => {
                self.next();
                self.expect_p("'")?;
                self.expect_p("(")?;
                let e = self.expr()?;
                self.expect_p(")")?;
                self.expect_p(";")?;
                Ok(Stmt::Expr(e))
            }
            _ => {
                self.check_unsupported_kw()?;
                if self.stmt_is_decl() {
                    let _ = self.eat_kw("automatic");
                    let ty = self.data_type()?;
                    let mut v = vec![];
                    loop {
                        let name = self.ident()?;
                        let unpacked = self.unpacked_dims()?;
                        let init = if self.eat_p("=") { Some(self.expr()?) } else { None };
                        v.push(Stmt::Decl(VarDecl { ty: ty.clone(), name, unpacked, init }));
                        if !self.eat_p(",") {
                            break;
                        }
                    }
                    self.expect_p(";")?;
                    return Ok(if v.len() == 1 { v.pop().unwrap() } else { Stmt::Block(v) });
                }
                let s = self.simple_stmt_no_semi()?;
                self.expect_p(";")?;
                Ok(s)
            }
        }
    }

    /// assignment / inc-dec / call, without the trailing `;`
    fn simple_stmt_no_semi(&mut self) -> R<Stmt> {
        if self.is_p("++") || self.is_p("--") {
            let inc = self.is_p("++");
            self.next();
            let lhs = self.lvalue()?;
            return Ok(Stmt::IncDec { lhs, inc });
        }
        // function call statement?
        if let Tok::Ident(_) = self.peek() {
            let mut k = 1;
            while self.is_p_at(k, "::") {
                k += 2;
            }
            if self.is_p_at(k, "(") {
                let e = self.primary()?;
                return Ok(Stmt::Expr(e));
            }
        }
        if let Tok::SysIdent(_) = self.peek() {
            return Err(SvErr::unsupported("system task call"));
        }
        let lhs = self.lvalue()?;
        if self.eat_p("++") {
            return Ok(Stmt::IncDec { lhs, inc: true });
        }
        if self.eat_p("--") {
            return Ok(Stmt::IncDec { lhs, inc: false });
        }
        let t = self.next();
        let (op, nb) = match t {
            Tok::P("=") => (None, false),
            Tok::P("<=") => (None, true),
            Tok::P("+=") => (Some(BinOp::Add), false),
            Tok::P("-=") => (Some(BinOp::Sub), false),
            Tok::P("*=") => (Some(BinOp::Mul), false),
            Tok::P("/=") => (Some(BinOp::Div), false),
            Tok::P("%=") => (Some(BinOp::Rem), false),
            Tok::P("&=") => (Some(BinOp::And), false),
            Tok::P("|=") => (Some(BinOp::Or), false),
            Tok::P("^=") => (Some(BinOp::Xor), false),
            Tok::P("<<=") => (Some(BinOp::Shl), false),
            Tok::P(">>=") => (Some(BinOp::Shr), false),
            Tok::P("<<<=") => (Some(BinOp::Ashl), false),
            Tok::P(">>>=") => (Some(BinOp::Ashr), false),
            _ => {
                self.pos -= 1;
                return Err(self.err("expected assignment operator"));
            }
        };
        if self.is_p("#") || self.is_p("@") {
            return Err(SvErr::unsupported("intra-assignment timing control"));
        }
        let rhs = self.expr()?;
        Ok(Stmt::Assign { lhs, op, rhs, nonblocking: nb })
    }

    /// lvalue: identifier path with selects / members, or a concatenation of lvalues
    fn lvalue(&mut self) -> R<Expr> {
        if self.is_p("{") {
            self.next();
            let mut v = vec![];
            loop {
                v.push(self.lvalue()?);
                if !self.eat_p(",") {
                    break;
                }
            }
            self.expect_p("}")?;
            return Ok(Expr::Concat(v));
        }
        let mut path = vec![self.ident()?];
        while self.eat_p("::") {
            path.push(self.ident()?);
        }
        let e = Expr::Ident(path);
        self.postfix(e)
    }

    fn postfix(&mut self, mut e: Expr) -> R<Expr> {
        loop {
            if self.eat_p(".") {
                let m = self.ident()?;
                e = Expr::Member(Box::new(e), m);
            } else if self.is_p("[") {
                self.next();
                let a = self.expr()?;
                if self.eat_p(":") {
                    let b = self.expr()?;
                    e = Expr::Range(Box::new(e), Box::new(a), Box::new(b));
                } else if self.eat_p("+:") {
                    let b = self.expr()?;
                    e = Expr::Indexed(Box::new(e), Box::new(a), Box::new(b), true);
                } else if self.eat_p("-:") {
                    let b = self.expr()?;
                    e = Expr::Indexed(Box::new(e), Box::new(a), Box::new(b), false);
                } else {
                    e = Expr::Index(Box::new(e), Box::new(a));
                }
                self.expect_p("]")?;
            } else {
                return Ok(e);
            }
        }
    }

    // ------------------------------------------------------------------ expressions

    pub fn expr(&mut self) -> R<Expr> {
        self.cond_expr()
    }

    fn cond_expr(&mut self) -> R<Expr> {
        let c = self.binary(0)?;
        if self.eat_p("?") {
            let a = self.cond_expr()?;
            self.expect_p(":")?;
            let b = self.cond_expr()?;
            return Ok(Expr::Cond(Box::new(c), Box::new(a), Box::new(b)));
        }
        Ok(c)
    }

    /// binary operator at the current token: (precedence, op); higher binds tighter
    fn binop(&self) -> Option<(u8, BinOp)> {
        let Tok::P(p) = self.peek() else { return None };
        Some(match *p {
            "||" => (1, BinOp::LogicOr),
            "&&" => (2, BinOp::LogicAnd),
            "|" => (3, BinOp::Or),
            "^" => (4, BinOp::Xor),
            "~^" | "^~" => (4, BinOp::Xnor),
            "&" => (5, BinOp::And),
            "==" => (6, BinOp::Eq),
            "!=" => (6, BinOp::Ne),
            "===" => (6, BinOp::CaseEq),
            "!==" => (6, BinOp::CaseNe),
            "==?" => (6, BinOp::WildEq),
            "!=?" => (6, BinOp::WildNe),
            "<" => (7, BinOp::Lt),
            "<=" => (7, BinOp::Le),
            ">" => (7, BinOp::Gt),
            ">=" => (7, BinOp::Ge),
            "<<" => (8, BinOp::Shl),
            ">>" => (8, BinOp::Shr),
            "<<<" => (8, BinOp::Ashl),
            ">>>" => (8, BinOp::Ashr),
            "+" => (9, BinOp::Add),
            "-" => (9, BinOp::Sub),
            "*" => (10, BinOp::Mul),
            "/" => (10, BinOp::Div),
            "%" => (10, BinOp::Rem),
            "**" => (11, BinOp::Pow),
            _ => return None,
        })
    }

    fn binary(&mut self, min_prec: u8) -> R<Expr> {
        let mut lhs = self.unary()?;
        loop {
            // `inside` has relational precedence
            if self.is_kw("inside") && 7 >= min_prec {
                self.next();
                self.expect_p("{")?;
                let mut items = vec![];
                loop {
                    if self.is_p("[") {
                        self.next();
                        let a = self.expr()?;
                        self.expect_p(":")?;
                        let b = self.expr()?;
                        self.expect_p("]")?;
                        items.push(InsideItem::Range(a, b));
                    } else {
                        items.push(InsideItem::Value(self.expr()?));
                    }
                    if !self.eat_p(",") {
                        break;
                    }
                }
                self.expect_p("}")?;
                lhs = Expr::Inside(Box::new(lhs), items);
                continue;
            }
            let Some((prec, op)) = self.binop() else { break };
            if prec < min_prec {
                break;
            }
            self.next();
            // all binary operators are left-associative (IEEE Table 11-2)
            let rhs = self.binary(prec + 1)?;
            lhs = Expr::Binary(op, Box::new(lhs), Box::new(rhs));
        }
        Ok(lhs)
    }

    fn unary(&mut self) -> R<Expr> {
        let op = match self.peek() {
            Tok::P("+") => Some(UnOp::Plus),
            Tok::P("-") => Some(UnOp::Neg),
            Tok::P("~") => Some(UnOp::Not),
            Tok::P("!") => Some(UnOp::LogicNot),
            Tok::P("&") => Some(UnOp::RedAnd),
            Tok::P("~&") => Some(UnOp::RedNand),
            Tok::P("|") => Some(UnOp::RedOr),
            Tok::P("~|") => Some(UnOp::RedNor),
            Tok::P("^") => Some(UnOp::RedXor),
            Tok::P("~^") | Tok::P("^~") => Some(UnOp::RedXnor),
            Tok::P("++") | Tok::P("--") => return Err(SvErr::unsupported("increment in expression")),
            _ => None,
        };
        if let Some(op) = op {
            self.next();
            let e = self.unary()?;
            return Ok(Expr::Unary(op, Box::new(e)));
        }
        let p = self.primary()?;
        // `**` binds tighter than unary on its left operand only through `binary`
        Ok(p)
    }

    fn primary(&mut self) -> R<Expr> {
        let t = self.peek().clone();
        let e = match t {
            Tok::Num(v, _) => {
                self.next();
                Expr::Num(v)
            }
            Tok::Fill(d) => {
                self.next();
                Expr::Fill(d)
            }
            Tok::Str(s) => {
                self.next();
                Expr::Str(s)
            }
            Tok::P("(") => {
                self.next();
                let e = self.expr()?;
                if self.is_p(":") {
                    return Err(SvErr::unsupported("mintypmax expression"));
                }
                self.expect_p(")")?;
                // a parenthesised expression is a primary; selects on it are not legal SV
                e
            }
            Tok::P("{") => {
                self.next();
                if self.is_p("<<") || self.is_p(">>") {
                    return Err(SvErr::unsupported("streaming concatenation"));
                }
                let first = self.expr()?;
                if self.is_p("{") {
                    // replication {n{a, b}}
                    self.next();
                    let mut v = vec![];
                    loop {
                        v.push(self.expr()?);
                        if !self.eat_p(",") {
                            break;
                        }
                    }
                    self.expect_p("}")?;
                    self.expect_p("}")?;
                    Expr::Repl(Box::new(first), v)
                } else {
                    let mut v = vec![first];
                    while self.eat_p(",") {
                        v.push(self.expr()?);
                    }
                    self.expect_p("}")?;
                    Expr::Concat(v)
                }
            }
            Tok::P("'{") => {
                self.next();
                let mut v = vec![];
                loop {
                    let e = self.expr()?;
                    if self.is_p(":") {
                        return Err(SvErr::unsupported("keyed assignment pattern"));
                    }
                    if self.is_p("{") {
                        return Err(SvErr::unsupported("replicated assignment pattern"));
                    }
                    v.push(e);
                    if !self.eat_p(",") {
                        break;
                    }
                }
                self.expect_p("}")?;
                Expr::Pattern(v)
            }
            Tok::SysIdent(name) => {
                self.next();
                let mut args = vec![];
                if self.eat_p("(") {
                    while !self.is_p(")") {
                        if matches!(self.peek(), Tok::Ident(s) if ["logic", "bit", "reg", "int", "integer", "longint", "shortint", "byte", "struct", "enum"].contains(&s.as_str())) {
                            args.push(SysArg::Type(self.data_type()?));
                        } else {
                            args.push(SysArg::Expr(self.expr()?));
                        }
                        if !self.eat_p(",") {
                            break;
                        }
                    }
                    self.expect_p(")")?;
                }
                Expr::SysCall(name, args)
            }
            Tok::Ident(k) => {
                if k == "signed" || k == "unsigned" {
                    self.next();
                    self.expect_p("'")?;
                    self.expect_p("(")?;
                    let e = self.expr()?;
                    self.expect_p(")")?;
                    return Ok(Expr::Cast(if k == "signed" { CastTo::Signed } else { CastTo::Unsigned }, Box::new(e)));
                }
                if ["logic", "bit", "reg", "int", "integer", "longint", "shortint", "byte"].contains(&k.as_str()) {
                    let ty = self.data_type()?;
                    self.expect_p("'")?;
                    self.expect_p("(")?;
                    let e = self.expr()?;
                    self.expect_p(")")?;
                    return Ok(Expr::Cast(CastTo::Type(ty), Box::new(e)));
                }
                if k == "type" || k == "this" || k == "null" || k == "new" || k == "tagged" {
                    return Err(SvErr::unsupported(&format!("keyword {k} in expression")));
                }
                let mut path = vec![self.ident()?];
                while self.eat_p("::") {
                    path.push(self.ident()?);
                }
                if self.is_p("(") {
                    self.next();
                    let mut args = vec![];
                    while !self.is_p(")") {
                        if self.is_p(".") {
                            return Err(SvErr::unsupported("named function argument"));
                        }
                        args.push(self.expr()?);
                        if !self.eat_p(",") {
                            break;
                        }
                    }
                    self.expect_p(")")?;
                    let e = Expr::Call(path, args);
                    if self.is_p("[") || self.is_p(".") {
                        return Err(SvErr::unsupported("select on function call"));
                    }
                    return Ok(e);
                }
                let e = Expr::Ident(path);
                let e = self.postfix(e)?;
                e
            }
            _ => return Err(self.err("expected expression")),
        };
        // cast: primary ' ( expr )
        if self.is_p("'") && self.is_p_at(1, "(") {
            self.next();
            self.next();
            let inner = self.expr()?;
            self.expect_p(")")?;
            let c = Expr::Cast(CastTo::Expr(Box::new(e)), Box::new(inner));
            if self.is_p("'") {
                return Err(SvErr::unsupported("chained cast"));
            }
            return Ok(c);
        }
        Ok(e)
    }
}
