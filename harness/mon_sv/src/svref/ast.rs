//! svref AST.

use refmodel::bv4::{BinOp, Bv, UnOp};
use std::rc::Rc;

#[derive(Clone, Debug)]
pub enum Expr {
    Num(Bv),
    Fill(u8),
    Str(String),
    /// `a`, `pkg::a`
    Ident(Vec<String>),
    Member(Box<Expr>, String),
    Index(Box<Expr>, Box<Expr>),
    /// `[msb:lsb]`
    Range(Box<Expr>, Box<Expr>, Box<Expr>),
    /// `[base+:width]` (true) / `[base-:width]` (false)
    Indexed(Box<Expr>, Box<Expr>, Box<Expr>, bool),
    Unary(UnOp, Box<Expr>),
    Binary(BinOp, Box<Expr>, Box<Expr>),
    Cond(Box<Expr>, Box<Expr>, Box<Expr>),
    Concat(Vec<Expr>),
    Repl(Box<Expr>, Vec<Expr>),
    /// user function call (possibly `pkg::f`)
    Call(Vec<String>, Vec<Expr>),
    /// `$name(args)`; a type argument is carried in `SysArg::Type`
    SysCall(String, Vec<SysArg>),
    Cast(CastTo, Box<Expr>),
    Inside(Box<Expr>, Vec<InsideItem>),
    /// `'{a, b, …}` positional assignment pattern
    Pattern(Vec<Expr>),
}

#[derive(Clone, Debug)]
pub enum SysArg {
    Expr(Expr),
    Type(DataType),
}

#[derive(Clone, Debug)]
pub enum CastTo {
    /// `N'(e)` with a constant expression N, or `T'(e)` when the identifier names a type
    /// (decided at elaboration: an identifier path may be either)
    Expr(Box<Expr>),
    Type(DataType),
    Signed,
    Unsigned,
}

#[derive(Clone, Debug)]
pub enum InsideItem {
    Value(Expr),
    Range(Expr, Expr),
}

#[derive(Clone, Debug)]
pub enum DataType {
    /// logic / bit / reg with optional signing and packed dims
    Vector { two_state: bool, signed: bool, dims: Vec<(Expr, Expr)> },
    /// int, integer, longint, shortint, byte (+ optional signing)
    Int { width: usize, two_state: bool, signed: bool },
    /// named type (typedef / enum / struct / type parameter), optional packed dims
    Named { path: Vec<String>, dims: Vec<(Expr, Expr)> },
    Struct { signed: bool, members: Vec<(DataType, String)>, dims: Vec<(Expr, Expr)> },
    Enum { base: Option<Box<DataType>>, members: Vec<(String, Option<Expr>)>, dims: Vec<(Expr, Expr)> },
    /// implicit type: `parameter X = 1`, `[7:0] x`
    Implicit { signed: bool, dims: Vec<(Expr, Expr)> },
}

#[derive(Clone, Debug)]
pub struct VarDecl {
    pub ty: DataType,
    pub name: String,
    pub unpacked: Vec<UnpackedDim>,
    pub init: Option<Expr>,
}

#[derive(Clone, Debug)]
pub enum UnpackedDim {
    /// `[N]`
    Size(Expr),
    /// `[a:b]`
    Range(Expr, Expr),
}

#[derive(Clone, Debug)]
pub enum Stmt {
    Block(Vec<Stmt>),
    Decl(VarDecl),
    Assign { lhs: Expr, op: Option<BinOp>, rhs: Expr, nonblocking: bool },
    /// `x++` / `x--` as a statement or for-step
    IncDec { lhs: Expr, inc: bool },
    If(Expr, Box<Stmt>, Option<Box<Stmt>>),
    Case { kind: CaseKind, subject: Expr, arms: Vec<(Vec<InsideItem>, Stmt)>, default: Option<Box<Stmt>> },
    For { init: Box<Stmt>, cond: Expr, step: Box<Stmt>, body: Box<Stmt> },
    Break,
    Return(Option<Expr>),
    /// expression statement (function call, possibly under `void'( )`)
    Expr(Expr),
    Null,
}

#[derive(Clone, Copy, Debug, PartialEq, Eq)]
pub enum CaseKind {
    Plain,
    Inside,
    /// casez / casex are not supported
    Wild,
}

#[derive(Clone, Copy, Debug, PartialEq, Eq)]
pub enum Dir {
    Input,
    Output,
    Inout,
}

#[derive(Clone, Debug)]
pub struct FuncArg {
    pub dir: Dir,
    pub ty: DataType,
    pub name: String,
}

#[derive(Clone, Debug)]
pub struct Function {
    pub name: String,
    /// None = void
    pub ret: Option<DataType>,
    pub args: Vec<FuncArg>,
    pub body: Vec<Stmt>,
}

#[derive(Clone, Debug)]
pub struct ParamDecl {
    pub local: bool,
    pub ty: DataType,
    pub name: String,
    pub value: Option<Expr>,
    /// `parameter type T = …`
    pub type_value: Option<DataType>,
    pub is_type: bool,
}

#[derive(Clone, Copy, Debug, PartialEq, Eq)]
pub enum Edge {
    Pos,
    Neg,
}

#[derive(Clone, Debug)]
pub struct PortDecl {
    pub dir: Dir,
    pub ty: DataType,
    pub name: String,
    pub unpacked: Vec<UnpackedDim>,
}

#[derive(Clone, Debug)]
pub struct Inst {
    pub module: String,
    pub params: Vec<(String, Option<Expr>)>,
    pub name: String,
    pub ports: Vec<(String, Option<Expr>)>,
    pub positional: bool,
}

#[derive(Clone, Debug)]
pub enum ModItem {
    Param(ParamDecl),
    Var(VarDecl),
    Typedef(String, DataType),
    Assign(Expr, Expr),
    AlwaysComb(Stmt),
    AlwaysFf(Vec<(Edge, Expr)>, Stmt),
    Function(Rc<Function>),
    Inst(Inst),
    GenFor { var: String, init: Expr, cond: Expr, step: Stmt, label: Option<String>, items: Vec<ModItem> },
    GenIf { cond: Expr, then_label: Option<String>, then_items: Vec<ModItem>, else_label: Option<String>, else_items: Option<Vec<ModItem>> },
    GenBlock { label: Option<String>, items: Vec<ModItem> },
    Import(String, Option<String>),
    Genvar(String),
}

#[derive(Clone, Debug)]
pub struct Module {
    pub name: String,
    pub params: Vec<ParamDecl>,
    pub ports: Vec<PortDecl>,
    pub items: Vec<ModItem>,
}

#[derive(Clone, Debug)]
pub struct Package {
    pub name: String,
    pub items: Vec<ModItem>,
}

#[derive(Clone, Debug)]
pub enum Item {
    Module(Rc<Module>),
    Package(Rc<Package>),
}

#[derive(Clone, Debug, Default)]
pub struct SourceUnit {
    pub items: Vec<Item>,
}
