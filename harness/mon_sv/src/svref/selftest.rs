//! svref self-test table: hand-computed IEEE 1800 cases (sizing, signedness,
//! NBA ordering, case-inside, for/break, function calls, generate, instances…).
//! Run at the start of every monitor; a failure makes the run inconclusive.

use super::Sim;
use refmodel::bv4::Bv;

type T = Result<(), String>;

fn build(src: &str, top: &str) -> Result<Sim, String> {
    super::syntax_gate(src).map_err(|e| format!("self-test source rejected by sv-parser: {e}"))?;
    Sim::build(&[src.to_string()], top).map_err(|e| format!("build: {e}"))
}

fn poke(s: &mut Sim, n: &str, bits: &str) -> T {
    s.poke(n, &Bv::from_bitstr(bits)).map_err(|e| format!("poke {n}: {e}"))
}
fn pokeu(s: &mut Sim, n: &str, v: u64) -> T {
    let w = s.port(n).ok_or(format!("no port {n}"))?.width;
    s.poke(n, &Bv::from_u64(v, w.max(64), false)).map_err(|e| format!("poke {n}: {e}"))
}
fn eval(s: &mut Sim) -> T {
    s.eval().map_err(|e| format!("eval: {e}"))
}
fn init(s: &mut Sim) -> T {
    s.init().map_err(|e| format!("init: {e}"))
}
fn expect(s: &Sim, n: &str, bits: &str) -> T {
    let v = s.peek(n).map_err(|e| format!("peek {n}: {e}"))?;
    let want: String = bits.chars().filter(|c| *c != '_').collect();
    if v.to_bitstr() != want {
        return Err(format!("{n}: got {} want {}", v.to_bitstr(), want));
    }
    Ok(())
}
fn expectu(s: &Sim, n: &str, val: u64) -> T {
    let v = s.peek(n).map_err(|e| format!("peek {n}: {e}"))?;
    match v.to_u64() {
        Some(x) if x == val => Ok(()),
        _ => Err(format!("{n}: got {} want {}", v.to_bitstr(), val)),
    }
}
/// one full clock period, posedge first
fn tick(s: &mut Sim, clk: &str) -> T {
    pokeu(s, clk, 1)?;
    eval(s)?;
    pokeu(s, clk, 0)?;
    eval(s)
}

fn sizing() -> T {
    let mut s = build(
        "module t(input logic [3:0] a, input logic [3:0] b, output logic [4:0] o5, output logic [3:0] o4, output logic [3:0] avg_bad, output logic [3:0] avg_good,
                  output logic [7:0] cat, output logic [15:0] m16, output logic c1);
           assign o5 = a + b;               // context 5 bits: carry kept
           assign o4 = a + b;               // truncated
           assign avg_bad = (a + b) >> 1;   // 4-bit context: carry lost
           assign avg_good = (a + b + 0) >> 1; // 0 is 32 bit: carry kept
           assign cat = {a + b, 4'd0};      // operands of a concatenation are self-determined
           assign m16 = a * b;              // 16-bit context
           assign c1 = a + b;               // LSB only
         endmodule",
        "t",
    )?;
    pokeu(&mut s, "a", 15)?;
    pokeu(&mut s, "b", 1)?;
    init(&mut s)?;
    expectu(&s, "o5", 16)?;
    expectu(&s, "o4", 0)?;
    expectu(&s, "avg_bad", 0)?;
    expectu(&s, "avg_good", 8)?;
    expectu(&s, "cat", 0)?;
    expectu(&s, "m16", 15)?;
    expectu(&s, "c1", 0)?;
    pokeu(&mut s, "a", 15)?;
    pokeu(&mut s, "b", 15)?;
    eval(&mut s)?;
    expectu(&s, "o5", 30)?;
    expectu(&s, "m16", 225)?;
    expectu(&s, "cat", 0xe0)
}

fn signedness() -> T {
    let mut s = build(
        "module t(input logic signed [3:0] a, input logic [3:0] u, input logic signed [3:0] b,
                  output logic [7:0] ext, output logic [7:0] mixed, output logic lt_s, output logic lt_u, output logic [7:0] sra, output logic [7:0] srl,
                  output logic [7:0] usra, output logic [7:0] neg, output logic [7:0] sel, output logic signed [7:0] q, output logic [7:0] cs, output logic [7:0] dv);
           assign ext = a;                 // sign-extended
           assign mixed = a + u;           // one unsigned operand: everything unsigned, zero-extended
           assign lt_s = a < b;            // signed compare
           assign lt_u = a < u;            // unsigned compare
           assign sra = a >>> 1;           // signed: extended to 8 (sign), arithmetic shift
           assign srl = a >> 1;            // signed operand extended, logical shift
           assign usra = u >>> 1;          // unsigned: zero fill
           assign neg = -a;
           assign sel = a[3:0];            // part-select is unsigned
           assign q = a * b;
           assign cs = $signed(u) + 8'sd0; // $signed makes the 4-bit value signed, then extended
           assign dv = a / b;
         endmodule",
        "t",
    )?;
    poke(&mut s, "a", "1000")?; // -8
    poke(&mut s, "u", "0010")?;
    poke(&mut s, "b", "0011")?; // 3
    init(&mut s)?;
    expect(&s, "ext", "11111000")?;
    expect(&s, "mixed", "00001010")?;
    expect(&s, "lt_s", "1")?;
    expect(&s, "lt_u", "0")?;
    expect(&s, "sra", "11111100")?;
    expect(&s, "srl", "01111100")?;
    expect(&s, "usra", "00000001")?;
    expect(&s, "neg", "00001000")?;
    expect(&s, "sel", "00001000")?;
    expect(&s, "q", "11101000")?; // -24
    expect(&s, "cs", "00000010")?;
    expect(&s, "dv", "11111110")?; // -8/3 = -2 (truncation toward zero), sign-extended into 8 bits
    poke(&mut s, "u", "1010")?;
    eval(&mut s)?;
    expect(&s, "cs", "11111010")
}

fn literals() -> T {
    let mut s = build(
        "module t(input logic [3:0] a, output logic [7:0] f1, output logic [7:0] sx, output logic [7:0] ux, output logic [39:0] big, output logic [7:0] xl,
                  output logic [7:0] t1, output logic [3:0] dz, output logic [7:0] f2);
           assign f1 = '1;                 // fills the context
           assign sx = 4'sb1000;           // signed literal sign-extends
           assign ux = 4'b1000;
           assign big = 'h1 << 35;         // unsized based literal is 32 bits, but the context is 40
           assign xl = 8'b1x0z_0101;
           assign t1 = a ? 8'd1 : 8'd2;
           assign dz = a / 4'd0;
           assign f2 = a + '1;             // '1 in an 8-bit context is 8'hff
         endmodule",
        "t",
    )?;
    pokeu(&mut s, "a", 3)?;
    init(&mut s)?;
    expect(&s, "f1", "11111111")?;
    expect(&s, "sx", "11111000")?;
    expect(&s, "ux", "00001000")?;
    expectu(&s, "big", 1u64 << 35)?;
    expect(&s, "xl", "1x0z0101")?;
    expectu(&s, "t1", 1)?;
    expect(&s, "dz", "xxxx")?;
    expectu(&s, "f2", 2)?;
    poke(&mut s, "a", "00x0")?;
    eval(&mut s)?;
    // unknown selector: bitwise merge of 8'd1 and 8'd2
    expect(&s, "t1", "000000xx")
}

fn nba_order() -> T {
    let mut s = build(
        "module t(input logic clk, input logic rst_n, input logic [3:0] d, output logic [3:0] a, output logic [3:0] b, output logic [3:0] c, output logic [3:0] p);
           always_ff @(posedge clk, negedge rst_n) begin
             if (!rst_n) begin a <= 4'd1; b <= 4'd2; end
             else begin a <= b; b <= a; end       // swap: both read pre-edge values
           end
           always_ff @(posedge clk) begin
             c <= a;                              // other process: still the pre-edge a
           end
           always_ff @(posedge clk) begin
             p <= 4'd0;
             p[1] <= 1'b1;                        // later NBA wins on its bits
             p <= d;
             p[0] <= 1'b1;
           end
         endmodule",
        "t",
    )?;
    pokeu(&mut s, "clk", 0)?;
    pokeu(&mut s, "rst_n", 1)?;
    pokeu(&mut s, "d", 4)?;
    init(&mut s)?;
    expect(&s, "a", "xxxx")?;
    // asynchronous reset: the falling edge alone resets
    pokeu(&mut s, "rst_n", 0)?;
    eval(&mut s)?;
    expectu(&s, "a", 1)?;
    expectu(&s, "b", 2)?;
    expect(&s, "c", "xxxx")?;
    pokeu(&mut s, "rst_n", 1)?;
    eval(&mut s)?;
    expectu(&s, "a", 1)?;
    tick(&mut s, "clk")?;
    expectu(&s, "a", 2)?;
    expectu(&s, "b", 1)?;
    expectu(&s, "c", 1)?;
    expectu(&s, "p", 5)?;
    tick(&mut s, "clk")?;
    expectu(&s, "a", 1)?;
    expectu(&s, "b", 2)?;
    expectu(&s, "c", 2)
}

fn resets_and_edges() -> T {
    let mut s = build(
        "module t(input logic clk, input logic rst, input logic [3:0] d, output logic [3:0] qp, output logic [3:0] qn, output logic [3:0] qa);
           always_ff @(posedge clk) if (rst) qp <= 4'd0; else qp <= d;          // sync high
           always_ff @(negedge clk) if (rst) qn <= 4'd0; else qn <= d;          // negedge clock
           always_ff @(posedge clk or posedge rst) if (rst) qa <= 4'd9; else qa <= d; // async high, `or` separator
         endmodule",
        "t",
    )?;
    pokeu(&mut s, "clk", 0)?;
    pokeu(&mut s, "rst", 0)?;
    pokeu(&mut s, "d", 7)?;
    init(&mut s)?;
    pokeu(&mut s, "rst", 1)?;
    eval(&mut s)?;
    expectu(&s, "qa", 9)?; // async
    expect(&s, "qp", "xxxx")?; // sync: needs the clock
    pokeu(&mut s, "clk", 1)?;
    eval(&mut s)?;
    expectu(&s, "qp", 0)?;
    expect(&s, "qn", "xxxx")?;
    pokeu(&mut s, "clk", 0)?;
    eval(&mut s)?;
    expectu(&s, "qn", 0)?;
    pokeu(&mut s, "rst", 0)?;
    eval(&mut s)?;
    expectu(&s, "qa", 9)?; // falling reset edge triggers nothing
    pokeu(&mut s, "clk", 1)?;
    eval(&mut s)?;
    expectu(&s, "qp", 7)?;
    expectu(&s, "qa", 7)?;
    expectu(&s, "qn", 0)?;
    pokeu(&mut s, "d", 3)?;
    pokeu(&mut s, "clk", 0)?;
    eval(&mut s)?;
    expectu(&s, "qn", 3)?;
    expectu(&s, "qp", 7)
}

fn case_forms() -> T {
    let mut s = build(
        "module t(input logic [3:0] x, input logic signed [2:0] sx, output logic [3:0] ci, output logic [3:0] cp, output logic [3:0] cs, output logic [3:0] cm);
           localparam int A = 9;
           always_comb begin
             case (x) inside
               0: ci = 4'd1;
               1, 2: ci = 4'd2;
               [3:5]: ci = 4'd3;
               A - 1: ci = 4'd4;
               4'b11?0: ci = 4'd5;           // wildcard bits in the item
               default: ci = 4'd15;
             endcase
           end
           always_comb begin
             cp = 4'd0;
             case (x)
               4'd0, 4'd1: cp = 4'd1;
               4'd2: begin cp = 4'd2; cp = cp + 4'd1; end
             endcase
           end
           always_comb begin
             case (1'b1)                      // Veryl switch: first true item wins
               x == 4'd3: cs = 4'd1;
               x >= 4'd3, x == 4'd0: cs = 4'd2;
               default: cs = 4'd3;
             endcase
           end
           always_comb begin
             // all expressions sized to 32 bits; all signed → sx sign-extends: -1 never equals 7
             case (sx)
               7: cm = 4'd1;
               -1: cm = 4'd2;
               default: cm = 4'd3;
             endcase
           end
         endmodule",
        "t",
    )?;
    let table: &[(u64, u64, u64, u64)] = &[(0, 1, 1, 2), (1, 2, 1, 3), (2, 2, 3, 3), (3, 3, 0, 1), (5, 3, 0, 2), (8, 4, 0, 2), (12, 5, 0, 2), (14, 5, 0, 2), (13, 15, 0, 2), (7, 15, 0, 2)];
    pokeu(&mut s, "x", 0)?;
    poke(&mut s, "sx", "111")?;
    init(&mut s)?;
    expectu(&s, "cm", 2)?;
    for (x, ci, cp, cs) in table {
        pokeu(&mut s, "x", *x)?;
        eval(&mut s)?;
        expectu(&s, "ci", *ci).map_err(|e| format!("x={x}: {e}"))?;
        expectu(&s, "cp", *cp).map_err(|e| format!("x={x}: {e}"))?;
        expectu(&s, "cs", *cs).map_err(|e| format!("x={x}: {e}"))?;
    }
    poke(&mut s, "sx", "011")?;
    eval(&mut s)?;
    expectu(&s, "cm", 3)
}

fn loops_and_functions() -> T {
    let mut s = build(
        "package p;
           localparam int unsigned K = 3;
           function automatic logic [7:0] addk(input logic [7:0] a, input logic [3:0] b);
             logic [7:0] r;
             r = a + b;
             if (r > 8'd100) begin
               return 8'd100;
             end
             r = r + K;
             return r;
           endfunction
           function automatic void split(input logic [7:0] v, output logic [3:0] hi, output logic [3:0] lo);
             hi = v[7:4];
             lo = v[3:0];
           endfunction
         endpackage
         module t(input logic [7:0] a, output logic [7:0] par, output logic [7:0] brk, output logic [7:0] f, output logic [3:0] h, output logic [3:0] l, output logic [7:0] rev);
           function automatic logic [7:0] twice(input logic [7:0] v);
             twice = v << 1;                 // assignment to the function name
           endfunction
           always_comb begin
             par = 8'd0;
             for (int i = 0; i < 8; i++) begin
               par[i] = ^(a >> i);
             end
           end
           always_comb begin
             brk = 8'd0;
             for (int i = 0; i < 8; i++) begin
               brk[i] = 1'b1;
               if (a[i]) break;              // first set bit stops the loop
             end
           end
           always_comb begin
             rev = 8'd0;
             for (int signed i = 7; i >= 0; i--) begin
               rev[7 - i] = a[i];
             end
           end
           assign f = twice(p::addk(a, 4'd2));
           always_comb begin
             p::split(a, h, l);
           end
         endmodule",
        "t",
    )?;
    pokeu(&mut s, "a", 0b0010_0100)?;
    init(&mut s)?;
    // par[i] = xor of bits i..7 of a: a = 00100100 → i=0..2: 0, i=3..5: 1, i=6,7: 0
    expect(&s, "par", "00111000")?;
    expect(&s, "brk", "00000111")?;
    expectu(&s, "f", ((0b0010_0100 + 2 + 3) << 1) & 0xff)?;
    expectu(&s, "h", 2)?;
    expectu(&s, "l", 4)?;
    expect(&s, "rev", "00100100")?;
    pokeu(&mut s, "a", 200)?;
    eval(&mut s)?;
    expectu(&s, "f", 200)?;
    expect(&s, "rev", "00010011")
}

fn generate_and_instances() -> T {
    let mut s = build(
        "module sub #(parameter int unsigned W = 4, parameter int unsigned INC = 1) (input logic clk, input logic [W-1:0] a, output logic [W-1:0] y, output logic [W-1:0] q);
           assign y = a + INC;               // truncated to W
           always_ff @(posedge clk) q <= a;
         endmodule
         module t(input logic clk, input logic [7:0] a, output logic [7:0] g, output logic [2:0] y3, output logic [7:0] y8, output logic [7:0] q8, output logic [7:0] wide);
           for (genvar k = 0; k < 8; k++) begin : gk
             if (k % 2 == 0) begin : ge
               assign g[k] = a[k];
             end else begin : go
               assign g[k] = ~a[k];
             end
           end
           logic [2:0] q3;
           sub #(.W(3)) u3 (.clk(clk), .a(a), .y(y3), .q(q3));          // 8-bit a truncated to the 3-bit port
           sub #(.W(8), .INC(5)) u8 (.clk(clk), .a(a), .y(y8), .q(q8));
           sub u4 (.clk(clk), .a(a[3:0]), .y(wide), .q());             // 4-bit output zero-extended into wide
         endmodule",
        "t",
    )?;
    pokeu(&mut s, "clk", 0)?;
    pokeu(&mut s, "a", 0b1001_0111)?;
    init(&mut s)?;
    expect(&s, "g", "00111101")?;
    expectu(&s, "y3", 0)?;
    expectu(&s, "y8", 0b1001_0111 + 5)?;
    expectu(&s, "wide", 8)?;
    expect(&s, "q8", "xxxxxxxx")?;
    tick(&mut s, "clk")?;
    expectu(&s, "q8", 0b1001_0111)
}

fn structs_enums_arrays() -> T {
    let mut s = build(
        "package p;
           typedef struct packed { logic [3:0] hi; logic [1:0] mid; logic lo; } rec_t;
           typedef enum logic [2:0] { M0, M1, M2 = 3'd5, M3 } mode_t;
         endpackage
         module t(input logic [6:0] a, input logic [1:0] ix, input logic [2:0] wx, output logic [3:0] hi, output logic lo, output logic [6:0] whole, output logic [2:0] e,
                  output logic [3:0] arr, output logic [7:0] bits, output logic [3:0] md, output logic [3:0] dyn, output logic [3:0] ds);
           p::rec_t r;
           p::mode_t m;
           logic [3:0] mem [3];
           logic [1:0][3:0] md2;
           assign r = a;
           assign hi = r.hi;
           assign lo = r.lo;
           p::rec_t r2;
           assign r2.hi = 4'hf;
           assign r2.mid = a[1:0];
           assign r2.lo = 1'b0;
           assign whole = r2;
           assign m = (a[0]) ? p::M3 : p::M1;
           assign e = m;
           assign mem[0] = 4'd1;
           assign mem[1] = 4'd2;
           assign mem[2] = a[3:0];
           assign arr = mem[ix];             // index 3 is out of range → x
           assign bits = $bits(p::rec_t) + $bits(mem) + $clog2(9);
           assign md2[1] = 4'ha;
           assign md2[0] = a[3:0];
           assign md = md2[ix[0]];
           assign dyn = a[wx +: 4];          // may run past the MSB → x bits
           assign ds = a[wx -: 2];
         endmodule",
        "t",
    )?;
    pokeu(&mut s, "a", 0b1010_011)?;
    pokeu(&mut s, "ix", 1)?;
    pokeu(&mut s, "wx", 2)?;
    init(&mut s)?;
    expectu(&s, "hi", 0b1010)?;
    expectu(&s, "lo", 1)?;
    expect(&s, "whole", "1111110")?;
    expectu(&s, "e", 6)?;
    expectu(&s, "arr", 2)?;
    expectu(&s, "bits", 7 + 12 + 4)?;
    expectu(&s, "md", 0xa)?;
    expect(&s, "dyn", "0100")?; // a = 1010011, bits 5..2 = 0100
    expect(&s, "ds", "0001")?; // bits 2..1 = 01
    pokeu(&mut s, "ix", 3)?;
    pokeu(&mut s, "wx", 5)?;
    eval(&mut s)?;
    expect(&s, "arr", "xxxx")?;
    expect(&s, "dyn", "xx10")?; // bits 8..5: 8,7 out of range
    pokeu(&mut s, "ix", 2)?;
    eval(&mut s)?;
    expectu(&s, "arr", 0b0011)?;
    expectu(&s, "md", 0b0011)
}

fn casts_inside_concat() -> T {
    let mut s = build(
        "module t(input logic [7:0] a, input logic signed [3:0] sa, output logic [7:0] c4, output logic [7:0] cs, output logic [7:0] cu, output logic [7:0] ct, output logic i1, output logic i2,
                  output logic [7:0] rp, output logic [11:0] cc, output logic [7:0] cw, output logic [7:0] cx, output logic o1);
           typedef logic signed [3:0] s4_t;
           localparam int unsigned N = 6;
           assign c4 = 4'(a);                 // truncate, then zero-extend (a is unsigned)
           assign cs = signed'(a[3:0]);       // 4-bit signed → sign-extended by the assignment
           assign cu = unsigned'(sa);         // unsigned → zero-extended
           assign ct = s4_t'(a);              // cast to a signed 4-bit type
           assign cw = N'(a);                 // size from a parameter
           assign cx = 8'(sa);                // widening cast keeps the signedness: sign-extend
           assign i1 = a inside {8'd3, [8'd10:8'd20]};
           assign i2 = !(a inside {[0:4]});
           assign rp = {2{a[1:0], 2'b10}};
           assign cc = {a, sa};
           assign o1 = (sa ==? 4'b1x0x);
         endmodule",
        "t",
    )?;
    pokeu(&mut s, "a", 0xbd)?;
    poke(&mut s, "sa", "1101")?;
    init(&mut s)?;
    expectu(&s, "c4", 0x0d)?;
    expectu(&s, "cs", 0xfd)?;
    expectu(&s, "cu", 0x0d)?;
    expectu(&s, "ct", 0xfd)?;
    expectu(&s, "cw", 0x3d)?;
    expectu(&s, "cx", 0xfd)?;
    expectu(&s, "i1", 0)?;
    expectu(&s, "i2", 1)?;
    expect(&s, "rp", "01100110")?;
    expectu(&s, "cc", 0xbdd)?;
    expectu(&s, "o1", 1)?;
    pokeu(&mut s, "a", 15)?;
    poke(&mut s, "sa", "0101")?;
    eval(&mut s)?;
    expectu(&s, "i1", 1)?;
    expectu(&s, "o1", 0)?;
    pokeu(&mut s, "a", 3)?;
    eval(&mut s)?;
    expectu(&s, "i1", 1)?;
    expectu(&s, "i2", 0)
}

fn compound_and_blocking() -> T {
    let mut s = build(
        "module t(input logic clk, input logic [7:0] a, output logic [7:0] o, output logic [7:0] q);
           always_comb begin
             o = a;
             o += 8'd3;
             o <<= 1;
             o[3:0] = o[7:4];
             o ^= 8'h81;
             o -= 1;
           end
           always_ff @(posedge clk) begin
             logic [7:0] tmp;
             tmp = a + 8'd1;              // blocking to a local: visible immediately
             q <= tmp + tmp;
           end
         endmodule",
        "t",
    )?;
    pokeu(&mut s, "clk", 0)?;
    pokeu(&mut s, "a", 0x25)?;
    init(&mut s)?;
    // (0x25+3)=0x28 <<1 = 0x50; low nibble = 5 → 0x55; ^0x81 = 0xd4; -1 = 0xd3
    expectu(&s, "o", 0xd3)?;
    tick(&mut s, "clk")?;
    expectu(&s, "q", 0x4c)
}

fn wildcard_labels() -> T {
    let mut s = build(
        "module t(input logic [2:0] x, input logic signed [2:0] sx, output logic [3:0] ci, output logic [3:0] cp, output logic [3:0] ce, output logic in1, output logic out1, output logic [3:0] cs);
           always_comb begin
             ci = 4'd0;
             case (x) inside
               3'b000, 3'b1x0: ci = 4'd1;      // wildcard as a LATER label: x/z digits of the item are don't-care (==?)
               3'bz01: ci = 4'd2;              // z digit is a wildcard too: 001 and 101
               [2:3], 3'b11z: ci = 4'd3;       // range first, wildcard later; 110 was taken by the first item
             endcase
           end
           always_comb begin
             cp = 4'd0;
             case (x)                          // plain case compares with ===: an x/z label never equals a 2-state selector
               3'b000, 3'b1x0: cp = 4'd1;
               3'b101: cp = 4'd2;
               default: cp = 4'd9;
             endcase
           end
           assign ce = ((x) ==? (3'b1x0)) ? 4'd1 : ((x) ==? (3'b011)) ? 4'd2 : 4'd3;
           assign in1 = x inside {3'b0x1, [6:7]};
           assign out1 = !(x inside {3'bzz0});
           always_comb begin
             cs = 4'd0;
             // mixed signedness of the items makes EVERYTHING unsigned (IEEE 12.5.1): sx = -1 is 32'd7 and matches `7`
             case (sx)
               7, 3'd0: cs = 4'd1;
               default: cs = 4'd2;
             endcase
           end
         endmodule",
        "t",
    )?;
    // x: (ci, cp, ce, in1, out1)
    let table: &[(u64, u64, u64, u64, u64, u64)] =
        &[(0, 1, 1, 3, 0, 0), (1, 2, 9, 3, 1, 1), (2, 3, 9, 3, 0, 0), (3, 3, 9, 2, 1, 1), (4, 1, 9, 1, 0, 0), (5, 2, 2, 3, 0, 1), (6, 1, 9, 1, 1, 0), (7, 3, 9, 3, 1, 1)];
    pokeu(&mut s, "x", 0)?;
    poke(&mut s, "sx", "111")?;
    init(&mut s)?;
    expectu(&s, "cs", 1)?;
    for (x, ci, cp, ce, in1, out1) in table {
        pokeu(&mut s, "x", *x)?;
        eval(&mut s)?;
        expectu(&s, "ci", *ci).map_err(|e| format!("x={x}: {e}"))?;
        expectu(&s, "cp", *cp).map_err(|e| format!("x={x}: {e}"))?;
        expectu(&s, "ce", *ce).map_err(|e| format!("x={x}: {e}"))?;
        expectu(&s, "in1", *in1).map_err(|e| format!("x={x}: {e}"))?;
        expectu(&s, "out1", *out1).map_err(|e| format!("x={x}: {e}"))?;
    }
    poke(&mut s, "sx", "001")?;
    eval(&mut s)?;
    expectu(&s, "cs", 2)
}

pub fn self_test() -> Result<usize, String> {
    let tests: Vec<(&str, fn() -> T)> = vec![
        ("sizing", sizing),
        ("signedness", signedness),
        ("literals", literals),
        ("nba_order", nba_order),
        ("resets_and_edges", resets_and_edges),
        ("case_forms", case_forms),
        ("loops_and_functions", loops_and_functions),
        ("generate_and_instances", generate_and_instances),
        ("structs_enums_arrays", structs_enums_arrays),
        ("casts_inside_concat", casts_inside_concat),
        ("compound_and_blocking", compound_and_blocking),
        ("wildcard_labels", wildcard_labels),
    ];
    let n = tests.len();
    for (name, f) in tests {
        f().map_err(|e| format!("svref self-test `{name}` failed: {e}"))?;
    }
    Ok(n)
}
