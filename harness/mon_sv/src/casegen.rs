//! CaseGen — supplementary generator for C01 (DesignGen is frozen): designs whose
//! `case` statements / `case` expressions / `switch` arms / `inside` / `outside`
//! mix 2-state values, ranges and 4-state (x/z wildcard) labels in every
//! position, with enum and const labels and signed selectors.  One shape kind per
//! design, so a divergence has a stable signature `case-shape-mismatch:<kind>`.
//! The stimulus enumerates every selector value (also those only a wildcard
//! label covers) several times.
//!
//! Layout is DesignGen's (module Top, i_clk/i_rst, one port per line) so that
//! `Design::from_text`, `drive::protocol_for` and the replay path work unchanged.

use vcommon::Rng;
use vgen::sim::{CycleIn, Stimulus, TVal, random_value};
use vgen::Design;

pub const KINDS: &[&str] = &[
    "case_stmt/two-state-only",
    "case_stmt/wild-first",
    "case_stmt/wild-later",
    "case_stmt/wild-only",
    "case_stmt/range-mixed",
    "case_stmt/range-then-wild",
    "case_stmt/const-logic-later",
    "case_stmt/const-bit-only",
    "case_stmt/const-x-later",
    "case_stmt/enum-logic-labels",
    "case_stmt/enum-bit-labels",
    "case_stmt/signed-selector-two-state",
    "case_stmt/signed-selector-wild-later",
    "case_stmt/in-always_ff-wild-later",
    "case_expr/two-state-only",
    "case_expr/wild-first",
    "case_expr/wild-later",
    "case_expr/range-then-wild",
    "case_expr/overlapping-arms",
    "switch/multi-condition-arms",
    "inside/wild-members",
    "inside/two-state-and-range",
    "outside/wild-members",
];

struct G<'a> {
    rng: &'a mut Rng,
    w: usize,
}

impl<'a> G<'a> {
    fn val(&mut self) -> u64 {
        self.rng.below(1 << self.w)
    }
    fn two(&mut self) -> String {
        let v = self.val();
        match self.rng.below(4) {
            0 => format!("{}'d{v}", self.w),
            1 => format!("{v}"),
            2 => format!("{}'h{v:x}", self.w),
            _ => format!("{}'b{:0w$b}", self.w, v, w = self.w),
        }
    }
    fn wild(&mut self) -> String {
        let v = self.val();
        let mut s: Vec<char> = format!("{:0w$b}", v, w = self.w).chars().collect();
        let n = 1 + self.rng.usize(self.w - 1);
        for _ in 0..n {
            let k = self.rng.usize(self.w);
            s[k] = if self.rng.bool() { 'x' } else { 'z' };
        }
        format!("{}'b{}", self.w, s.iter().collect::<String>())
    }
    fn range(&mut self) -> String {
        let a = self.val();
        let b = a + self.rng.below((1 << self.w) - a);
        if self.rng.bool() { format!("{a}..={b}") } else { format!("{a}..{}", b + 1) }
    }
    /// label list of one arm; `first` / `later` choose what may stand in which position
    fn labels(&mut self, first: &str, later: &str, max: usize) -> String {
        let n = 1 + self.rng.usize(max);
        let mut v = vec![];
        for k in 0..n {
            let what = if k == 0 { first } else { later };
            v.push(self.one(what));
        }
        v.join(", ")
    }
    fn one(&mut self, what: &str) -> String {
        match what {
            "two" => self.two(),
            "wild" => self.wild(),
            "range" => self.range(),
            "any" => match self.rng.below(3) {
                0 => self.two(),
                1 => self.wild(),
                _ => self.range(),
            },
            "two|range" => {
                if self.rng.bool() { self.two() } else { self.range() }
            }
            "kl" => (*self.rng.pick(&["Pkg::KL0", "Pkg::KL1"])).to_string(),
            "kb" => (*self.rng.pick(&["Pkg::KB0", "Pkg::KB1"])).to_string(),
            "kx" => "Pkg::KX".to_string(),
            _ => self.two(),
        }
    }
    /// selector values (unsigned selector) a label text matches
    fn matches(&self, label: &str) -> Vec<u64> {
        let all = 0..(1u64 << self.w);
        if let Some((a, b)) = label.split_once("..=") {
            let (a, b): (u64, u64) = (a.parse().unwrap_or(0), b.parse().unwrap_or(0));
            return all.filter(|v| *v >= a && *v <= b).collect();
        }
        if let Some((a, b)) = label.split_once("..") {
            let (a, b): (u64, u64) = (a.parse().unwrap_or(0), b.parse().unwrap_or(0));
            return all.filter(|v| *v >= a && *v < b).collect();
        }
        if let Some((_, digits)) = label.split_once("'b") {
            let ds: Vec<char> = digits.chars().collect();
            return all
                .filter(|v| ds.iter().rev().enumerate().all(|(k, c)| matches!(c, 'x' | 'z') || ((v >> k) & 1) == (*c == '1') as u64))
                .collect();
        }
        let v = if let Some((_, d)) = label.split_once("'d") {
            d.parse().unwrap_or(0)
        } else if let Some((_, h)) = label.split_once("'h") {
            u64::from_str_radix(h, 16).unwrap_or(0)
        } else {
            label.parse().unwrap_or(u64::MAX)
        };
        vec![v]
    }
    /// like `labels`, but no label may match a value an earlier label of the expression already covers
    fn disjoint_labels(&mut self, first: &str, later: &str, max: usize, covered: &mut Vec<u64>, at_least_two: bool) -> Option<String> {
        let n = if at_least_two { 2 } else { 1 + self.rng.usize(max) };
        let mut v = vec![];
        for k in 0..n {
            let what = if k == 0 { first } else { later };
            for _try in 0..12 {
                let l = self.one(what);
                let m = self.matches(&l);
                if !m.is_empty() && m.iter().all(|x| !covered.contains(x)) {
                    covered.extend(m);
                    v.push(l);
                    break;
                }
            }
        }
        if v.is_empty() || (at_least_two && v.len() < 2) { None } else { Some(v.join(", ")) }
    }
    fn rhs(&mut self) -> String {
        match self.rng.below(5) {
            0 => "i1".into(),
            1 => "i2".into(),
            2 => "(i1 + i2)".into(),
            3 => "(i1 ^ 8'h5a)".into(),
            _ => format!("8'd{}", self.rng.below(256)),
        }
    }
}

/// One design of the given kind plus a stimulus that walks through every selector value.
pub fn generate(rng: &mut Rng, kind: &str, cycles: usize) -> (Design, Stimulus) {
    let w = 3;
    let signed_sel = kind.contains("signed-selector");
    let mut g = G { rng, w };
    let mut pkg = String::from("package Pkg {\n");
    let (kl0, kl1, kb0, kb1) = (g.val(), g.val(), g.val(), g.val());
    pkg.push_str(&format!("    const KL0: logic<{w}> = {w}'d{kl0};\n    const KL1: logic<{w}> = {w}'d{kl1};\n"));
    pkg.push_str(&format!("    const KB0: bit<{w}> = {w}'d{kb0};\n    const KB1: bit<{w}> = {w}'d{kb1};\n"));
    pkg.push_str(&format!("    const KX: logic<{w}> = {};\n", g.wild()));
    pkg.push_str("    enum ModeL: logic<3> {\n        A,\n        B,\n        C,\n        D,\n    }\n");
    pkg.push_str("    enum ModeB: bit<3> {\n        P,\n        Q,\n        R,\n        S,\n    }\n}\n\n");

    let sel_ty = if signed_sel { format!("signed logic<{w}>") } else { format!("logic<{w}>") };
    let mut decl = String::from("    var c0: logic<8>;\n    var r0: logic<8>;\n");
    let mut body = String::new();
    let arms = 2 + g.rng.usize(3);
    let with_default = g.rng.chance(2, 3);
    let (first, later) = match kind.split('/').nth(1).unwrap_or("") {
        "two-state-only" | "signed-selector-two-state" | "two-state-and-range" => ("two", "two"),
        "wild-first" => ("wild", "two"),
        "wild-later" | "signed-selector-wild-later" | "in-always_ff-wild-later" => ("two", "wild"),
        "wild-only" | "wild-members" => ("wild", "wild"),
        "range-mixed" => ("two|range", "two|range"),
        "range-then-wild" => ("range", "wild"),
        "const-logic-later" => ("two", "kl"),
        "const-bit-only" => ("kb", "kb"),
        "const-x-later" => ("two", "kx"),
        _ => ("two", "two"),
    };
    let family = kind.split('/').next().unwrap_or("");
    match family {
        "case_stmt" if kind.contains("enum-") => {
            let (ty, ms) = if kind.contains("enum-logic") { ("ModeL", ["A", "B", "C", "D"]) } else { ("ModeB", ["P", "Q", "R", "S"]) };
            decl.push_str(&format!("    var e0: Pkg::{ty};\n"));
            body.push_str("    always_comb {\n        case i0[1:0] {\n");
            for (k, m) in ms.iter().enumerate().take(3) {
                body.push_str(&format!("            {k}: e0 = Pkg::{ty}::{m};\n"));
            }
            body.push_str(&format!("            default: e0 = Pkg::{ty}::{};\n        }}\n    }}\n", ms[3]));
            body.push_str("    always_comb {\n        c0 = i1;\n        case e0 {\n");
            let a = g.rng.usize(4);
            let b = (a + 1 + g.rng.usize(3)) % 4;
            body.push_str(&format!("            Pkg::{ty}::{}, Pkg::{ty}::{}: c0 = {};\n", ms[a], ms[b], g.rhs()));
            let c = (0..4).find(|k| *k != a && *k != b).unwrap();
            body.push_str(&format!("            Pkg::{ty}::{}: {{\n                c0 = {};\n            }}\n", ms[c], g.rhs()));
            if with_default {
                body.push_str(&format!("            default: c0 = {};\n", g.rhs()));
            }
            body.push_str("        }\n    }\n");
        }
        "case_stmt" if kind.contains("in-always_ff") => {
            decl.push_str("    var q0: logic<8>;\n");
            body.push_str("    always_ff {\n        if_reset {\n            q0 = 0;\n        } else {\n            case i0 {\n");
            for _ in 0..arms {
                body.push_str(&format!("                {}: q0 = {};\n", g.labels(first, later, 3), g.rhs()));
            }
            body.push_str(&format!("                default: q0 = {};\n            }}\n        }}\n    }}\n", g.rhs()));
            body.push_str("    assign c0 = q0;\n");
        }
        "case_stmt" => {
            body.push_str("    always_comb {\n        c0 = i1;\n        case i0 {\n");
            for k in 0..arms {
                let l = if k == 0 { g.labels(first, later, 3).replacen(", ", ", ", 1) } else { g.labels(first, later, 3) };
                // make sure the position class really occurs: the first arm always has >= 2 labels
                let l = if k == 0 && !l.contains(',') { format!("{l}, {}", g.one(later)) } else { l };
                if g.rng.bool() {
                    body.push_str(&format!("            {l}: c0 = {};\n", g.rhs()));
                } else {
                    body.push_str(&format!("            {l}: {{\n                c0 = {};\n                c0[0] = ~c0[0];\n            }}\n", g.rhs()));
                }
            }
            if with_default {
                body.push_str(&format!("            default: c0 = {};\n", g.rhs()));
            }
            body.push_str("        }\n    }\n");
        }
        "case_expr" if kind.ends_with("overlapping-arms") => {
            // arms may overlap: the emitted `?:` chain takes the FIRST matching arm
            body.push_str("    assign c0 = case i0 {\n");
            for _ in 0..arms + 1 {
                body.push_str(&format!("        {}: {},\n", g.labels("any", "any", 3), g.rhs()));
            }
            body.push_str(&format!("        default: {},\n    }};\n", g.rhs()));
        }
        "case_expr" => {
            // arms are kept disjoint here (overlap is the business of `case_expr/overlapping-arms`)
            let mut covered: Vec<u64> = vec![];
            body.push_str("    assign c0 = case i0 {\n");
            for k in 0..arms {
                if let Some(l) = g.disjoint_labels(first, later, 3, &mut covered, k == 0) {
                    body.push_str(&format!("        {l}: {},\n", g.rhs()));
                }
            }
            body.push_str(&format!("        default: {},\n    }};\n", g.rhs()));
        }
        "switch" => {
            body.push_str("    always_comb {\n        c0 = i2;\n        switch {\n");
            for _ in 0..arms {
                let n = 2 + g.rng.usize(2);
                let conds: Vec<String> = (0..n)
                    .map(|_| match g.rng.below(4) {
                        0 => format!("i0 == {}", g.two()),
                        1 => format!("i1[3:0] >: {}", g.rng.below(16)),
                        2 => format!("i0 <: {}", g.two()),
                        _ => format!("i2[0] == 1'b{}", g.rng.below(2)),
                    })
                    .collect();
                body.push_str(&format!("            {}: c0 = {};\n", conds.join(", "), g.rhs()));
            }
            if with_default {
                body.push_str(&format!("            default: c0 = {};\n", g.rhs()));
            }
            body.push_str("        }\n    }\n");
        }
        "inside" | "outside" => {
            let n = 2 + g.rng.usize(3);
            let mut ms = vec![];
            for k in 0..n {
                ms.push(if kind.ends_with("wild-members") {
                    if k == 0 { g.wild() } else { g.one("any") }
                } else {
                    g.one("two|range")
                });
            }
            body.push_str(&format!("    assign c0 = if ({family} i0 {{{}}}) ? {} : {};\n", ms.join(", "), g.rhs(), g.rhs()));
        }
        _ => body.push_str("    assign c0 = i1;\n"),
    }
    body.push_str("    always_ff {\n        if_reset {\n            r0 = 0;\n        } else {\n            r0 = c0;\n        }\n    }\n");
    body.push_str("    assign o0 = c0;\n    assign o1 = r0;\n");

    let mut text = pkg;
    text.push_str("module Top (\n    i_clk: input clock,\n    i_rst: input reset,\n");
    text.push_str(&format!("    i0: input {sel_ty},\n    i1: input logic<8>,\n    i2: input logic<8>,\n    o0: output logic<8>,\n    o1: output logic<8>,\n) {{\n"));
    text.push_str(&decl);
    text.push_str(&body);
    text.push_str("}\n");
    let mut d = Design::from_text(&text);
    d.features = vec![kind.to_string()];

    // stimulus: two reset cycles, then every selector value in shuffled order, repeated
    let mut cyc = vec![];
    let mut order: Vec<u64> = (0..(1u64 << w)).collect();
    for c in 0..cycles.max(2 + 2 * (1 << w)) {
        if (c.saturating_sub(2)) % (1 << w) == 0 {
            g.rng.shuffle(&mut order);
        }
        let sel = order[(c.saturating_sub(2)) % (1 << w)];
        let inputs = vec![TVal { width: w, payload: vec![sel], xz: vec![0] }, random_value(g.rng, 8), random_value(g.rng, 8)];
        cyc.push(CycleIn { reset: c < 2 || g.rng.chance(1, 30), inputs });
    }
    (d, Stimulus { cycles: cyc })
}
