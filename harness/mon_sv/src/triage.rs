//! Attribution of a C01 mismatch to a known defect class by *counterfactual
//! neutralisation*: each class has a rewrite of the Veryl source that is
//! semantics-preserving under IEEE 1800 / Veryl's documented semantics but
//! avoids the defective code path.  If the rewritten design no longer
//! mismatches (same configuration, same stimulus), the mismatch is attributed
//! to that class and the violation signature is the class name — stable across
//! seeds.  A mismatch no rewrite removes keeps a per-case signature and fails
//! the check.

pub struct Class {
    pub name: &'static str,
    pub rewrite: fn(&str) -> String,
}

/// `$signed(X)` / `$unsigned(X)` with a non-trivial argument → `$signed({X})`.  A one-element
/// concatenation evaluates X self-determined, exactly like the argument of a sign function
/// (IEEE 1800-2017 11.8.1, 20.6.1... the argument is self-determined), so the rewrite is an identity
/// in SystemVerilog; in the Veryl interpreter it keeps the sign function from overwriting the
/// signedness of the operator node inside.
pub fn wrap_sign_function_argument(text: &str) -> String {
    let mut out = String::with_capacity(text.len() + 16);
    let b = text.as_bytes();
    let mut i = 0;
    let mut close_at: Vec<usize> = vec![];
    while i < b.len() {
        let rest = &text[i..];
        let kw = if rest.starts_with("$signed(") {
            Some(8)
        } else if rest.starts_with("$unsigned(") {
            Some(10)
        } else {
            None
        };
        if let Some(k) = kw {
            // find the matching parenthesis
            let start = i + k;
            let mut depth = 1;
            let mut j = start;
            while j < b.len() && depth > 0 {
                match b[j] {
                    b'(' => depth += 1,
                    b')' => depth -= 1,
                    _ => {}
                }
                j += 1;
            }
            let inner = text[start..j - 1].trim();
            let simple = !inner.is_empty() && inner.chars().all(|c| c.is_ascii_alphanumeric() || c == '_' || c == '[' || c == ']' || c == ':' || c == '+');
            let already = inner.starts_with('{') && inner.ends_with('}');
            out.push_str(&text[i..start]);
            if depth == 0 && !simple && !already {
                out.push('{');
                close_at.push(j - 1);
            }
            i = start;
            continue;
        }
        if close_at.last() == Some(&i) {
            close_at.pop();
            out.push('}');
        }
        let ch = text[i..].chars().next().unwrap();
        out.push(ch);
        i += ch.len_utf8();
    }
    out
}

fn matching_paren(b: &[u8], open: usize) -> Option<usize> {
    let mut depth = 0i32;
    let mut j = open;
    while j < b.len() {
        match b[j] {
            b'(' | b'{' | b'[' => depth += 1,
            b')' | b'}' | b']' => {
                depth -= 1;
                if depth == 0 {
                    return Some(j);
                }
            }
            _ => {}
        }
        j += 1;
    }
    None
}

/// Every comparison group `( … ==|!=|<:|<=|>:|>= … )` → `{( … )}` (one-element concatenation): a comparison result is
/// 1-bit unsigned in IEEE 1800 (11.8.1), so this is an identity in SystemVerilog.
pub fn wrap_comparisons_unsigned(text: &str) -> String {
    wrap_groups(text, &[" <: ", " <= ", " >: ", " >= ", " == ", " != "], "{", "}")
}

/// The condition group of every if-expression `(if (C) ? …` → `(if $signed((C)) ? …`: only the truth
/// value of a condition matters, so this is an identity in SystemVerilog.
pub fn wrap_ternary_conditions_signed(text: &str) -> String {
    let b = text.as_bytes();
    let mut out = String::with_capacity(text.len() + 32);
    let mut i = 0;
    let mut close_at: Vec<usize> = vec![];
    while i < b.len() {
        if text[i..].starts_with("(if (") || text[i..].starts_with("= if (") {
            let open = i + text[i..].find("if (").unwrap() + 3;
            if let Some(c) = matching_paren(b, open) {
                out.push_str(&text[i..open]);
                out.push_str("$signed(");
                close_at.push(c);
                i = open;
                continue;
            }
        }
        let ch = text[i..].chars().next().unwrap();
        out.push(ch);
        if close_at.contains(&i) {
            out.push(')');
        }
        i += ch.len_utf8();
    }
    out
}

fn wrap_groups(text: &str, ops: &[&str], prefix: &str, suffix: &str) -> String {
    let b = text.as_bytes();
    let mut stack: Vec<(usize, bool)> = vec![];
    let mut groups: Vec<(usize, usize)> = vec![];
    for i in 0..b.len() {
        match b[i] {
            b'(' => stack.push((i, false)),
            b')' => {
                if let Some((s, rel)) = stack.pop()
                    && rel
                {
                    groups.push((s, i));
                }
            }
            b' ' => {
                let rest = &text[i..];
                if ops.iter().any(|o| rest.starts_with(o))
                    && let Some(top) = stack.last_mut()
                {
                    top.1 = true;
                }
            }
            _ => {}
        }
    }
    if groups.is_empty() {
        return text.to_string();
    }
    let mut open_at: Vec<usize> = groups.iter().map(|g| g.0).collect();
    let mut close_at: Vec<usize> = groups.iter().map(|g| g.1).collect();
    open_at.sort();
    close_at.sort();
    let mut out = String::with_capacity(text.len() + groups.len() * 12);
    for (k, c) in text.char_indices() {
        if open_at.binary_search(&k).is_ok() {
            out.push_str(prefix);
        }
        out.push(c);
        if close_at.binary_search(&k).is_ok() {
            out.push_str(suffix);
        }
    }
    out
}

/// Function-call arguments `Pkg::fnN(e0, e1, …)` → `Pkg::fnN(((e0) as W0), …)` with Wk the declared
/// width of the formal: `W'(e)` evaluates e exactly as the assignment to the W-bit formal does
/// (IEEE 1800-2017 6.24.1 / 13.5), so this is an identity in SystemVerilog.
pub fn cast_function_arguments(text: &str) -> String {
    // formal widths from the declarations: `function fnN (` … `aK: input [signed] logic[<W>],`
    let mut widths: std::collections::HashMap<String, Vec<usize>> = Default::default();
    let mut cur: Option<String> = None;
    for l in text.lines() {
        let t = l.trim();
        if let Some(rest) = t.strip_prefix("function ") {
            let name: String = rest.chars().take_while(|c| c.is_alphanumeric() || *c == '_').collect();
            widths.insert(name.clone(), vec![]);
            cur = Some(name);
        } else if t.starts_with(") ->") || t.starts_with(") {") {
            cur = None;
        } else if let (Some(f), true) = (&cur, t.contains(": input ")) {
            let w = t.split_once('<').and_then(|(_, r)| r.split_once('>')).and_then(|(w, _)| w.trim().parse::<usize>().ok()).unwrap_or(1);
            widths.get_mut(f).unwrap().push(w);
        }
    }
    let b = text.as_bytes();
    let mut out = String::with_capacity(text.len() + 64);
    let mut i = 0;
    while i < b.len() {
        let rest = &text[i..];
        let mut hit = None;
        for (name, ws) in &widths {
            let pat = format!("Pkg::{name}(");
            if rest.starts_with(&pat) {
                hit = Some((pat.len(), ws.clone()));
            }
        }
        if let Some((plen, ws)) = hit {
            let open = i + plen - 1;
            if let Some(close) = matching_paren(b, open) {
                // split the arguments at top-level commas
                let inner = &text[open + 1..close];
                let mut args: Vec<String> = vec![];
                let (mut depth, mut start) = (0i32, 0usize);
                for (k, c) in inner.char_indices() {
                    match c {
                        '(' | '{' | '[' => depth += 1,
                        ')' | '}' | ']' => depth -= 1,
                        ',' if depth == 0 => {
                            args.push(inner[start..k].to_string());
                            start = k + 1;
                        }
                        _ => {}
                    }
                }
                args.push(inner[start..].to_string());
                if args.len() == ws.len() {
                    out.push_str(&text[i..open + 1]);
                    let wrapped: Vec<String> = args.iter().zip(ws.iter()).map(|(a, w)| format!("(({}) as {w})", cast_function_arguments_inner(a.trim(), &widths))).collect();
                    out.push_str(&wrapped.join(", "));
                    out.push(')');
                    i = close + 1;
                    continue;
                }
            }
        }
        let ch = rest.chars().next().unwrap();
        out.push(ch);
        i += ch.len_utf8();
    }
    out
}

fn cast_function_arguments_inner(arg: &str, _w: &std::collections::HashMap<String, Vec<usize>>) -> String {
    // DesignGen never nests calls inside call arguments (functions see no other functions) — keep as is
    arg.to_string()
}

/// `assign c = a[ix % n];` (dynamic read of an unpacked array driven element-wise) →
/// a chain of if-expressions over constant indices (the index is in range by construction).
pub fn static_array_read(text: &str) -> String {
    let mut out = String::with_capacity(text.len() + 64);
    for l in text.lines() {
        let t = l.trim();
        let mut done = false;
        if let Some(rest) = t.strip_prefix("assign ")
            && let Some((lhs, rhs)) = rest.split_once(" = ")
            && let Some(rhs) = rhs.strip_suffix("];")
            && let Some((arr, idx)) = rhs.split_once('[')
            && let Some((ix, n)) = idx.split_once(" % ")
            && let Ok(n) = n.trim().parse::<usize>()
            && arr.chars().all(|c| c.is_alphanumeric() || c == '_')
            && ix.chars().all(|c| c.is_alphanumeric() || c == '_')
            && n >= 1
        {
            let mut e = format!("{arr}[{}]", n - 1);
            for k in (0..n - 1).rev() {
                e = format!("(if (({ix} % {n}) == {k}) ? {arr}[{k}] : {e})");
            }
            let indent: String = l.chars().take_while(|c| c.is_whitespace()).collect();
            out.push_str(&format!("{indent}assign {lhs} = {e};"));
            done = true;
        }
        if !done {
            out.push_str(l);
        }
        out.push('\n');
    }
    out
}

/// `for k in [rev] 0..n { T[k] = ~T[k]; if k == B { break; } }` → the same loop over exactly the
/// iterations that execute, without `break`.
pub fn unroll_break_loops(text: &str) -> String {
    let lines: Vec<&str> = text.lines().collect();
    let mut out = String::with_capacity(text.len());
    let mut i = 0;
    while i < lines.len() {
        let t = lines[i].trim();
        if let Some(rest) = t.strip_prefix("for ")
            && i + 5 < lines.len()
            && lines[i + 3].trim() == "break;"
            && lines[i + 4].trim() == "}"
            && lines[i + 5].trim() == "}"
            && let Some((var, range)) = rest.split_once(" in ")
            && let Some(range) = range.strip_suffix(" {")
            && let Some(cond) = lines[i + 2].trim().strip_prefix(&format!("if {var} == "))
            && let Some(bs) = cond.strip_suffix(" {")
            && let Ok(bv) = bs.trim().parse::<usize>()
        {
            let indent: String = lines[i].chars().take_while(|c| c.is_whitespace()).collect();
            let (rev, r) = match range.strip_prefix("rev ") {
                Some(r) => (true, r),
                None => (false, range),
            };
            if let Some((lo, hi)) = r.split_once("..")
                && let (Ok(lo), Ok(hi)) = (lo.trim().parse::<usize>(), hi.trim().parse::<usize>())
                && bv >= lo
                && bv < hi
            {
                let hdr = if rev { format!("{indent}for {var} in rev {bv}..{hi} {{") } else { format!("{indent}for {var} in {lo}..{} {{", bv + 1) };
                out.push_str(&hdr);
                out.push('\n');
                out.push_str(lines[i + 1]);
                out.push('\n');
                out.push_str(&format!("{indent}}}\n"));
                i += 6;
                continue;
            }
        }
        out.push_str(lines[i]);
        out.push('\n');
        i += 1;
    }
    out
}

/// Relational groups only (`<: <= >: >=`) → `{( … )}` (identity in SystemVerilog, 11.8.1).
pub fn wrap_relational_unsigned(text: &str) -> String {
    wrap_groups(text, &[" <: ", " <= ", " >: ", " >= "], "{", "}")
}

/// Every bit/part select used as an operand → `{select}` (one-element concatenation): a select is unsigned whatever the
/// variable's signedness (IEEE 1800-2017 11.8.1), so this is an identity in SystemVerilog.  Element
/// reads of unpacked arrays keep the element's signedness and are left alone.
pub fn wrap_selects_unsigned(text: &str) -> String {
    let mut arrays: Vec<String> = vec![];
    for l in text.lines() {
        let t = l.trim();
        if let Some(rest) = t.strip_prefix("var ")
            && t.ends_with("];")
            && let Some((name, _)) = rest.split_once(':')
        {
            arrays.push(name.trim().to_string());
        }
    }
    let mut out = String::with_capacity(text.len() + 64);
    for l in text.lines() {
        let b = l.as_bytes();
        let mut i = 0;
        let mut line = String::with_capacity(l.len() + 16);
        while i < b.len() {
            let c = b[i] as char;
            let prev_ident = i > 0 && ((b[i - 1] as char).is_ascii_alphanumeric() || b[i - 1] == b'_' || b[i - 1] == b'$' || b[i - 1] == b'\'' || b[i - 1] == b':');
            if (c.is_ascii_alphabetic() || c == '_') && !prev_ident {
                let mut j = i;
                while j < b.len() && ((b[j] as char).is_ascii_alphanumeric() || b[j] == b'_') {
                    j += 1;
                }
                let name = &l[i..j];
                if j < b.len() && b[j] == b'[' {
                    // consecutive bracket groups
                    let mut groups = 0;
                    let mut k = j;
                    while k < b.len() && b[k] == b'[' {
                        match matching_paren(b, k) {
                            Some(e) => {
                                groups += 1;
                                k = e + 1;
                            }
                            None => break,
                        }
                    }
                    let before = l[..i].trim();
                    let after = l[k..].trim_start();
                    let assign_op = ["= ", "+= ", "-= ", "&= ", "|= ", "^= ", "<<= ", ">>= ", "*= ", "/= ", "%= "].iter().any(|o| after.starts_with(o));
                    let is_lhs = (before.is_empty() || before == "assign") && assign_op;
                    let is_array = arrays.iter().any(|a| a == name);
                    let wrap = !is_lhs && groups >= if is_array { 2 } else { 1 };
                    if wrap {
                        // a one-element concatenation: unsigned, same width, operand self-determined
                        let after_case = before.ends_with("case");
                        line.push_str(if after_case { "({" } else { "{" });
                        line.push_str(&l[i..k]);
                        line.push_str(if after_case { "})" } else { "}" });
                    } else {
                        line.push_str(&l[i..k]);
                    }
                    i = k;
                    continue;
                }
                line.push_str(name);
                i = j;
                continue;
            }
            line.push(c);
            i += 1;
        }
        out.push_str(&line);
        out.push('\n');
    }
    out
}

/// ABLATION (weaker than the identity rewrites above, tried last): drop every size cast `((E) as N)` → `((E))`.
/// This changes the design on both sides; if the divergence disappears, a size cast is necessary for it.
pub fn strip_size_casts(text: &str) -> String {
    let b = text.as_bytes();
    let mut out = String::with_capacity(text.len());
    let mut i = 0;
    while i < b.len() {
        if text[i..].starts_with(" as ") {
            let mut j = i + 4;
            while j < b.len() && b[j].is_ascii_digit() {
                j += 1;
            }
            if j > i + 4 && j < b.len() && b[j] == b')' {
                i = j;
                continue;
            }
        }
        let ch = text[i..].chars().next().unwrap();
        out.push(ch);
        i += ch.len_utf8();
    }
    out
}

/// Defect classes attributed by running svref with a defect-emulation switch (`svref::sim::set_emulation`):
/// if svref WITH the emulated defect agrees with the Veryl simulator on the whole trace, the mismatch is that defect.
pub fn emulations() -> Vec<(&'static str, u8)> {
    vec![("widening-size-cast-operand-not-extended-by-sign", 2)]
}

pub fn classes() -> Vec<Class> {
    vec![
        Class { name: "sign-function-overrides-inner-operator-signedness", rewrite: wrap_sign_function_argument },
        Class { name: "function-argument-expression-not-extended-to-formal", rewrite: cast_function_arguments },
        Class { name: "stale-dynamic-read-of-assign-driven-array", rewrite: static_array_read },
        Class { name: "for-break-in-always_ff-keeps-last-iteration-only", rewrite: unroll_break_loops },
        Class { name: "c17-R8", rewrite: wrap_selects_unsigned },
        Class { name: "c17-R10", rewrite: wrap_relational_unsigned },
        Class { name: "expression-type-signedness-cloned-from-first-operand", rewrite: wrap_comparisons_unsigned },
        Class { name: "expression-type-signedness-cloned-from-first-operand", rewrite: wrap_ternary_conditions_signed },
    ]
}

/// Ablation classes: tried after the identity rewrites and the svref emulations failed.
pub fn ablations() -> Vec<Class> {
    vec![Class { name: "size-cast-of-signed-operand-extension(ablation)", rewrite: strip_size_casts }]
}

#[cfg(test)]
mod tests {
    #[test]
    fn others() {
        assert_eq!(super::wrap_comparisons_unsigned("x = ((a <: b) + (c));"), "x = ({(a <: b)} + (c));");
        assert_eq!(super::wrap_ternary_conditions_signed("x = (if (a != 0) ? b : c);"), "x = (if $signed((a != 0)) ? b : c);");
        assert_eq!(super::static_array_read("    assign c3 = a3[i2 % 3];\n"), "    assign c3 = (if ((i2 % 3) == 0) ? a3[0] : (if ((i2 % 3) == 1) ? a3[1] : a3[2]));\n");
        let f = "    function fn0 (\n        a0: input logic<3>,\n        a1: input signed logic<18>,\n    ) -> logic<19> {\n    }\n    assign o = Pkg::fn0((0), (i0 <<< c4));\n";
        assert!(super::cast_function_arguments(f).contains("Pkg::fn0((((0)) as 3), (((i0 <<< c4)) as 18))"));
        let l = "        for k2 in 0..5 {\n            r1[k2] = ~r1[k2];\n            if k2 == 2 {\n                break;\n            }\n        }\n";
        assert_eq!(super::unroll_break_loops(l), "        for k2 in 0..3 {\n            r1[k2] = ~r1[k2];\n        }\n");
    }

    #[test]
    fn selects() {
        let t = "    var a0: signed logic<15> [2];\n    assign c0 = a0[i0 % 2];\n        c1 = (c0 % (c0[2+:13] | 1)) + a0[1][3:0] + Pkg::C0 + 8'h1f;\n        c5[4:1] = r0[3];\n    assign c2[k] = ^(i0 >> k);\n            r2[0:0] >: r2: {\n";
        let w = "    var a0: signed logic<15> [2];\n    assign c0 = a0[i0 % 2];\n        c1 = (c0 % ({c0[2+:13]} | 1)) + {a0[1][3:0]} + Pkg::C0 + 8'h1f;\n        c5[4:1] = {r0[3]};\n    assign c2[k] = ^(i0 >> k);\n            {r2[0:0]} >: r2: {\n";
        assert_eq!(super::wrap_selects_unsigned(t), w);
    }

    #[test]
    fn wrap() {
        assert_eq!(super::wrap_sign_function_argument("a = $signed((x >: y)) + $unsigned(z) + $signed($unsigned((p + q)));"), "a = $signed({(x >: y)}) + $unsigned(z) + $signed({$unsigned({(p + q)})});");
    }
}

/// Stable class of an sv-parser rejection: the token text at the reported
/// position (first identifier-like word) — not the position itself.
pub fn gate_class(detail: &str, sv: &str) -> String {
    // sv-parser's error Debug output contains `Parse(Some((path, pos)))`
    let pos = detail
        .split(|c: char| !c.is_ascii_digit())
        .filter(|s| !s.is_empty())
        .filter_map(|s| s.parse::<usize>().ok())
        .next_back();
    match pos {
        Some(p) if p < sv.len() && sv.is_char_boundary(p) => {
            let rest = &sv[p..];
            let w: String = rest.chars().take_while(|c| !c.is_whitespace()).take(24).collect();
            format!("near:{w}")
        }
        _ => "unknown-position".into(),
    }
}
