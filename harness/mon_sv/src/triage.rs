//! Signature classification for genuine-defect classes found during triage.
//! A detector looks at the Veryl source and the emitted SV of a mismatching
//! design and returns a stable class key, so that one root cause is one known
//! finding while any other divergence keeps a per-case signature and fails.

/// Returns a class key when the design shows a known divergence class.
pub fn classify(_veryl: &str, _sv: &str) -> Option<String> {
    None
}

/// Stable class of an sv-parser rejection: the token text at the reported
/// position (first identifier-like word) — not the position itself.
pub fn gate_class(detail: &str, sv: &str) -> String {
    // sv-parser's error Debug output contains `Parse(Some((path, pos)))`
    let pos = detail
        .split(|c: char| !c.is_ascii_digit())
        .filter(|s| !s.is_empty())
        .filter_map(|s| s.parse::<usize>().ok())
        .next_back();
    match pos {
        Some(p) if p < sv.len() => {
            let rest = &sv[p..];
            let w: String = rest.chars().take_while(|c| !c.is_whitespace()).take(24).collect();
            format!("near:{w}")
        }
        _ => "unknown-position".into(),
    }
}
