//! C01 — emitted SystemVerilog behaves exactly like the Veryl design.
//!
//! Events that refute: (design, clock_type x reset_type, stimulus, cycle, output)
//! where `Simulator::get` after `Simulator::step` differs from the value svref
//! computes for the emitted `.sv`; or an emitted file that `sv-parser` rejects.
//! svref (src/svref) is the "standard SystemVerilog simulator": its unsupported
//! constructs make a design inconclusive (counted), never a violation.

use crate::drive::{self, CONFIGS, Cmp};
use crate::svref;
use std::collections::BTreeMap;
use std::sync::Arc;
use vcommon::pipeline::{analyze_one, metadata_from_toml};
use vcommon::pool::{STACK_64M, fresh_thread, par_cases};
use vcommon::rng::hash_str;
use vcommon::{Args, Json, Rng, Run, json};
use veryl_simulator::Config;
use vgen::sim::{Stimulus, config_for, run as sim_run, stimulus};
use vgen::{Design, GenOpts, generate};

pub fn opts_for(mode: &str, _rng: &mut Rng) -> GenOpts {
    let mut parts = mode.split('+');
    let base = parts.next().unwrap_or("basic");
    let mut o = match base {
        "basic" => GenOpts::basic(),
        "wide" => GenOpts::wide(),
        "explicit" => GenOpts { explicit_clock_reset: true, ..GenOpts::default() },
        "explicit_basic" => GenOpts { explicit_clock_reset: true, ..GenOpts::basic() },
        _ => GenOpts::default(),
    };
    for f in parts {
        match f {
            "functions" => o.functions = true,
            "structs" => o.structs = true,
            "enums" => o.enums = true,
            "arrays" => o.arrays = true,
            "case" => o.case_stmt = true,
            "for" => o.for_loops = true,
            "generate" => o.generate = true,
            "instances" => o.instances = true,
            "packages" => o.packages = true,
            "casts" => o.casts = true,
            "inside" => o.inside = true,
            "dyn" => o.dyn_select = true,
            "pow" => o.pow = true,
            "explicit" => o.explicit_clock_reset = true,
            "nosigned" => o.signed = false,
            "nodiv" => o.divmod = false,
            _ => {}
        }
    }
    o
}

pub fn pick_mode(rng: &mut Rng) -> &'static str {
    match rng.below(10) {
        0 | 1 => "basic",
        2 | 3 => "wide",
        4 | 5 => "explicit",
        _ => "default",
    }
}

#[derive(Default, Debug, Clone)]
pub struct CfgOut {
    pub cfg: String,
    /// ok | rejected | parse_error | gate | unsupported | sim_build_error | svref_runtime
    pub status: String,
    pub detail: String,
    pub codes: Vec<String>,
    pub cmp: Cmp,
    pub constructs: Vec<String>,
    pub sv: String,
    pub xz_vars: Vec<String>,
    pub const_trace: bool,
}

/// One (design, configuration): analyze, emit, gate, simulate on both sides, compare.
/// Must run on a fresh thread.
pub fn run_config(d: &Design, stim: &Stimulus, clock: &str, reset: &str, fault: bool, allowed_codes: Option<&[String]>) -> CfgOut {
    let mut out = CfgOut { cfg: format!("{clock}/{reset}"), ..Default::default() };
    let md = metadata_from_toml(&drive::build_toml(clock, reset), "");
    let a = match analyze_one(&d.text, &md) {
        Err(e) => {
            out.status = "parse_error".into();
            out.detail = format!("{e:?}").chars().take(300).collect();
            return out;
        }
        Ok(a) => a,
    };
    out.codes = a.all_codes();
    if a.has_error() {
        out.status = "rejected".into();
        out.detail = a.error_codes().join(",");
        return out;
    }
    if let Some(allowed) = allowed_codes
        && out.codes.iter().any(|c| !allowed.contains(c))
    {
        out.status = "rejected".into();
        out.detail = format!("new diagnostics: {}", out.codes.join(","));
        return out;
    }
    let mut sv = a.emit(0);
    if std::env::var("MON_SV_FAULT_PLAIN_CASE").is_ok() {
        // sensitivity experiment only: emulate an emitter that turns `case (x) inside` without range items into a plain `case`
        let lines: Vec<&str> = sv.lines().collect();
        let mut outl: Vec<String> = vec![];
        for (k, l) in lines.iter().enumerate() {
            let t = l.trim_end();
            if t.trim_start().starts_with("case (") && t.ends_with(") inside") {
                let has_range = lines[k + 1..].iter().take_while(|x| !x.trim_start().starts_with("endcase")).any(|x| x.trim_start().starts_with('['));
                if !has_range {
                    outl.push(t.trim_end_matches(" inside").to_string());
                    continue;
                }
            }
            outl.push(l.to_string());
        }
        sv = outl.join("\n") + "\n";
    }
    out.sv = sv.clone();
    if let Err(e) = svref::syntax_gate(&sv) {
        out.status = "gate".into();
        out.detail = e.chars().take(400).collect();
        return out;
    }
    let cfg = config_for(&md, &Config::default());
    let ver = match sim_run(&a.ir, d, &cfg, stim) {
        Ok(t) => t,
        Err(e) => {
            out.status = "sim_build_error".into();
            out.detail = e.lines().next().unwrap_or("").chars().take(200).collect();
            return out;
        }
    };
    let proto = drive::protocol_for(&d.text, &md);
    let top = drive::top_name(&sv, &d.top);
    let svt = match drive::run_svref(&[sv], &top, &d.clock, &d.reset, &d.inputs, &d.outputs, stim, proto, fault) {
        Ok(t) => t,
        Err(e) => {
            out.status = match e {
                svref::SvErr::Unsupported(_) => "unsupported".into(),
                svref::SvErr::Runtime(_) => "svref_runtime".into(),
            };
            out.detail = e.class();
            return out;
        }
    };
    out.cmp = drive::compare(&svt, &ver, d, stim);
    out.constructs = svt.constructs.clone();
    out.xz_vars = svt.xz_vars_first.clone();
    out.const_trace = ver.steps.windows(2).all(|w| w[0] == w[1]);
    out.status = "ok".into();
    out
}

pub struct CaseOut {
    pub design: Design,
    pub mode: String,
    pub stim: Stimulus,
    pub cfgs: Vec<Result<CfgOut, vcommon::pool::PanicInfo>>,
}

pub fn run_case(seed: u64, i: u64, cycles: usize, mode_override: Option<String>, nconfigs: usize, fault: bool) -> CaseOut {
    let mut rng = Rng::for_case(seed, "C01", i);
    let mode = match mode_override {
        Some(m) => m,
        None => pick_mode(&mut rng).to_string(),
    };
    let opts = opts_for(&mode, &mut rng);
    let d = generate(&mut rng, &opts);
    let stim = stimulus(&d, &mut rng, cycles);
    // rotate the starting configuration so that a reduced config budget still covers all eight
    let start = (i as usize) % CONFIGS.len();
    let mut cfgs = vec![];
    for k in 0..nconfigs.min(CONFIGS.len()) {
        let (c, r) = CONFIGS[(start + k) % CONFIGS.len()];
        let (d2, s2) = (d.clone(), stim.clone());
        cfgs.push(fresh_thread(STACK_64M, move || run_config(&d2, &s2, c, r, fault, None)));
    }
    CaseOut { design: d, mode, stim, cfgs }
}

fn first_line(s: &str) -> String {
    s.lines().next().unwrap_or("").chars().take(200).collect()
}

/// Attribute a mismatch to known defect classes (see `triage`): returns the class names whose
/// neutralising rewrite — alone, or cumulatively in order — makes the design agree again.
fn attribute(d: &Design, stim: &Stimulus, cfg: &str, codes: &[String], fault: bool) -> Vec<String> {
    let Some((c, r)) = cfg.split_once('/') else { return vec![] };
    let rerun = |text: &str| -> bool {
        let mut d2 = d.clone();
        d2.text = text.to_string();
        let (s2, c, r, allowed) = (stim.clone(), c.to_string(), r.to_string(), codes.to_vec());
        let _ = &allowed;
        match fresh_thread(STACK_64M, move || run_config(&d2, &s2, &c, &r, fault, None)) {
            Ok(o) => o.status == "ok" && o.cmp.mismatch.is_none() && o.cmp.compared > 0,
            Err(_) => false,
        }
    };
    let classes = crate::triage::classes();
    for k in &classes {
        let t = (k.rewrite)(&d.text);
        if t != d.text && rerun(&t) {
            return vec![k.name.to_string()];
        }
    }
    // defect emulation inside svref (the design text is unchanged)
    for (name, flags) in crate::triage::emulations() {
        let d2 = d.clone();
        let (s2, c2, r2) = (stim.clone(), c.to_string(), r.to_string());
        let ok = match fresh_thread(STACK_64M, move || {
            svref::sim::set_emulation(flags);
            run_config(&d2, &s2, &c2, &r2, fault, None)
        }) {
            Ok(o) => o.status == "ok" && o.cmp.mismatch.is_none() && o.cmp.compared > 0,
            Err(_) => false,
        };
        if ok {
            return vec![name.to_string()];
        }
    }
    for k in crate::triage::ablations() {
        let t = (k.rewrite)(&d.text);
        if t != d.text && rerun(&t) {
            return vec![k.name.to_string()];
        }
    }
    // several independent defects in one design: apply the rewrites cumulatively
    let mut text = d.text.clone();
    let mut used = vec![];
    for k in &classes {
        let t = (k.rewrite)(&text);
        if t != text {
            text = t;
            if !used.contains(&k.name.to_string()) {
                used.push(k.name.to_string());
            }
            if used.len() >= 2 && rerun(&text) {
                return used;
            }
        }
    }
    vec![]
}

fn report(run: &Run, i: u64, cycles: usize, o: CaseOut, fault: bool) {
    let d = &o.design;
    let mut ok_cfgs = 0;
    let mut unsupported_here = false;
    // the configurations of one design almost always diverge for the same reason: attribute once
    let mut attributed: Option<Vec<String>> = None;
    for r in &o.cfgs {
        match r {
            Err(p) => {
                run.count("config_runs_panicked", 1);
                run.note(format!("case {i}: panic at {}: {}", p.location, first_line(&p.message)));
            }
            Ok(c) => {
                run.count(&format!("status_{}", c.status), 1);
                match c.status.as_str() {
                    "ok" => {
                        ok_cfgs += 1;
                        run.seen("configs", &c.cfg);
                        run.count("cycles_compared", (c.cmp.compared / d.outputs.len().max(1) as u64) as i64);
                        run.count("port_value_comparisons", c.cmp.compared as i64);
                        run.count("port_value_comparisons_x_masked", c.cmp.xmasked as i64);
                        run.count("disagreements_checked", c.cmp.compared as i64);
                        if c.cmp.xmasked > 0 {
                            run.count("config_runs_with_x_masking", 1);
                            if run.get_count("config_runs_with_x_masking") <= 5 {
                                run.note(format!("case {i} {}: x-masked {} comparisons; first x/z variables: {:?}", c.cfg, c.cmp.xmasked, c.xz_vars));
                            }
                        }
                        for k in &c.constructs {
                            run.seen("svref_constructs", k);
                        }
                        if let Some(m) = &c.cmp.mismatch {
                            let classes = match &attributed {
                                Some(k) => k.clone(),
                                _ => {
                                    let k = attribute(d, &o.stim, &c.cfg, &c.codes, fault);
                                    attributed = Some(k.clone());
                                    k
                                }
                            };
                            let sigs: Vec<String> = if classes.is_empty() { vec![format!("trace-mismatch:unattributed:seed{}:{}:case{i}", run.seed(), run.args.tier)] } else { classes.iter().map(|k| format!("trace-mismatch:{k}")).collect() };
                            run.count(if classes.is_empty() { "mismatches_unattributed" } else { "mismatches_attributed_to_known_class" }, 1);
                            for sig in sigs {
                            run.violation(
                                &sig,
                                &format!(
                                    "svref(emitted SV) and the Veryl simulator disagree under {} at cycle {} on {}: svref {} vs veryl {}",
                                    c.cfg, m["cycle"], m["output"], m["svref_value"], m["veryl_sim_value"]
                                ),
                                json!({"case_index": i, "cycles": cycles, "mode": o.mode, "config": c.cfg, "mismatch": m, "design": d.text, "sv": c.sv,
                                       "stimulus": drive::stim_to_json(&o.stim), "codes": c.codes}),
                            );
                            }
                        }
                    }
                    "gate" => {
                        run.violation(
                            &format!("not-valid-sv:{}", crate::triage::gate_class(&c.detail, &c.sv)),
                            &format!("emitted SystemVerilog is rejected by sv-parser under {}: {}", c.cfg, first_line(&c.detail)),
                            json!({"case_index": i, "cycles": cycles, "mode": o.mode, "config": c.cfg, "gate_error": c.detail, "design": d.text, "sv": c.sv,
                                   "stimulus": drive::stim_to_json(&o.stim), "codes": c.codes}),
                        );
                    }
                    "unsupported" | "svref_runtime" => {
                        unsupported_here = true;
                        run.seen("svref_unsupported_classes", &c.detail);
                        run.count(&format!("svref_{}", c.detail), 1);
                    }
                    "rejected" => run.seen("analyzer_rejection_codes", &c.detail),
                    "parse_error" => run.note(format!("case {i}: generator bug, parse error: {}", first_line(&c.detail))),
                    "sim_build_error" => run.note(format!("case {i} {}: simulator refused the design: {}", c.cfg, c.detail)),
                    _ => {}
                }
            }
        }
    }
    run.count("designs_generated", 1);
    if unsupported_here {
        run.count("designs_svref_unsupported", 1);
    }
    if ok_cfgs > 0 {
        run.count("programs", 1);
        run.count(&format!("mode_{}", o.mode), 1);
        if d.has_ff {
            run.count("programs_with_ff", 1);
        }
        for f in &d.features {
            run.seen("design_features", f);
        }
        let nonconst = o.cfgs.iter().any(|c| matches!(c, Ok(c) if c.status == "ok" && !c.const_trace));
        if nonconst {
            run.nontrivial(hash_str(&d.text));
        }
        run.sample(json!({"case_index": i, "mode": o.mode, "features": d.features, "configs_ok": ok_cfgs, "cycles": cycles, "design": d.text}));
    }
}

/// Supplementary arm: one CaseGen design (shape kind = i mod #kinds) under two rotating configurations.
pub fn run_case_shape(seed: u64, i: u64, cycles: usize, fault: bool) -> (String, CaseOut) {
    let mut rng = Rng::for_case(seed, "C01case", i);
    let kind = crate::casegen::KINDS[(i as usize) % crate::casegen::KINDS.len()];
    let (d, stim) = crate::casegen::generate(&mut rng, kind, cycles);
    let start = (i as usize / crate::casegen::KINDS.len()) * 2 % CONFIGS.len();
    let mut cfgs = vec![];
    for k in 0..2 {
        let (c, r) = CONFIGS[(start + k * 3) % CONFIGS.len()];
        let (d2, s2) = (d.clone(), stim.clone());
        cfgs.push(fresh_thread(STACK_64M, move || run_config(&d2, &s2, c, r, fault, None)));
    }
    (kind.to_string(), CaseOut { design: d, mode: "case-shapes".into(), stim, cfgs })
}

fn report_case_shape(run: &Run, i: u64, kind: &str, o: CaseOut) {
    let d = &o.design;
    let mut ok = 0;
    for r in &o.cfgs {
        match r {
            Err(p) => run.note(format!("case-shape {i} [{kind}]: panic at {}: {}", p.location, first_line(&p.message))),
            Ok(c) => {
                run.count(&format!("case_shape_status_{}", c.status), 1);
                match c.status.as_str() {
                    "ok" => {
                        ok += 1;
                        run.seen("configs", &c.cfg);
                        run.count("case_shape_port_value_comparisons", c.cmp.compared as i64);
                        run.count("case_shape_x_masked", c.cmp.xmasked as i64);
                        run.count("disagreements_checked", c.cmp.compared as i64);
                        for k in &c.constructs {
                            run.seen("svref_constructs", k);
                        }
                        // which SV form did the emitter choose?
                        for l in c.sv.lines() {
                            let t = l.trim_start();
                            if t.starts_with("case (") || t.starts_with("unique case (") {
                                let form = if t.contains("1'b1") {
                                    "emitted_case_true"
                                } else if t.trim_end().ends_with("inside") {
                                    "emitted_case_inside"
                                } else {
                                    "emitted_plain_case"
                                };
                                run.seen("case_shape_emitted_forms", form);
                                run.count(&format!("case_shape_{form}"), 1);
                            }
                            if t.contains("==? (") {
                                run.seen("case_shape_emitted_forms", "emitted_wildcard_equality");
                            }
                            if t.contains(" inside {") {
                                run.seen("case_shape_emitted_forms", "emitted_inside_operator");
                            }
                        }
                        if let Some(m) = &c.cmp.mismatch {
                            run.violation(
                                &format!("case-shape-mismatch:{kind}"),
                                &format!(
                                    "svref(emitted SV) and the Veryl simulator disagree on a `{kind}` design under {} at cycle {} on {}: svref {} vs veryl {} (inputs {})",
                                    c.cfg, m["cycle"], m["output"], m["svref_value"], m["veryl_sim_value"], m["inputs_at_cycle"]
                                ),
                                json!({"case_index": i, "arm": "case-shapes", "kind": kind, "config": c.cfg, "mismatch": m, "design": d.text, "sv": c.sv,
                                       "stimulus": drive::stim_to_json(&o.stim), "codes": c.codes}),
                            );
                        }
                    }
                    "gate" => run.violation(
                        &format!("not-valid-sv:{}", crate::triage::gate_class(&c.detail, &c.sv)),
                        &format!("emitted SystemVerilog of a `{kind}` design is rejected by sv-parser under {}: {}", c.cfg, first_line(&c.detail)),
                        json!({"case_index": i, "arm": "case-shapes", "kind": kind, "config": c.cfg, "gate_error": c.detail, "design": d.text, "sv": c.sv,
                               "stimulus": drive::stim_to_json(&o.stim), "codes": c.codes}),
                    ),
                    "unsupported" | "svref_runtime" => {
                        run.seen("svref_unsupported_classes", &c.detail);
                        run.count("case_shape_svref_unsupported", 1);
                    }
                    "rejected" => {
                        run.seen("case_shape_rejected", &format!("{kind}: {}", c.detail));
                    }
                    "parse_error" => run.note(format!("case-shape {i} [{kind}]: CaseGen bug, parse error: {}", first_line(&c.detail))),
                    "sim_build_error" => run.note(format!("case-shape {i} [{kind}]: simulator refused the design: {}", c.detail)),
                    _ => {}
                }
            }
        }
    }
    if ok > 0 {
        run.count("case_shape_programs", 1);
        run.seen("case_shapes", kind);
        run.nontrivial(hash_str(&d.text));
        if run.get_count("case_shape_programs") <= 2 {
            run.sample(json!({"arm": "case-shapes", "case_index": i, "kind": kind, "design": d.text}));
        }
    }
}

pub fn selftest_or_inconclusive(run: &Run) {
    match refmodel::bv4::self_test() {
        Ok(n) => run.count("bv4_selftest_cases", n as i64),
        Err(e) => run.inconclusive(format!("bv4 self-test failed: {e}")),
    }
    match svref::selftest::self_test() {
        Ok(n) => run.count("svref_selftest_groups", n as i64),
        Err(e) => run.inconclusive(e),
    }
}

pub fn main(args: Args) {
    let run = Arc::new(Run::new(
        args.clone(),
        "translation_validation",
        "cases = DesignGen designs (modes basic/default/wide/explicit clock+reset types) accepted by the real analyzer with zero error diagnostics, \
         each under the 8 clock_type x reset_type project settings with one random reset+2-state input stimulus; per (design, setting): every emitted file must pass \
         the sv-parser syntax gate and svref(emitted SV) must equal Simulator::get after step/step_reset on every output port in every cycle (skipped when svref carries X); \
         non-trivial = at least one setting was compared and the Veryl trace is not constant; distinct = distinct design texts",
    ));
    run.assume("svref (harness/mon_sv/src/svref, ~2.5 kLoC + refmodel::bv4) is the standard SystemVerilog simulator: IEEE 1800-2017 semantics for the emitted subset, validated by its self-test table at start");
    run.assume("testbench protocol: inputs, [reset active], active clock edge, [reset inactive], sample, inactive clock edge; active edge / reset level come from the Veryl source port types and Veryl.toml, never from the emitted SV");
    run.assume("a cycle in which any svref variable carries X/Z is not compared (2-state stimulus property); constructs outside svref's subset make the design inconclusive");
    selftest_or_inconclusive(&run);
    let cycles = args.budget("cycles", 32, 100) as usize;
    let fault = args.get("fault_flip_edges").is_some();
    if fault {
        run.inconclusive("fault injection active (sensitivity experiment): verdict is not about /repo".into());
    }

    if let Some(rp) = &args.replay {
        crate::replay::c01(&run, rp, &args);
        run.finish(&[]);
    }

    let n = args.budget("cases", 120, 3000);
    let nconfigs = args.budget("configs", 8, 8) as usize;
    let mode = args.get("mode").map(|s| s.to_string());
    let seed = args.seed;
    let run2 = run.clone();
    // every case spawns its configurations sequentially on fresh threads
    par_cases(n, args.jobs.min(16), STACK_64M, move |i| run_case(seed, i, cycles, mode.clone(), nconfigs, fault), move |i, r| {
        run2.eval();
        match r {
            Err(p) => {
                run2.count("cases_panicked", 1);
                run2.note(format!("case {i}: panic at {}: {}", p.location, first_line(&p.message)));
            }
            Ok(o) => report(&run2, i, cycles, o, fault),
        }
    });
    // supplementary arm: case / switch / inside shapes DesignGen never produces (wildcard labels in every position…)
    let nshapes = args.budget("case_shapes", 66, 1100);
    {
        let run3 = run.clone();
        par_cases(nshapes, args.jobs.min(16), STACK_64M, move |i| run_case_shape(seed, i, cycles, fault), move |i, r| {
            run3.eval();
            match r {
                Err(p) => run3.note(format!("case-shape {i}: panic at {}: {}", p.location, first_line(&p.message))),
                Ok((kind, o)) => report_case_shape(&run3, i, &kind, o),
            }
        });
    }
    // svref-unsupported share: more than half of the generated designs unsupported → inconclusive
    let gen_ = run.get_count("designs_generated");
    let uns = run.get_count("designs_svref_unsupported");
    run.set_extra("svref_unsupported_share", json!(if gen_ > 0 { uns as f64 / gen_ as f64 } else { 0.0 }));
    if gen_ > 0 && uns * 2 > gen_ {
        run.inconclusive(format!("svref could not interpret {uns} of {gen_} designs"));
    }
    let cmp = run.get_count("port_value_comparisons");
    let xm = run.get_count("port_value_comparisons_x_masked");
    run.set_extra("x_masked_share", json!(if cmp + xm > 0 { xm as f64 / (cmp + xm) as f64 } else { 0.0 }));
    if xm > cmp {
        run.inconclusive(format!("{xm} comparisons x-masked vs {cmp} compared"));
    }
    let hist: BTreeMap<String, i64> = BTreeMap::new();
    let _ = hist;
    if args.get("mode").is_some() || args.get("cases").is_some() || args.get("configs").is_some() || args.get("case_shapes").is_some() {
        run.finish(&[]);
    }
    run.finish(&[("programs", 40), ("configs", 8), ("cycles_compared", 10_000), ("programs_with_ff", 15), ("svref_constructs", 12), ("case_shape_programs", 20), ("case_shapes", 16), ("case_shape_port_value_comparisons", 2_000), ("case_shape_emitted_forms", 4)]);
}

pub fn _unused(_: Json) {}
