//! C26 — presentation-only build options never change behaviour.
//!
//! Per design (DesignGen text with extra comments / layout noise) the default
//! build is the reference; every option set is emitted again (fresh analyzer
//! thread) and judged:
//! * `strip_comments`: no comment left, SV token stream (vcommon::lex::significant) equal;
//! * `newline_style`: text equal after normalising line endings;
//! * `indent_width` / `max_width` / `vertical_align`: SV token stream equal;
//! * `expand_inside_operation` and every set: svref trace equal to the default build's.

use crate::drive;
use crate::svref;
use std::sync::Arc;
use vcommon::lex;
use vcommon::mutate::{LayoutOpts, layout};
use vcommon::pipeline::{analyze_one, metadata_from_toml};
use vcommon::pool::{STACK_64M, fresh_thread, par_cases};
use vcommon::rng::hash_str;
use vcommon::{Args, Rng, Run, json};
use vgen::sim::{Stimulus, stimulus};
use vgen::{Design, generate};

#[derive(Clone, Debug, Default)]
pub struct OptSet {
    pub name: String,
    pub build: String,
    pub format: String,
    pub strip_comments: bool,
    pub expand_inside: bool,
    pub newline: Option<&'static str>,
    /// only newline_style differs from the default build
    pub newline_only: bool,
}

fn mk(strip: bool, expand: bool, newline: Option<&'static str>, indent: Option<u32>, maxw: Option<u32>, valign: Option<bool>) -> OptSet {
    let mut build = String::new();
    let mut format = String::new();
    let mut name = vec![];
    if strip {
        build.push_str("strip_comments = true\n");
        name.push("strip_comments".to_string());
    }
    if expand {
        build.push_str("expand_inside_operation = true\n");
        name.push("expand_inside_operation".to_string());
    }
    if let Some(n) = newline {
        format.push_str(&format!("newline_style = \"{n}\"\n"));
        name.push(format!("newline_style={n}"));
    }
    if let Some(i) = indent {
        format.push_str(&format!("indent_width = {i}\n"));
        name.push(format!("indent_width={i}"));
    }
    if let Some(m) = maxw {
        format.push_str(&format!("max_width = {m}\n"));
        name.push(format!("max_width={m}"));
    }
    if let Some(v) = valign {
        format.push_str(&format!("vertical_align = {v}\n"));
        name.push(format!("vertical_align={v}"));
    }
    let newline_only = newline.is_some() && !strip && !expand && indent.is_none() && maxw.is_none() && valign.is_none();
    OptSet { name: name.join("+"), build, format, strip_comments: strip, expand_inside: expand, newline, newline_only }
}

pub fn option_sets(rng: &mut Rng, n: usize) -> Vec<OptSet> {
    let mut v = vec![
        mk(true, false, None, None, None, None),
        mk(false, false, Some("windows"), None, None, None),
        mk(false, false, Some("unix"), None, None, None),
        mk(false, false, None, Some(2), None, None),
        mk(false, false, None, Some(8), None, None),
        mk(false, false, None, None, Some(40), None),
        mk(false, false, None, None, Some(400), None),
        mk(false, false, None, None, None, Some(false)),
        mk(false, true, None, None, None, None),
        mk(true, true, Some("windows"), Some(2), Some(60), Some(false)),
    ];
    while v.len() < n {
        let s = mk(
            rng.bool(),
            rng.bool(),
            *rng.pick(&[None, Some("windows"), Some("unix"), Some("auto"), Some("native")]),
            *rng.pick(&[None, Some(0), Some(1), Some(2), Some(3), Some(8)]),
            *rng.pick(&[None, Some(1), Some(20), Some(60), Some(80), Some(1000)]),
            *rng.pick(&[None, Some(true), Some(false)]),
        );
        if s.name.is_empty() || v.iter().any(|x| x.name == s.name) {
            if rng.chance(1, 50) {
                break;
            }
            continue;
        }
        v.push(s);
    }
    v.truncate(n);
    v
}

struct Built {
    sv: String,
    codes: Vec<String>,
}

fn build(text: &str, o: &OptSet) -> Result<Result<Built, String>, vcommon::pool::PanicInfo> {
    let (text, b, f) = (text.to_string(), o.build.clone(), o.format.clone());
    fresh_thread(STACK_64M, move || {
        let md = metadata_from_toml(&b, &f);
        match analyze_one(&text, &md) {
            Err(e) => Err(format!("parse: {e:?}")),
            Ok(a) => {
                if a.has_error() {
                    return Err(format!("rejected: {}", a.error_codes().join(",")));
                }
                Ok(Built { sv: a.emit(0), codes: a.all_codes() })
            }
        }
    })
}

fn svtrace(sv: &str, d: &Design, stim: &Stimulus) -> Result<drive::SvTrace, svref::SvErr> {
    let top = drive::top_name(sv, &d.top);
    let proto = drive::Protocol { clock_posedge: true, reset_active_high: false };
    drive::run_svref(&[sv.to_string()], &top, &d.clock, &d.reset, &d.inputs, &d.outputs, stim, proto, false)
}

#[derive(Default)]
pub struct CaseOut {
    pub status: String,
    pub design_text: String,
    pub features: Vec<String>,
    pub comments_in_default: usize,
    pub sets_checked: Vec<String>,
    pub tokens_compared: u64,
    pub traces_compared: u64,
    pub cycles_compared: u64,
    pub comments_stripped: u64,
    pub unsupported: Vec<String>,
    pub constructs: Vec<String>,
    pub violations: Vec<(String, String, vcommon::Json)>,
    pub notes: Vec<String>,
    pub inside_ops: bool,
    pub mixed_endings: u64,
}

pub fn run_case(seed: u64, i: u64, cycles: usize, nsets: usize, fault_drop_token: bool) -> CaseOut {
    let mut out = CaseOut::default();
    let mut rng = Rng::for_case(seed, "C26", i);
    let mode = crate::c01::pick_mode(&mut rng);
    let opts = crate::c01::opts_for(if mode == "explicit" { "default" } else { mode }, &mut rng);
    let mut d = generate(&mut rng, &opts);
    let stim = stimulus(&d, &mut rng, cycles);
    // add comments / layout noise (token-preserving); keep the original when the result no longer parses
    let lo = LayoutOpts { crlf: rng.chance(1, 6), comment_permille: *rng.pick(&[20, 60, 150]), ws_permille: *rng.pick(&[0, 100, 400]), insert_permille: *rng.pick(&[0, 20]), multibyte: rng.chance(1, 3), tabs: rng.chance(1, 5) };
    let noisy = layout(&d.text, &mut rng, &lo);
    let sets = option_sets(&mut rng, nsets);
    let default_set = OptSet::default();
    let mut base = build(&noisy, &default_set);
    if matches!(base, Ok(Ok(_))) {
        d.text = noisy;
    } else {
        out.notes.push("layout-mutated text rejected; using the generator's text".into());
        base = build(&d.text, &default_set);
    }
    let base = match base {
        Ok(Ok(b)) => b,
        Ok(Err(e)) => {
            out.status = e.split(':').next().unwrap_or("rejected").to_string();
            return out;
        }
        Err(p) => {
            out.status = format!("panic at {}", p.location);
            return out;
        }
    };
    out.design_text = d.text.clone();
    out.features = d.features.clone();
    out.inside_ops = d.features.iter().any(|f| f == "inside" || f == "case_stmt" || f == "case_expr");
    if let Err(e) = svref::syntax_gate(&base.sv) {
        out.status = "default_build_gate".into();
        out.notes.push(format!("default build rejected by sv-parser (C01's business): {}", e.chars().take(120).collect::<String>()));
        return out;
    }
    let base_tokens = lex::significant(&base.sv, true);
    let base_comments: Vec<String> = lex::comments(&base.sv, true).into_iter().filter(|c| !c.starts_with("//# sourceMappingURL=")).collect();
    out.comments_in_default = base_comments.len();
    let base_trace = match svtrace(&base.sv, &d, &stim) {
        Ok(t) => Some(t),
        Err(e) => {
            out.unsupported.push(e.class());
            None
        }
    };
    if let Some(t) = &base_trace {
        out.constructs = t.constructs.clone();
    }
    out.status = "ok".into();
    for s in &sets {
        let b = match build(&d.text, s) {
            // sensitivity experiment only: emulate "strip_comments also drops the token that carried the comment"
            Ok(Ok(mut b)) if fault_drop_token && s.strip_comments => {
                b.sv = b.sv.replacen(';', "", 1);
                b
            }
            Ok(Ok(b)) => b,
            Ok(Err(e)) => {
                // the option changed acceptance of the design: not presentation-only
                out.violations.push((
                    format!("option-changes-acceptance:{}", s.name),
                    format!("design accepted by the default build is refused with {}: {e}", s.name),
                    json!({"case_index": i, "option_set": s.name, "design": d.text, "error": e}),
                ));
                continue;
            }
            Err(p) => {
                out.notes.push(format!("panic under {} at {}: {}", s.name, p.location, p.message.lines().next().unwrap_or("")));
                continue;
            }
        };
        out.sets_checked.push(s.name.clone());
        let _ = &b.codes;
        let toks = lex::significant(&b.sv, true);
        let replay = |what: &str| json!({"case_index": i, "option_set": s.name, "build": s.build, "format": s.format, "what": what, "design": d.text, "default_sv": base.sv, "option_sv": b.sv});
        if s.strip_comments {
            // the `//# sourceMappingURL=` trailer is written by the emitter itself (a tool directive, not a source comment)
            let left: Vec<String> = lex::comments(&b.sv, true).into_iter().filter(|c| !c.starts_with("//# sourceMappingURL=")).collect();
            out.comments_stripped += base_comments.len() as u64;
            if !left.is_empty() {
                out.violations.push((
                    "strip_comments:comment-left".into(),
                    format!("strip_comments leaves {} comment(s), first: {:?}", left.len(), left[0].chars().take(60).collect::<String>()),
                    replay("comment-left"),
                ));
            }
        }
        if !s.expand_inside {
            out.tokens_compared += toks.len() as u64;
            let same = toks == base_tokens;
            if !same {
                let k = toks.iter().zip(base_tokens.iter()).position(|(a, b)| a != b).unwrap_or(toks.len().min(base_tokens.len()));
                let ctx = |t: &Vec<String>| t[k.saturating_sub(4)..(k + 4).min(t.len())].join(" ");
                let kind = if s.strip_comments { "strip_comments" } else { "layout-option" };
                out.violations.push((
                    format!("{kind}:token-stream-changed"),
                    format!("{} changes the SV token stream at token {k}: default `{}` vs `{}`", s.name, ctx(&base_tokens), ctx(&toks)),
                    replay("token-stream-changed"),
                ));
            }
        }
        if s.newline_only {
            let norm = |t: &str| t.replace("\r\n", "\n");
            if norm(&b.sv) != norm(&base.sv) {
                out.violations.push((
                    "newline_style:changes-more-than-line-endings".into(),
                    format!("{} changes more than line endings", s.name),
                    replay("newline-more-than-endings"),
                ));
            }
            match s.newline {
                // multi-line block comments are copied verbatim (their inner line endings are not converted): counted, not judged
                Some("unix") if b.sv.contains('\r') => out.mixed_endings += 1,
                Some("windows") if b.sv.replace("\r\n", "").contains('\n') => out.mixed_endings += 1,
                _ => {}
            }
        }
        // behaviour
        if let Some(bt) = &base_trace {
            if let Err(e) = svref::syntax_gate(&b.sv) {
                out.violations.push((
                    format!("option-breaks-syntax:{}", if s.expand_inside { "expand_inside_operation" } else { "layout-option" }),
                    format!("{} makes the emitted SV unparsable: {}", s.name, e.chars().take(120).collect::<String>()),
                    replay("syntax"),
                ));
                continue;
            }
            match svtrace(&b.sv, &d, &stim) {
                Ok(t) => {
                    let c = drive::compare_sv(bt, &t, &d.outputs);
                    out.traces_compared += 1;
                    out.cycles_compared += t.steps.len() as u64;
                    if let Some(m) = c.mismatch {
                        let kind = if s.expand_inside { "expand_inside_operation" } else { "layout-option" };
                        let mut r = replay("behaviour");
                        r["mismatch"] = m.clone();
                        r["stimulus"] = drive::stim_to_json(&stim);
                        out.violations.push((
                            format!("{kind}:behaviour-changed"),
                            format!("{} changes svref behaviour at cycle {} on {}: default {} vs {}", s.name, m["cycle"], m["output"], m["a"], m["b"]),
                            r,
                        ));
                    }
                }
                Err(e) => out.unsupported.push(e.class()),
            }
        }
    }
    out
}

pub fn main(args: Args) {
    let run = Arc::new(Run::new(
        args.clone(),
        "translation_validation",
        "cases = DesignGen designs with token-preserving comment/layout noise (vcommon::mutate::layout), accepted by the real analyzer; each emitted under the default \
         options and under N option sets over {strip_comments, newline_style, indent_width, max_width, vertical_align, expand_inside_operation}; judged by SV token stream \
         equality (vcommon::lex), absence of comments, line-ending-normalised text equality, and svref trace equality against the default build; \
         non-trivial = default build emitted, >= 1 comment in it and >= 4 option sets judged; distinct = distinct design texts",
    ));
    run.assume("vcommon::lex (independent SV-capable lexer) defines the token stream; svref defines behaviour (see C01); the default-options build is the reference");
    crate::c01::selftest_or_inconclusive(&run);
    let cycles = args.budget("cycles", 16, 40) as usize;
    let nsets = args.budget("option_sets", 12, 48) as usize;
    let n = args.budget("cases", 40, 1500);
    let fault = args.get("fault_drop_token").is_some();
    if fault {
        run.inconclusive("fault injection active (sensitivity experiment): verdict is not about /repo".into());
    }
    let seed = args.seed;
    if let Some(rp) = &args.replay {
        let v: vcommon::Json = serde_json::from_str(&std::fs::read_to_string(rp).expect("replay")).unwrap();
        let i = v["case"]["case_index"].as_u64().expect("case_index");
        let seed = v["seed"].as_u64().unwrap_or(seed);
        let o = run_case(seed, i, cycles, nsets, false);
        run.eval();
        report(&run, i, o);
        run.finish(&[]);
    }
    let run2 = run.clone();
    par_cases(n, args.jobs.min(16), STACK_64M, move |i| run_case(seed, i, cycles, nsets, fault), move |i, r| {
        run2.eval();
        match r {
            Err(p) => {
                run2.count("cases_panicked", 1);
                run2.note(format!("case {i}: panic at {}: {}", p.location, p.message.lines().next().unwrap_or("")));
            }
            Ok(o) => report(&run2, i, o),
        }
    });
    let progs = run.get_count("programs");
    let uns = run.get_count("designs_svref_unsupported");
    if progs > 0 && uns * 2 > progs {
        run.inconclusive(format!("svref could not interpret {uns} of {progs} designs"));
    }
    if args.get("cases").is_some() {
        run.finish(&[]);
    }
    run.finish(&[("programs", 12), ("option_sets", 10), ("tokens_compared", 30_000), ("traces_compared", 100), ("comments_stripped", 50), ("designs_with_inside_or_case", 4)]);
}

fn report(run: &Run, i: u64, o: CaseOut) {
    if o.status != "ok" {
        run.count(&format!("not_judged_{}", o.status.split(' ').next().unwrap_or("")), 1);
        for n in o.notes {
            run.note(format!("case {i}: {n}"));
        }
        return;
    }
    run.count("programs", 1);
    run.count("tokens_compared", o.tokens_compared as i64);
    run.count("traces_compared", o.traces_compared as i64);
    run.count("disagreements_checked", (o.traces_compared + o.sets_checked.len() as u64) as i64);
    run.count("cycles_compared", o.cycles_compared as i64);
    run.count("comments_stripped", o.comments_stripped as i64);
    run.count("comments_in_default_builds", o.comments_in_default as i64);
    run.count("newline_outputs_with_mixed_endings_inside_block_comments_not_judged", o.mixed_endings as i64);
    if o.inside_ops {
        run.count("designs_with_inside_or_case", 1);
    }
    for s in &o.sets_checked {
        run.seen("option_sets", s);
    }
    for f in &o.features {
        run.seen("design_features", f);
    }
    for c in &o.constructs {
        run.seen("svref_constructs", c);
    }
    if !o.unsupported.is_empty() {
        run.count("designs_svref_unsupported", 1);
        for u in &o.unsupported {
            run.seen("svref_unsupported_classes", u);
        }
    }
    for n in &o.notes {
        run.note(format!("case {i}: {n}"));
    }
    if o.comments_in_default > 0 && o.sets_checked.len() >= 4 {
        run.nontrivial(hash_str(&o.design_text));
    }
    run.sample(json!({"case_index": i, "features": o.features, "option_sets": o.sets_checked, "comments_in_default_build": o.comments_in_default, "design": o.design_text}));
    for (sig, what, replay) in o.violations {
        run.violation(&sig, &what, replay);
    }
}
