//! C22 — SystemVerilog translation preserves behaviour.
//!
//! For every SvGen module that `veryl_translator::translate_str` converts
//! without reporting an unsupported construct: (1) the produced Veryl must parse
//! and analyse without errors; (2) svref(original SV) must equal
//! svref(emit(translated Veryl)) cycle by cycle; the Veryl simulator on the
//! translated design is a third witness (reported, not judged here).
//!
//! Signatures are keyed on the defect class: failure stage + analyzer error
//! code set (stage 1) or failure stage + feature under test (no code available).

use crate::drive::{self, Protocol};
use crate::svgen::{self, ClockInfo, FEATURES, SvModule};
use crate::svref;
use std::collections::BTreeMap;
use std::sync::atomic::{AtomicBool, Ordering};
use std::sync::{Arc, Mutex};

/// sensitivity experiment only: corrupt one operator of the re-emitted SV
static FAULT_MUTATE_EMITTED: AtomicBool = AtomicBool::new(false);
use vcommon::pipeline::{analyze_one, default_metadata};
use vcommon::pool::{STACK_64M, fresh_thread, par_cases};
use vcommon::rng::hash_str;
use vcommon::{Args, Json, Rng, Run, json};
use veryl_metadata::NewlineStyle;
use veryl_simulator::Config;
use vgen::Design;
use vgen::sim::{Stimulus, run as sim_run, stimulus};

#[derive(Default, Debug)]
pub struct CaseOut {
    pub features: Vec<String>,
    pub sv: String,
    pub veryl: String,
    pub clocked: bool,
    /// svgen_bug | translator_parse_error | reported_unsupported | unparsable | rejected | emitted_gate | ok | svref_unsupported
    pub stage: String,
    pub detail: String,
    pub unsupported_kinds: Vec<String>,
    pub codes: Vec<String>,
    pub repaired: bool,
    pub repaired_stage: String,
    pub repaired_codes: Vec<String>,
    pub compared: u64,
    pub mismatch: Option<Json>,
    pub third_witness: String,
    pub emitted_sv: String,
    pub stim: Option<Stimulus>,
    pub constructs: Vec<String>,
    pub sign_decls: Vec<(String, String, String)>,
    pub sign_uses: usize,
    /// explicit-`unsigned` modules only: does svref(original) differ from svref(original with `unsigned` → `signed`)?
    pub signed_twin_differs: Option<bool>,
}

fn design_of(m: &SvModule, veryl: &str) -> Design {
    Design {
        text: veryl.to_string(),
        top: m.top.clone(),
        clock: "clk".into(),
        reset: "rst".into(),
        inputs: m.inputs.clone(),
        outputs: m.outputs.clone(),
        features: m.features.clone(),
        has_ff: m.clock.is_some(),
    }
}

fn proto_of(c: &Option<ClockInfo>) -> Protocol {
    match c {
        Some(ci) => Protocol { clock_posedge: ci.posedge, reset_active_high: ci.reset.map(|r| r.1).unwrap_or(true) },
        None => Protocol { clock_posedge: true, reset_active_high: true },
    }
}

/// Textual repair of the known clock/reset typing defect: retype `clk` / `rst`
/// ports of every module in the translated text according to the ORIGINAL SV.
fn repair_clock_reset(veryl: &str, ci: &ClockInfo) -> String {
    let clk_ty = if ci.posedge { "clock_posedge" } else { "clock_negedge" };
    let rst_ty = match ci.reset {
        Some((true, true)) => "reset_async_high",
        Some((true, false)) => "reset_async_low",
        Some((false, true)) => "reset_sync_high",
        Some((false, false)) => "reset_sync_low",
        None => "logic",
    };
    let mut out = String::new();
    for l in veryl.lines() {
        // the formatter aligns the port list (`clk: input  logic   ,`): compare without whitespace
        let t: String = l.chars().filter(|c| !c.is_whitespace()).collect();
        let indent: String = l.chars().take_while(|c| c.is_whitespace()).collect();
        if t == "clk:inputlogic," {
            out.push_str(&format!("{indent}clk: input {clk_ty},"));
        } else if t == "rst:inputlogic," {
            out.push_str(&format!("{indent}rst: input {rst_ty},"));
        } else {
            out.push_str(l);
        }
        out.push('\n');
    }
    out
}

struct Analysed {
    codes: Vec<String>,
    error_codes: Vec<String>,
    sv: String,
    veryl_trace: Result<vgen::sim::Trace, String>,
}

/// parse + analyse + emit + (Veryl simulator) on a fresh thread
fn analyse(veryl: &str, m: &SvModule, stim: &Stimulus) -> Result<Result<Analysed, String>, vcommon::pool::PanicInfo> {
    let (v, d, s) = (veryl.to_string(), design_of(m, veryl), stim.clone());
    fresh_thread(STACK_64M, move || {
        let md = default_metadata();
        match analyze_one(&v, &md) {
            Err(e) => Err(format!("{e:?}")),
            Ok(a) => {
                let error_codes = a.error_codes();
                let (sv, tr) = if error_codes.is_empty() {
                    let sv = a.emit(0);
                    let tr = std::panic::catch_unwind(std::panic::AssertUnwindSafe(|| sim_run(&a.ir, &d, &Config::default(), &s))).unwrap_or_else(|_| Err("simulator panicked".into()));
                    (sv, tr)
                } else {
                    (String::new(), Err("not analysed".into()))
                };
                Ok(Analysed { codes: a.all_codes(), error_codes, sv, veryl_trace: tr })
            }
        }
    })
}

pub fn run_module(m: &SvModule, stim: &Stimulus) -> CaseOut {
    let mut out = CaseOut { features: m.features.clone(), sv: m.text.clone(), clocked: m.clock.is_some(), stim: Some(stim.clone()), ..Default::default() };
    // the original must be valid SV that svref can run: otherwise the generator is at fault
    if let Err(e) = svref::syntax_gate(&m.text) {
        out.stage = "svgen_bug".into();
        out.detail = format!("sv-parser rejects the generated module: {}", e.chars().take(200).collect::<String>());
        return out;
    }
    let proto = proto_of(&m.clock);
    let orig = match drive::run_svref(&[m.text.clone()], &m.top, "clk", "rst", &m.inputs, &m.outputs, stim, proto, false) {
        Ok(t) => t,
        Err(e) => {
            out.stage = "svref_unsupported".into();
            out.detail = format!("original: {}", e.class());
            return out;
        }
    };
    out.constructs = orig.constructs.clone();
    out.sign_decls = m.sign_decls.clone();
    out.sign_uses = m.sign_uses;
    if m.sign_decls.iter().any(|d| d.2 == "unsigned") {
        // non-vacuity of the sign-sensitive uses: the same module with `signed` instead of `unsigned` must behave differently
        let twin = m.text.replace(" unsigned", " signed");
        out.signed_twin_differs = drive::run_svref(&[twin], &m.top, "clk", "rst", &m.inputs, &m.outputs, stim, proto, false)
            .ok()
            .map(|t| drive::compare_sv(&orig, &t, &m.outputs).mismatch.is_some());
    }
    let tr = match veryl_translator::translate_str(&m.text, "m.sv", true, NewlineStyle::Auto) {
        Ok(t) => t,
        Err(e) => {
            out.stage = "translator_parse_error".into();
            out.detail = format!("{e}").chars().take(200).collect();
            return out;
        }
    };
    out.veryl = tr.veryl.clone();
    if !tr.unsupported.is_empty() {
        out.stage = "reported_unsupported".into();
        out.unsupported_kinds = tr.unsupported.iter().map(|u| u.kind.clone()).collect();
        return out;
    }
    let mut a = match analyse(&tr.veryl, m, stim) {
        Err(p) => {
            out.stage = "panic".into();
            out.detail = format!("{}: {}", p.location, p.message.lines().next().unwrap_or(""));
            return out;
        }
        Ok(Err(e)) => {
            out.stage = "unparsable".into();
            out.detail = e.chars().take(600).collect();
            return out;
        }
        Ok(Ok(a)) => a,
    };
    out.codes = a.codes.clone();
    if !a.error_codes.is_empty() {
        out.stage = "rejected".into();
        out.codes = a.error_codes.clone();
        // additional arm: repair the clock/reset port types textually and go on to the behavioural comparison
        let only_clock_reset = a.error_codes.iter().all(|c| c.contains("invalid_clock") || c.contains("invalid_reset"));
        if let (Some(ci), true) = (&m.clock, only_clock_reset) {
            let fixed = repair_clock_reset(&tr.veryl, ci);
            match analyse(&fixed, m, stim) {
                Ok(Ok(a2)) if a2.error_codes.is_empty() => {
                    out.repaired = true;
                    a = a2;
                }
                Ok(Ok(a2)) => {
                    out.repaired_stage = "rejected".into();
                    out.repaired_codes = a2.error_codes;
                    return out;
                }
                Ok(Err(e)) => {
                    out.repaired_stage = "unparsable".into();
                    out.detail = e.chars().take(300).collect();
                    return out;
                }
                Err(_) => return out,
            }
        } else {
            return out;
        }
    } else {
        out.stage = "ok".into();
    }
    if FAULT_MUTATE_EMITTED.load(Ordering::Relaxed) {
        a.sv = if a.sv.contains(" ^ ") { a.sv.replacen(" ^ ", " | ", 1) } else { a.sv.replacen(" + ", " - ", 1) };
    }
    out.emitted_sv = a.sv.clone();
    if let Err(e) = svref::syntax_gate(&a.sv) {
        let s = if out.repaired { &mut out.repaired_stage } else { &mut out.stage };
        *s = "emitted_gate".into();
        out.detail = e.chars().take(200).collect();
        return out;
    }
    let top = drive::top_name(&a.sv, &m.top);
    match drive::run_svref(&[a.sv.clone()], &top, "clk", "rst", &m.inputs, &m.outputs, stim, proto, false) {
        Ok(t) => {
            let c = drive::compare_sv(&orig, &t, &m.outputs);
            out.compared = c.compared;
            out.mismatch = c.mismatch;
            if out.repaired {
                out.repaired_stage = "ok".into();
            }
            // third witness
            out.third_witness = match &a.veryl_trace {
                Err(e) => format!("not_run: {}", e.lines().next().unwrap_or("")),
                Ok(vt) => {
                    let c3 = drive::compare(&orig, vt, &design_of(m, ""), stim);
                    match c3.mismatch {
                        None => "agrees".into(),
                        Some(mm) => format!("disagrees at cycle {} on {}: svref(original) {} vs veryl simulator {}", mm["cycle"], mm["output"], mm["svref_value"], mm["veryl_sim_value"]),
                    }
                }
            };
        }
        Err(e) => {
            let s = if out.repaired { &mut out.repaired_stage } else { &mut out.stage };
            *s = "svref_unsupported".into();
            out.detail = format!("re-emitted: {}", e.class());
        }
    }
    out
}

/// Token class of a Veryl parse error for the signature: the offending text is not stable, the feature is.
fn feature_key(f: &[String]) -> String {
    f.join("+")
}

fn report(run: &Run, i: u64, phase: &str, o: &CaseOut, pass: &Mutex<BTreeMap<String, (u64, u64)>>) {
    let fk = feature_key(&o.features);
    run.count("modules_generated", 1);
    run.count(&format!("stage_{}", o.stage), 1);
    let replay = || json!({"case_index": i, "phase": phase, "features": o.features, "sv": o.sv, "translated_veryl": o.veryl, "emitted_sv": o.emitted_sv,
        "stimulus": o.stim.as_ref().map(drive::stim_to_json), "detail": o.detail});
    let mut passed = false;
    match o.stage.as_str() {
        "svgen_bug" | "translator_parse_error" | "panic" => run.note(format!("case {i} [{fk}]: {}: {}", o.stage, o.detail)),
        "svref_unsupported" => {
            run.count("modules_svref_unsupported", 1);
            run.seen("svref_unsupported_classes", &o.detail);
        }
        "reported_unsupported" => {
            for k in &o.unsupported_kinds {
                run.seen("translator_reported_unsupported_kinds", k);
            }
        }
        "unparsable" => {
            run.count("programs", 1);
            run.violation(
                &format!("translated-veryl-unparsable:{fk}"),
                &format!("translator reported nothing unsupported for feature [{fk}] but the produced Veryl does not parse: {}", o.detail.lines().find(|l| !l.trim().is_empty()).unwrap_or("").chars().take(160).collect::<String>()),
                replay(),
            );
        }
        "rejected" => {
            run.count("programs", 1);
            let codes = o.codes.join("+");
            run.violation(
                &format!("translated-veryl-rejected:{codes}"),
                &format!("translator reported nothing unsupported (feature [{fk}]) but the produced Veryl has analyzer errors: {codes}"),
                replay(),
            );
        }
        "emitted_gate" => {
            run.count("programs", 1);
            run.violation(&format!("re-emitted-sv-invalid:{fk}"), &format!("SV emitted from the translated Veryl is rejected by sv-parser (feature [{fk}]): {}", o.detail), replay());
        }
        "ok" => {
            run.count("programs", 1);
            run.count("programs_first_clause_ok", 1);
            run.count("disagreements_checked", o.compared as i64);
            run.count("port_value_comparisons", o.compared as i64);
            match &o.mismatch {
                Some(m) => run.violation(
                    &format!("behaviour-differs:{fk}"),
                    &format!("svref(original SV) and svref(emit(translated Veryl)) differ for feature [{fk}] at cycle {} on {}: {} vs {}", m["cycle"], m["output"], m["a"], m["b"]),
                    replay(),
                ),
                None => {
                    passed = true;
                    run.count("programs_behaviour_equal", 1);
                }
            }
        }
        _ => {}
    }
    if o.repaired || !o.repaired_stage.is_empty() {
        // additional arm, clearly separate: clocked modules after textual retyping of clk/rst
        run.count("repaired_arm_modules", 1);
        run.count(&format!("repaired_arm_stage_{}", if o.repaired_stage.is_empty() { "none" } else { &o.repaired_stage }), 1);
        match o.repaired_stage.as_str() {
            "ok" => {
                run.count("repaired_arm_port_value_comparisons", o.compared as i64);
                run.count("disagreements_checked", o.compared as i64);
                match &o.mismatch {
                    Some(m) => run.violation(
                        &format!("behaviour-differs[repaired-clock-reset-types]:{fk}"),
                        &format!(
                            "after retyping clk/rst (harness-side repair of the known typing defect) svref(original) and svref(emit(translated)) differ for feature [{fk}] at cycle {} on {}: {} vs {}",
                            m["cycle"], m["output"], m["a"], m["b"]
                        ),
                        replay(),
                    ),
                    None => {
                        passed = true;
                        run.count("repaired_arm_behaviour_equal", 1);
                    }
                }
            }
            "rejected" => run.violation(
                &format!("translated-veryl-rejected[repaired-clock-reset-types]:{}", o.repaired_codes.join("+")),
                &format!("after retyping clk/rst the translated Veryl (feature [{fk}]) still has analyzer errors: {}", o.repaired_codes.join("+")),
                replay(),
            ),
            "emitted_gate" => run.violation(&format!("re-emitted-sv-invalid[repaired-clock-reset-types]:{fk}"), &format!("repaired arm: emitted SV invalid: {}", o.detail), replay()),
            _ => {}
        }
    }
    if !o.third_witness.is_empty() {
        let k = o.third_witness.split(':').next().unwrap_or("").split(' ').next().unwrap_or("").to_string();
        run.count(&format!("third_witness_{k}"), 1);
        if k == "disagrees" && passed {
            run.note(format!("case {i} [{fk}]: Veryl simulator (third witness) {} while both svref runs agree — C01's domain", o.third_witness));
        }
    }
    for (site, ty, sg) in &o.sign_decls {
        run.count(&format!("decls_with_{}", match sg.as_str() { "unsigned" => "explicit_unsigned", "signed" => "explicit_signed", _ => "no_signing_keyword" }), 1);
        run.seen("signing_declaration_shapes", &format!("{site}:{ty}:{sg}"));
        if sg == "unsigned" {
            run.count("sign_sensitive_uses_of_explicit_unsigned", o.sign_uses as i64 / o.sign_decls.len().max(1) as i64);
            if matches!(ty.as_str(), "logic" | "bit" | "reg") {
                run.count("decls_with_explicit_unsigned_on_vector_type", 1);
            }
        }
    }
    if !o.sign_decls.is_empty() {
        run.count("sign_sensitive_uses_total", o.sign_uses as i64);
    }
    match o.signed_twin_differs {
        Some(true) => run.count("explicit_unsigned_modules_whose_signed_twin_behaves_differently", 1),
        Some(false) => {
            run.count("explicit_unsigned_modules_whose_signed_twin_behaves_the_same", 1);
            run.note(format!("case {i} [{fk}]: the `signed` twin of this explicit-unsigned module behaves identically (uses not sign-sensitive on this stimulus)"));
        }
        None => {}
    }
    for c in &o.constructs {
        run.seen("svref_constructs", c);
    }
    for f in &o.features {
        run.seen("features_exercised", f);
    }
    if o.stage != "svgen_bug" && o.stage != "svref_unsupported" {
        run.nontrivial(hash_str(&o.sv));
    }
    if phase == "single" || phase == "sgn-single" {
        let mut p = pass.lock().unwrap();
        let e = p.entry(o.features[0].clone()).or_insert((0, 0));
        e.0 += 1;
        if passed {
            e.1 += 1;
        }
    }
    run.sample(json!({"case_index": i, "phase": phase, "features": o.features, "stage": o.stage, "repaired_arm": o.repaired_stage, "sv": o.sv, "translated_veryl": o.veryl}));
}

fn gen_case(seed: u64, tag: &str, i: u64, feats: &[&str], cycles: usize) -> (SvModule, Stimulus) {
    let mut rng = Rng::for_case(seed, tag, i);
    let m = svgen::generate(&mut rng, feats);
    let d = design_of(&m, "");
    let mut stim = stimulus(&d, &mut rng, cycles);
    // ports declared by a `sgn_port_*` feature (`up<N>`): drive the top bit high in two cycles out of three
    for (k, p) in m.inputs.iter().enumerate() {
        if p.name.starts_with("up") {
            for (c, cyc) in stim.cycles.iter_mut().enumerate() {
                if c % 3 != 2 {
                    let top = p.width - 1;
                    cyc.inputs[k].payload[top / 64] |= 1u64 << (top % 64);
                }
            }
        }
    }
    (m, stim)
}

pub fn main(args: Args) {
    let run = Arc::new(Run::new(
        args.clone(),
        "translation_validation",
        "cases = SvGen modules: a fixed safe base (ANSI ports, assign over + - & | ^ ~) plus ONE feature under test from the translator's subset \
         (operators, selects, casts, params, always_comb forms, always_ff with every reset style, generate, instances, functions, typedefs), then combinations of the features \
         that passed alone; each module is translated with veryl_translator::translate_str; if no unsupported construct is reported the Veryl must parse and analyse without \
         errors and svref(original) must equal svref(emit(translated)) on a random reset+input stimulus; non-trivial = module accepted by sv-parser and svref; distinct = distinct SV texts",
    ));
    run.assume("svref runs both the original and the re-emitted SV, so an svref bug common to both cancels (acceptable for a preservation property); sv-parser is the syntax gate");
    run.assume("clocked modules fail the first clause because of the known clk/rst typing defect; an ADDITIONAL arm retypes the clk/rst ports textually (counters repaired_arm_*) to reach the behavioural comparison — it never hides the first-clause failure");
    crate::c01::selftest_or_inconclusive(&run);
    let cycles = args.budget("cycles", 24, 60) as usize;
    let per_feature = args.budget("per_feature", 3, 60);
    let combos = args.budget("combos", 40, 4000);
    let seed = args.seed;
    let pass: Arc<Mutex<BTreeMap<String, (u64, u64)>>> = Arc::new(Mutex::new(BTreeMap::new()));
    if args.get("fault_mutate_emitted").is_some() {
        FAULT_MUTATE_EMITTED.store(true, Ordering::Relaxed);
        run.inconclusive("fault injection active (sensitivity experiment): verdict is not about /repo".into());
    }

    if let Some(rp) = &args.replay {
        let v: Json = serde_json::from_str(&std::fs::read_to_string(rp).expect("replay")).unwrap();
        let feats: Vec<String> = v["case"]["features"].as_array().map(|a| a.iter().filter_map(|x| x.as_str().map(|s| s.to_string())).collect()).unwrap_or_default();
        let sv = v["case"]["sv"].as_str().unwrap_or("").to_string();
        let stim = drive::stim_from_json(&v["case"]["stimulus"]).expect("stimulus");
        let fr: Vec<&str> = feats.iter().map(|s| s.as_str()).collect();
        // regenerate the port/clock description from the features, then substitute the stored text
        let mut rng = Rng::new(0);
        let mut m = svgen::generate(&mut rng, &fr);
        m.text = sv;
        let o = run_module(&m, &stim);
        println!("replay: stage={} repaired_arm={} codes={:?} detail={}", o.stage, o.repaired_stage, o.codes, o.detail.lines().next().unwrap_or(""));
        println!("--- translated Veryl ---\n{}", o.veryl);
        run.eval();
        report(&run, v["case"]["case_index"].as_u64().unwrap_or(0), "replay", &o, &pass);
        run.finish(&[]);
    }

    // phase 1: one feature per module
    let n1 = FEATURES.len() as u64 * per_feature;
    {
        let (run2, pass2) = (run.clone(), pass.clone());
        par_cases(
            n1,
            args.jobs.min(16),
            STACK_64M,
            move |i| {
                let f = FEATURES[(i as usize) % FEATURES.len()];
                let (m, stim) = gen_case(seed, "C22", i, &[f], cycles);
                run_module(&m, &stim)
            },
            move |i, r| {
                run2.eval();
                match r {
                    Err(p) => run2.note(format!("case {i}: panic at {}: {}", p.location, p.message.lines().next().unwrap_or(""))),
                    Ok(o) => report(&run2, i, "single", &o, &pass2),
                }
            },
        );
    }
    // phase 1b: declaration-signing features (site x type x {none, signed, unsigned}), one per module
    let sgn: Arc<Vec<String>> = Arc::new(svgen::sgn_features());
    let per_sgn = args.budget("per_sgn_feature", 2, 20);
    {
        let (run2, pass2, sgn2) = (run.clone(), pass.clone(), sgn.clone());
        par_cases(
            sgn.len() as u64 * per_sgn,
            args.jobs.min(16),
            STACK_64M,
            move |i| {
                let f = sgn2[(i as usize) % sgn2.len()].clone();
                let (m, stim) = gen_case(seed, "C22sgn", i, &[f.as_str()], cycles);
                run_module(&m, &stim)
            },
            move |i, r| {
                run2.eval();
                match r {
                    Err(p) => run2.note(format!("sgn case {i}: panic at {}: {}", p.location, p.message.lines().next().unwrap_or(""))),
                    Ok(o) => report(&run2, i, "sgn-single", &o, &pass2),
                }
            },
        );
    }
    // phase 2: combinations of the features that passed alone (in every module of phase 1)
    let passing: Vec<&'static str> = {
        let p = pass.lock().unwrap();
        FEATURES.iter().copied().filter(|f| p.get(*f).map(|(n, ok)| *n > 0 && n == ok).unwrap_or(false)).collect()
    };
    run.set_extra("features_passing_alone", json!(passing));
    {
        let p = pass.lock().unwrap();
        let failing: Vec<String> = p.iter().filter(|(_, (n, ok))| ok < n).map(|(f, (n, ok))| format!("{f}:{ok}/{n}")).collect();
        run.set_extra("features_failing_alone", json!(failing));
    }
    if passing.len() >= 2 {
        let (run2, pass2) = (run.clone(), pass.clone());
        let passing2 = passing.clone();
        par_cases(
            combos,
            args.jobs.min(16),
            STACK_64M,
            move |i| {
                let mut rng = Rng::for_case(seed, "C22combo", i);
                let k = 2 + rng.usize(3.min(passing2.len() - 1));
                let mut fs = passing2.clone();
                rng.shuffle(&mut fs);
                fs.truncate(k);
                fs.sort();
                let (m, stim) = gen_case(seed, "C22combo-gen", i, &fs, cycles);
                run_module(&m, &stim)
            },
            move |i, r| {
                run2.eval();
                match r {
                    Err(p) => run2.note(format!("combo {i}: panic at {}: {}", p.location, p.message.lines().next().unwrap_or(""))),
                    Ok(o) => report(&run2, i, "combo", &o, &pass2),
                }
            },
        );
    }
    // phase 2b: every signing feature that passed alone, combined with one or two base features that passed alone
    let sgn_passing: Vec<String> = {
        let p = pass.lock().unwrap();
        sgn.iter().filter(|f| p.get(*f).map(|(n, ok)| *n > 0 && n == ok).unwrap_or(false)).cloned().collect()
    };
    run.set_extra("signing_features_passing_alone", json!(sgn_passing));
    {
        let p = pass.lock().unwrap();
        let failing: Vec<String> = sgn.iter().filter_map(|f| p.get(f).filter(|(n, ok)| ok < n).map(|(n, ok)| format!("{f}:{ok}/{n}"))).collect();
        run.set_extra("signing_features_failing_alone", json!(failing));
    }
    let sgn_combos = args.budget("sgn_combos", 40, 1500);
    // base features that do not declare header parameters / extra ports of their own keep the combination simple
    let base_pool: Vec<&'static str> = passing.iter().copied().filter(|f| !f.starts_with("param_") && !f.starts_with("ff_")).collect();
    if !sgn_passing.is_empty() && !base_pool.is_empty() {
        let (run2, pass2) = (run.clone(), pass.clone());
        par_cases(
            sgn_combos,
            args.jobs.min(16),
            STACK_64M,
            move |i| {
                let mut rng = Rng::for_case(seed, "C22sgncombo", i);
                let sf = sgn_passing[(i as usize) % sgn_passing.len()].clone();
                let mut fs: Vec<String> = vec![sf];
                let k = 1 + rng.usize(2);
                for _ in 0..k {
                    let b = rng.pick(&base_pool).to_string();
                    if !fs.contains(&b) {
                        fs.push(b);
                    }
                }
                fs.sort();
                let fr: Vec<&str> = fs.iter().map(|s| s.as_str()).collect();
                let (m, stim) = gen_case(seed, "C22sgncombo-gen", i, &fr, cycles);
                run_module(&m, &stim)
            },
            move |i, r| {
                run2.eval();
                match r {
                    Err(p) => run2.note(format!("sgn combo {i}: panic at {}: {}", p.location, p.message.lines().next().unwrap_or(""))),
                    Ok(o) => report(&run2, i, "sgn-combo", &o, &pass2),
                }
            },
        );
    }
    let gen_ = run.get_count("modules_generated");
    let uns = run.get_count("modules_svref_unsupported");
    if gen_ > 0 && uns * 2 > gen_ {
        run.inconclusive(format!("svref could not interpret {uns} of {gen_} modules"));
    }
    if args.get("per_feature").is_some() || args.get("combos").is_some() || args.get("per_sgn_feature").is_some() || args.get("sgn_combos").is_some() {
        run.finish(&[]);
    }
    run.finish(&[("programs", 60), ("features_exercised", 40), ("programs_first_clause_ok", 10), ("port_value_comparisons", 500), ("decls_with_explicit_unsigned", 20), ("decls_with_explicit_unsigned_on_vector_type", 10), ("decls_with_explicit_signed", 20), ("decls_with_no_signing_keyword", 20), ("sign_sensitive_uses_of_explicit_unsigned", 80), ("explicit_unsigned_modules_whose_signed_twin_behaves_differently", 15), ("signing_declaration_shapes", 40)]);
}
