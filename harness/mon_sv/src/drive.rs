//! Shared by C01/C26/C22: drive svref with the same reset/clock protocol the
//! Veryl simulator driver (`vgen::sim::run_on`) uses, and compare traces.

use crate::svref::{Sim, SvErr};
use refmodel::bv4::Bv;
use vcommon::{Json, json};
use veryl_metadata::{ClockType, Metadata, ResetType};
use vgen::sim::{CycleIn, Stimulus, TVal, Trace};
use vgen::{Design, Port};

pub const CONFIGS: &[(&str, &str)] = &[
    ("posedge", "async_low"),
    ("posedge", "async_high"),
    ("posedge", "sync_low"),
    ("posedge", "sync_high"),
    ("negedge", "async_low"),
    ("negedge", "async_high"),
    ("negedge", "sync_low"),
    ("negedge", "sync_high"),
];

pub fn build_toml(clock: &str, reset: &str) -> String {
    format!("clock_type = \"{clock}\"\nreset_type = \"{reset}\"")
}

/// How the testbench must drive clock and reset: which clock edge is active and
/// which reset level is active.  Taken from the Veryl *source* (explicit port
/// types) and the project settings — never from the emitted SV.
#[derive(Clone, Copy, Debug, PartialEq, Eq)]
pub struct Protocol {
    pub clock_posedge: bool,
    pub reset_active_high: bool,
}

/// Port type words of `i_clk` / `i_rst` in the `module Top (` header of a DesignGen text.
pub fn explicit_types(text: &str) -> (Option<String>, Option<String>) {
    let mut in_hdr = false;
    let (mut c, mut r) = (None, None);
    for l in text.lines() {
        if l.starts_with("module Top") {
            in_hdr = true;
            continue;
        }
        if in_hdr {
            if l.starts_with(") {") {
                break;
            }
            let t = l.trim().trim_end_matches(',');
            if let Some(rest) = t.strip_prefix("i_clk: input ") {
                c = Some(rest.trim().to_string());
            }
            if let Some(rest) = t.strip_prefix("i_rst: input ") {
                r = Some(rest.trim().to_string());
            }
        }
    }
    (c, r)
}

pub fn protocol_for(text: &str, md: &Metadata) -> Protocol {
    let (c, r) = explicit_types(text);
    let clock_posedge = match c.as_deref() {
        Some("clock_posedge") => true,
        Some("clock_negedge") => false,
        _ => md.build.clock_type == ClockType::PosEdge,
    };
    let reset_active_high = match r.as_deref() {
        Some("reset_async_high") | Some("reset_sync_high") => true,
        Some("reset_async_low") | Some("reset_sync_low") => false,
        _ => matches!(md.build.reset_type, ResetType::AsyncHigh | ResetType::SyncHigh),
    };
    Protocol { clock_posedge, reset_active_high }
}

pub fn tval_to_bv(t: &TVal, signed: bool) -> Bv {
    Bv::from_words(&t.payload, &t.xz, t.width, signed)
}

pub fn bv_to_tval(b: &Bv) -> TVal {
    let (payload, xz) = b.to_words();
    TVal { width: b.width(), payload, xz }
}

/// svref trace: per cycle, the output values and whether any variable of the design carried X/Z.
#[derive(Clone, Debug)]
pub struct SvTrace {
    pub steps: Vec<Vec<TVal>>,
    pub tainted: Vec<bool>,
    pub xz_vars_first: Vec<String>,
    pub constructs: Vec<String>,
}

fn bit(v: bool) -> Bv {
    Bv::from_u64(v as u64, 1, false)
}

/// Name of the emitted top module: `<prj>_Top` (or `Top` with omit_project_prefix).
pub fn top_name(sv: &str, top: &str) -> String {
    let toks = vcommon::lex::significant(sv, true);
    for w in toks.windows(2) {
        if w[0] == "module" && (w[1] == top || w[1].ends_with(&format!("_{top}"))) {
            return w[1].clone();
        }
    }
    top.to_string()
}

/// Run `stim` on the SV sources.  Protocol per cycle (mirrors `Simulator::set` +
/// `step`/`step_reset` + `get`): drive inputs; if reset: drive reset active (an
/// asynchronous reset fires on this edge); active clock edge; deassert reset;
/// sample outputs; inactive clock edge.
pub fn run_svref(
    srcs: &[String],
    top: &str,
    clock: &str,
    reset: &str,
    inputs: &[Port],
    outputs: &[Port],
    stim: &Stimulus,
    proto: Protocol,
    fault_flip_edges: bool,
) -> Result<SvTrace, SvErr> {
    let mut sim = Sim::build_with(srcs, top, fault_flip_edges)?;
    let clk_active = bit(proto.clock_posedge);
    let clk_idle = bit(!proto.clock_posedge);
    let rst_active = bit(proto.reset_active_high);
    let rst_idle = bit(!proto.reset_active_high);
    let has_rst = sim.port(reset).is_some();
    let has_clk = sim.port(clock).is_some();
    if has_clk {
        sim.poke(clock, &clk_idle)?;
    }
    if has_rst {
        sim.poke(reset, &rst_idle)?;
    }
    if let Some(c0) = stim.cycles.first() {
        for (p, v) in inputs.iter().zip(c0.inputs.iter()) {
            sim.poke(&p.name, &tval_to_bv(v, p.signed))?;
        }
    }
    sim.init()?;
    let mut steps = vec![];
    let mut tainted = vec![];
    let mut xz_first = vec![];
    for cyc in &stim.cycles {
        for (p, v) in inputs.iter().zip(cyc.inputs.iter()) {
            sim.poke(&p.name, &tval_to_bv(v, p.signed))?;
        }
        sim.eval()?;
        if cyc.reset && has_rst {
            sim.poke(reset, &rst_active)?;
            sim.eval()?;
        }
        if has_clk {
            sim.poke(clock, &clk_active)?;
            sim.eval()?;
        }
        if cyc.reset && has_rst {
            sim.poke(reset, &rst_idle)?;
            sim.eval()?;
        }
        let mut row = vec![];
        for p in outputs {
            row.push(bv_to_tval(&sim.peek(&p.name)?));
        }
        let t = sim.any_xz();
        if t && xz_first.is_empty() {
            xz_first = sim.xz_vars().into_iter().take(6).collect();
        }
        steps.push(row);
        tainted.push(t);
        if has_clk {
            sim.poke(clock, &clk_idle)?;
            sim.eval()?;
        }
    }
    Ok(SvTrace { steps, tainted, xz_vars_first: xz_first, constructs: sim.constructs.iter().map(|s| s.to_string()).collect() })
}

#[derive(Default, Debug, Clone)]
pub struct Cmp {
    pub compared: u64,
    pub xmasked: u64,
    pub mismatch: Option<Json>,
}

/// Compare an svref trace (reference) with a Veryl-simulator trace.
pub fn compare(sv: &SvTrace, ver: &Trace, d: &Design, stim: &Stimulus) -> Cmp {
    let mut out = Cmp::default();
    for c in 0..sv.steps.len().min(ver.steps.len()) {
        for (o, p) in d.outputs.iter().enumerate() {
            let a = &sv.steps[c][o];
            let b = &ver.steps[c][o];
            if sv.tainted[c] || a.has_xz() {
                out.xmasked += 1;
                continue;
            }
            out.compared += 1;
            if (a.width != b.width || a.payload != b.payload || b.has_xz()) && out.mismatch.is_none() {
                out.mismatch = Some(json!({
                    "cycle": c,
                    "output": p.name,
                    "svref_value": a.hex(),
                    "veryl_sim_value": b.hex(),
                    "svref_row": sv.steps[c].iter().map(|v| v.hex()).collect::<Vec<_>>(),
                    "veryl_sim_row": ver.steps[c].iter().map(|v| v.hex()).collect::<Vec<_>>(),
                    "inputs_at_cycle": stim.cycles[c].inputs.iter().map(|v| v.hex()).collect::<Vec<_>>(),
                    "reset_at_cycle": stim.cycles[c].reset,
                }));
            }
        }
    }
    out
}

/// Compare two svref traces (C26/C22): equal values incl. X.
pub fn compare_sv(a: &SvTrace, b: &SvTrace, outputs: &[Port]) -> Cmp {
    let mut out = Cmp::default();
    for c in 0..a.steps.len().min(b.steps.len()) {
        for (o, p) in outputs.iter().enumerate() {
            out.compared += 1;
            if a.steps[c][o] != b.steps[c][o] && out.mismatch.is_none() {
                out.mismatch = Some(json!({"cycle": c, "output": p.name, "a": a.steps[c][o].hex(), "b": b.steps[c][o].hex()}));
            }
        }
    }
    out
}

pub fn stim_to_json(s: &Stimulus) -> Json {
    Json::Array(
        s.cycles
            .iter()
            .map(|c| json!({"reset": c.reset, "inputs": c.inputs.iter().map(|v| json!({"w": v.width, "p": v.payload})).collect::<Vec<_>>()}))
            .collect(),
    )
}

pub fn stim_from_json(j: &Json) -> Option<Stimulus> {
    let mut cycles = vec![];
    for c in j.as_array()? {
        let reset = c["reset"].as_bool()?;
        let mut inputs = vec![];
        for v in c["inputs"].as_array()? {
            let width = v["w"].as_u64()? as usize;
            let payload: Vec<u64> = v["p"].as_array()?.iter().filter_map(|x| x.as_u64()).collect();
            let xz = vec![0; payload.len()];
            inputs.push(TVal { width, payload, xz });
        }
        cycles.push(CycleIn { reset, inputs });
    }
    Some(Stimulus { cycles })
}
