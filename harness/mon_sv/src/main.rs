//! mon_sv — monitors that need the SystemVerilog reference interpreter (svref):
//! C01 (emitted SV == Veryl simulator), C26 (presentation-only build options),
//! C22 (SV -> Veryl translation preserves behaviour).  Dispatches on --prop.

mod c01;
mod c22;
mod c26;
mod casegen;
mod drive;
mod dump;
mod replay;
mod svgen;
mod svref;
mod triage;

use vcommon::Args;

fn main() {
    vcommon::pool::install_panic_hook();
    let args = Args::parse();
    match args.prop.as_str() {
        "C01" => c01::main(args),
        "C26" => c26::main(args),
        "C22" => c22::main(args),
        "SVDUMP" => dump::main(args),
        "SVDIFF" => dump::diff(args),
        "SVNEUT" => dump::neut(args),
        "SVSELF" => match svref::selftest::self_test() {
            Ok(n) => println!("svref self-test ok: {n} groups"),
            Err(e) => {
                println!("{e}");
                std::process::exit(2);
            }
        },
        p => {
            eprintln!("mon_sv: unknown property {p}");
            std::process::exit(2);
        }
    }
}
