//! mon_sv — monitors; dispatches on --prop.

use vcommon::Args;

fn main() {
    vcommon::pool::install_panic_hook();
    let args = Args::parse();
    match args.prop.as_str() {
        p => {
            eprintln!("mon_sv: unknown property {p}");
            std::process::exit(2);
        }
    }
}
