//! SvGen — small SystemVerilog modules in the subset `veryl translate` claims
//! to support.  Every module is a fixed safe base (ANSI ports, one `assign`
//! over `+ - & | ^ ~` and sized literals) plus exactly ONE feature under test
//! (or a set of features in "combo" mode), so that a failure is attributed to a
//! construct class and the violation signature is stable across seeds.
//!
//! Fixed interface: `clk`, `rst`, `a[7:0]`, `b[7:0]`, `c[3:0]` → `y0[7:0]`, `y1[7:0]`
//! (some features add a signed input `s[5:0]` or a parameterised width).

use vcommon::Rng;
use vgen::Port;

#[derive(Clone, Copy, Debug, PartialEq, Eq)]
pub struct ClockInfo {
    pub posedge: bool,
    /// None = no reset; Some((asynchronous, active_high))
    pub reset: Option<(bool, bool)>,
}

#[derive(Clone, Debug)]
pub struct SvModule {
    pub text: String,
    pub top: String,
    pub inputs: Vec<Port>,
    pub outputs: Vec<Port>,
    pub clock: Option<ClockInfo>,
    pub features: Vec<String>,
    /// (site, type, signing) of every declaration made by a `sgn_*` feature
    pub sign_decls: Vec<(String, String, String)>,
    /// number of sign-sensitive uses (widening, >>>, <=, /, mix with $signed) of those objects
    pub sign_uses: usize,
}

/// Declaration-signing features `sgn_<site>_<type>_<signing>`: one object declared at `site`
/// (port, var, param = localparam, hparam = header parameter, farg = function input argument) with `type`
/// and an explicit / absent signing keyword, then used in sign-sensitive contexts with its top bit set.
pub fn sgn_features() -> Vec<String> {
    let mut v = vec![];
    let sites_types: &[(&str, &[&str])] = &[
        ("port", &["logic", "bit", "reg"]),
        ("var", &["logic", "bit", "reg", "int", "integer", "byte", "shortint", "longint"]),
        ("param", &["logic", "int"]),
        ("hparam", &["logic"]),
        ("farg", &["logic", "int", "byte"]),
    ];
    for (site, tys) in sites_types {
        for ty in *tys {
            for sg in ["none", "signed", "unsigned"] {
                v.push(format!("sgn_{site}_{ty}_{sg}"));
            }
        }
    }
    v
}

pub const FEATURES: &[&str] = &[
    "base",
    "shift_logical",
    "shift_arith_signed",
    "eq_ne",
    "le_ge",
    "lt_gt",
    "logical_ops",
    "reduction",
    "ternary",
    "concat",
    "replication",
    "select_const",
    "select_indexed",
    "select_dynamic",
    "size_cast",
    "sign_functions",
    "unsized_fill_literal",
    "signed_literal",
    "signed_port",
    "param_typed_unsigned",
    "param_typed_int",
    "param_implicit",
    "localparam_typed",
    "always_comb_assign",
    "always_comb_if",
    "always_comb_if_else_chain",
    "always_comb_case",
    "always_comb_for",
    "always_comb_sequential",
    "ff_sync_high",
    "ff_sync_low",
    "ff_async_high",
    "ff_async_low",
    "ff_no_reset",
    "ff_negedge_clock",
    "ff_enable",
    "ff_two_registers",
    "generate_for",
    "generate_if",
    "instance",
    "instance_param",
    "function_return",
    "function_name_assign",
    "typedef_alias",
    "typedef_enum",
    "typedef_struct",
    "multi_declarator",
    "unpacked_array",
    "compound_assign",
    "mul_div_mod",
    "comments",
];

struct G<'a> {
    rng: &'a mut Rng,
}

impl<'a> G<'a> {
    fn lit(&mut self, w: usize) -> String {
        let v = self.rng.next_u64() & ((1u64 << w) - 1);
        match self.rng.below(3) {
            0 => format!("{w}'d{v}"),
            1 => format!("{w}'h{v:x}"),
            _ => format!("{w}'b{v:b}"),
        }
    }
    fn opnd(&mut self, env: &[&str]) -> String {
        if self.rng.chance(1, 5) { self.lit(8) } else { self.rng.pick(env).to_string() }
    }
    /// safe expression: operators spelled identically in both languages
    fn safe(&mut self, env: &[&str], depth: usize) -> String {
        if depth == 0 {
            return self.opnd(env);
        }
        match self.rng.below(7) {
            0 => format!("(~{})", self.safe(env, depth - 1)),
            1 => self.opnd(env),
            _ => {
                let op = *self.rng.pick(&["+", "-", "&", "|", "^"]);
                format!("({} {} {})", self.safe(env, depth - 1), op, self.safe(env, depth - 1))
            }
        }
    }
}

fn port(name: &str, width: usize, signed: bool, output: bool) -> Port {
    Port { name: name.into(), width, signed, output }
}

/// Generate one module exercising `features` (first entry names the module's class).
pub fn generate(rng: &mut Rng, features: &[&str]) -> SvModule {
    let mut g = G { rng };
    let env8: Vec<&str> = vec!["a", "b", "{4'd0, c}"];
    let has = |f: &str| features.contains(&f);
    let mut hdr_params: Vec<String> = vec![];
    let mut sign_decls: Vec<(String, String, String)> = vec![];
    let mut sign_uses = 0usize;
    let mut extra_ports = String::new();
    let mut inputs = vec![port("a", 8, false, false), port("b", 8, false, false), port("c", 4, false, false)];
    let mut decls = String::new();
    let mut body = String::new();
    let mut pre = String::new(); // items before the module (sub-modules, packages)
    let mut clock: Option<ClockInfo> = None;
    let mut a_ty = "logic [7:0]".to_string();
    // y1 is driven by the first feature that wants it; y0 always by the base assign
    let mut y1_driven = false;
    let mut y1_terms: Vec<String> = vec![]; // 8-bit signals XORed into y1 when nothing drives it directly
    let mut uid = 0;
    let mut fresh = |p: &str| {
        uid += 1;
        format!("{p}{uid}")
    };

    // ---- header features
    if has("param_typed_unsigned") {
        hdr_params.retain(|p| !p.ends_with("W = 8")); // the three W-parameter features exclude each other: the last one wins
        hdr_params.push("parameter int unsigned W = 8".into());
        a_ty = "logic [W-1:0]".into();
        y1_terms.push("(a + W)".into());
    }
    if has("param_typed_int") {
        hdr_params.retain(|p| !p.ends_with("W = 8")); // the three W-parameter features exclude each other: the last one wins
        hdr_params.push("parameter int W = 8".into());
        a_ty = "logic [W-1:0]".into();
        y1_terms.push("(a + W)".into());
    }
    if has("param_implicit") {
        hdr_params.retain(|p| !p.ends_with("W = 8")); // the three W-parameter features exclude each other: the last one wins
        hdr_params.push("parameter W = 8".into());
        a_ty = "logic [W-1:0]".into();
        y1_terms.push("(a + W)".into());
    }
    if has("signed_port") || has("shift_arith_signed") {
        extra_ports.push_str("    input  logic signed [5:0] s,\n");
        inputs.push(port("s", 6, true, false));
    }

    // ---- expression features: each contributes an 8-bit wire
    let mut wire = |decls: &mut String, body: &mut String, name: &str, e: String| {
        decls.push_str(&format!("    logic [7:0] {name};\n"));
        body.push_str(&format!("    assign {name} = {e};\n"));
    };
    if has("shift_logical") {
        let n = fresh("t");
        let e = format!("(({} << {}) ^ ({} >> c[1:0]))", g.safe(&env8, 1), g.rng.below(8), g.safe(&env8, 1));
        wire(&mut decls, &mut body, &n, e);
        y1_terms.push(n);
    }
    if has("shift_arith_signed") {
        let n = fresh("t");
        wire(&mut decls, &mut body, &n, format!("(s >>> {})", 1 + g.rng.below(3)));
        y1_terms.push(n);
    }
    if has("eq_ne") {
        let n = fresh("t");
        let e = format!("{{6'd0, ({} == {}), ({} != b)}}", g.safe(&env8, 1), g.safe(&env8, 1), g.safe(&env8, 1));
        wire(&mut decls, &mut body, &n, e);
        y1_terms.push(n);
    }
    if has("le_ge") {
        let n = fresh("t");
        let e = format!("{{6'd0, ({} <= {}), ({} >= b)}}", g.safe(&env8, 1), g.safe(&env8, 1), g.safe(&env8, 1));
        wire(&mut decls, &mut body, &n, e);
        y1_terms.push(n);
    }
    if has("lt_gt") {
        let n = fresh("t");
        let e = format!("{{6'd0, ({} < {}), ({} > b)}}", g.safe(&env8, 1), g.safe(&env8, 1), g.safe(&env8, 1));
        wire(&mut decls, &mut body, &n, e);
        y1_terms.push(n);
    }
    if has("logical_ops") {
        let n = fresh("t");
        let e = format!("{{6'd0, ((a != 8'd0) && (b != 8'd0)), ((!(c == 4'd3)) || (a == b))}}");
        wire(&mut decls, &mut body, &n, e);
        y1_terms.push(n);
    }
    if has("reduction") {
        let n = fresh("t");
        let e = format!("{{5'd0, (&a), (|b), (^{})}}", g.safe(&env8, 1));
        wire(&mut decls, &mut body, &n, e);
        y1_terms.push(n);
    }
    if has("ternary") {
        let n = fresh("t");
        let e = format!("((a == b) ? {} : {})", g.safe(&env8, 1), g.safe(&env8, 1));
        wire(&mut decls, &mut body, &n, e);
        y1_terms.push(n);
    }
    if has("concat") {
        let n = fresh("t");
        wire(&mut decls, &mut body, &n, "{c, a[0], b[0], 2'b10}".into());
        y1_terms.push(n);
    }
    if has("replication") {
        let n = fresh("t");
        wire(&mut decls, &mut body, &n, "{2{c}}".into());
        y1_terms.push(n);
    }
    if has("select_const") {
        let n = fresh("t");
        let hi = 3 + g.rng.below(5);
        wire(&mut decls, &mut body, &n, format!("(a[{hi}:{}] + {{7'd0, b[{}]}})", hi - 3, g.rng.below(8)));
        y1_terms.push(n);
    }
    if has("select_indexed") {
        let n = fresh("t");
        wire(&mut decls, &mut body, &n, format!("(a[{} +: 4] ^ b[7 -: 4])", g.rng.below(5)));
        y1_terms.push(n);
    }
    if has("select_dynamic") {
        let n = fresh("t");
        wire(&mut decls, &mut body, &n, "{7'd0, a[b[2:0]]}".into());
        y1_terms.push(n);
    }
    if has("size_cast") {
        let n = fresh("t");
        wire(&mut decls, &mut body, &n, format!("(8'(c) + 8'({}))", g.safe(&env8, 1)));
        y1_terms.push(n);
    }
    if has("sign_functions") {
        let n = fresh("t");
        wire(&mut decls, &mut body, &n, "($signed(c) + $unsigned(a))".into());
        y1_terms.push(n);
    }
    if has("unsized_fill_literal") {
        let n = fresh("t");
        wire(&mut decls, &mut body, &n, "(a ^ '1)".into());
        y1_terms.push(n);
    }
    if has("signed_literal") {
        let n = fresh("t");
        wire(&mut decls, &mut body, &n, "(4'sd9 + 8'sd1)".into());
        y1_terms.push(n);
    }
    if has("signed_port") {
        let n = fresh("t");
        wire(&mut decls, &mut body, &n, "(s + 6'sd1)".into());
        y1_terms.push(n.clone());
        let n2 = fresh("t");
        wire(&mut decls, &mut body, &n2, "{7'd0, (s <= 6'sd3)}".into());
        y1_terms.push(n2);
    }
    if has("mul_div_mod") {
        let n = fresh("t");
        wire(&mut decls, &mut body, &n, "((a * b) + (a / (b | 8'd1)) + (a % (b | 8'd1)))".into());
        y1_terms.push(n);
    }
    if has("localparam_typed") {
        decls.push_str(&format!("    localparam logic [7:0] K = {};\n", g.lit(8)));
        y1_terms.push("(a + K)".into());
    }
    if has("multi_declarator") {
        decls.push_str("    logic [7:0] u0, u1;\n");
        body.push_str(&format!("    assign u0 = {};\n    assign u1 = (u0 ^ b);\n", g.safe(&env8, 1)));
        y1_terms.push("u1".into());
    }
    if has("unpacked_array") {
        decls.push_str("    logic [7:0] mem [2];\n");
        body.push_str(&format!("    assign mem[0] = {};\n    assign mem[1] = (b ^ 8'h55);\n", g.safe(&env8, 1)));
        y1_terms.push("mem[c[0]]".into());
    }
    if has("typedef_alias") {
        decls.push_str("    typedef logic [7:0] byte_t;\n    byte_t tb;\n");
        body.push_str(&format!("    assign tb = {};\n", g.safe(&env8, 1)));
        y1_terms.push("tb".into());
    }
    if has("typedef_enum") {
        decls.push_str("    typedef enum logic [1:0] {ST_A, ST_B, ST_C} st_t;\n    st_t st;\n");
        body.push_str("    always_comb begin\n        st = ST_A;\n        if (a[0]) st = ST_C;\n    end\n");
        y1_terms.push("{6'd0, st}".into());
    }
    if has("typedef_struct") {
        decls.push_str("    typedef struct packed {\n        logic [3:0] hi;\n        logic [3:0] lo;\n    } pair_t;\n    pair_t pr;\n");
        body.push_str("    assign pr.hi = c;\n    assign pr.lo = a[3:0];\n");
        y1_terms.push("pr".into());
    }
    if has("comments") {
        body.push_str("    // line comment\n    /* block comment */\n");
        let n = fresh("t");
        wire(&mut decls, &mut body, &n, format!("{} /* inline */", g.safe(&env8, 1)));
        y1_terms.push(n);
    }
    if has("function_return") {
        decls.push_str(&format!(
            "    function automatic logic [7:0] f_add(input logic [7:0] p, input logic [7:0] q);\n        return {};\n    endfunction\n",
            g.safe(&["p", "q"], 2)
        ));
        y1_terms.push("f_add(a, b)".into());
    }
    if has("function_name_assign") {
        decls.push_str("    function automatic logic [7:0] f_inv(input logic [7:0] p);\n        f_inv = (~p);\n    endfunction\n");
        y1_terms.push("f_inv(a)".into());
    }
    if has("generate_for") {
        let n = fresh("t");
        decls.push_str(&format!("    logic [7:0] {n};\n"));
        body.push_str(&format!("    for (genvar i = 0; i < 8; i++) begin : g_bits\n        assign {n}[i] = (a[i] ^ b[7 - i]);\n    end\n"));
        y1_terms.push(n);
    }
    if has("generate_if") {
        let n = fresh("t");
        decls.push_str(&format!("    localparam int unsigned SEL = {};\n    logic [7:0] {n};\n", g.rng.below(2)));
        body.push_str(&format!("    if (SEL == 1) begin : g_one\n        assign {n} = (a + b);\n    end else begin : g_zero\n        assign {n} = (a - b);\n    end\n"));
        y1_terms.push(n);
    }
    if has("instance") || has("instance_param") {
        let n = fresh("t");
        let e = g.safe(&["p", "q"], 2);
        if has("instance_param") {
            pre.push_str(&format!(
                "module sub #(parameter int unsigned W = 4) (\n    input  logic [W-1:0] p,\n    input  logic [W-1:0] q,\n    output logic [W-1:0] r\n);\n    assign r = {e};\nendmodule\n\n"
            ));
            body.push_str(&format!("    sub #(.W(8)) u_sub (.p(a), .q(b), .r({n}));\n"));
        } else {
            pre.push_str(&format!("module sub (\n    input  logic [7:0] p,\n    input  logic [7:0] q,\n    output logic [7:0] r\n);\n    assign r = {e};\nendmodule\n\n"));
            body.push_str(&format!("    sub u_sub (.p(a), .q(b), .r({n}));\n"));
        }
        decls.push_str(&format!("    logic [7:0] {n};\n"));
        y1_terms.push(n);
    }

    // ---- procedural features: drive a register-like 8-bit signal each
    let mut comb = |decls: &mut String, body: &mut String, name: &str, stmts: String| {
        decls.push_str(&format!("    logic [7:0] {name};\n"));
        body.push_str(&format!("    always_comb begin\n{stmts}    end\n"));
    };
    if has("always_comb_assign") {
        let n = fresh("v");
        let s = format!("        {n} = {};\n", g.safe(&env8, 2));
        comb(&mut decls, &mut body, &n, s);
        y1_terms.push(n);
    }
    if has("always_comb_if") {
        let n = fresh("v");
        // the condition must fire often, otherwise a translation that drops the `if` goes unnoticed on a short stimulus
        let s = format!("        {n} = {};\n        if (a[0]) begin\n            {n} = (~{n});\n        end\n", g.safe(&env8, 1));
        comb(&mut decls, &mut body, &n, s);
        y1_terms.push(n);
    }
    if has("always_comb_if_else_chain") {
        let n = fresh("v");
        let s = format!(
            "        if (a == 8'd0) begin\n            {n} = {};\n        end else if (b[0]) begin\n            {n} = {};\n        end else begin\n            {n} = {};\n        end\n",
            g.safe(&env8, 1),
            g.safe(&env8, 1),
            g.safe(&env8, 1)
        );
        comb(&mut decls, &mut body, &n, s);
        y1_terms.push(n);
    }
    if has("always_comb_case") {
        let n = fresh("v");
        let s = format!(
            "        case (c[1:0])\n            2'd0: {n} = {};\n            2'd1, 2'd2: {n} = {};\n            default: {n} = {};\n        endcase\n",
            g.safe(&env8, 1),
            g.safe(&env8, 1),
            g.safe(&env8, 1)
        );
        comb(&mut decls, &mut body, &n, s);
        y1_terms.push(n);
    }
    if has("always_comb_for") {
        let n = fresh("v");
        let s = format!("        {n} = 8'd0;\n        for (int i = 0; i < 8; i++) begin\n            {n}[i] = (a[i] ^ b[i]);\n        end\n");
        comb(&mut decls, &mut body, &n, s);
        y1_terms.push(n);
    }
    if has("always_comb_sequential") {
        let n = fresh("v");
        let s = format!("        {n} = {};\n        {n} = ({n} + 8'd1);\n        {n}[0] = b[0];\n", g.safe(&env8, 1));
        comb(&mut decls, &mut body, &n, s);
        y1_terms.push(n);
    }
    if has("compound_assign") {
        let n = fresh("v");
        let s = format!("        {n} = {};\n        {n} += 8'd3;\n        {n} ^= b;\n", g.safe(&env8, 1));
        comb(&mut decls, &mut body, &n, s);
        y1_terms.push(n);
    }

    // ---- clocked features (at most one reset style per module)
    let ff_kinds: &[(&str, bool, Option<(bool, bool)>)] = &[
        ("ff_sync_high", true, Some((false, true))),
        ("ff_sync_low", true, Some((false, false))),
        ("ff_async_high", true, Some((true, true))),
        ("ff_async_low", true, Some((true, false))),
        ("ff_no_reset", true, None),
        ("ff_negedge_clock", false, Some((false, true))),
        ("ff_enable", true, Some((true, false))),
        ("ff_two_registers", true, Some((false, true))),
    ];
    for (name, pos, reset) in ff_kinds {
        if !has(name) || clock.is_some() {
            continue;
        }
        clock = Some(ClockInfo { posedge: *pos, reset: *reset });
        let q = fresh("q");
        decls.push_str(&format!("    logic [7:0] {q};\n"));
        let edge = if *pos { "posedge" } else { "negedge" };
        let sens = match reset {
            Some((true, true)) => format!("@({edge} clk or posedge rst)"),
            Some((true, false)) => format!("@({edge} clk or negedge rst)"),
            _ => format!("@({edge} clk)"),
        };
        let env_q: Vec<&str> = vec!["a", "b", q.as_str()];
        let next = g.safe(&env_q, 2);
        let rv = g.lit(8);
        match reset {
            None => body.push_str(&format!("    always_ff {sens} begin\n        {q} <= {};\n    end\n", g.safe(&env8, 2))),
            Some((_, high)) => {
                let cond = if *high { "rst" } else { "!rst" };
                if *name == "ff_enable" {
                    body.push_str(&format!(
                        "    always_ff {sens} begin\n        if ({cond}) begin\n            {q} <= {rv};\n        end else if (c[0]) begin\n            {q} <= {next};\n        end\n    end\n"
                    ));
                } else {
                    body.push_str(&format!(
                        "    always_ff {sens} begin\n        if ({cond}) begin\n            {q} <= {rv};\n        end else begin\n            {q} <= {next};\n        end\n    end\n"
                    ));
                }
                if *name == "ff_two_registers" {
                    let q2 = fresh("q");
                    decls.push_str(&format!("    logic [7:0] {q2};\n"));
                    body.push_str(&format!(
                        "    always_ff {sens} begin\n        if ({cond}) begin\n            {q2} <= 8'd0;\n        end else begin\n            {q2} <= {q};\n        end\n    end\n"
                    ));
                    y1_terms.push(q2);
                }
            }
        }
        y1_terms.push(q);
    }

    // ---- declaration-signing features
    for f in features.iter().filter(|f| f.starts_with("sgn_")) {
        let parts: Vec<&str> = f.split('_').collect();
        if parts.len() != 4 {
            continue;
        }
        let (site, ty, sg) = (parts[1], parts[2], parts[3]);
        let (w, atom) = match ty {
            "byte" => (8usize, true),
            "shortint" => (16, true),
            "int" | "integer" => (32, true),
            "longint" => (64, true),
            _ => (8, false),
        };
        let kw = match sg {
            "signed" => " signed",
            "unsigned" => " unsigned",
            _ => "",
        };
        let tytext = if atom { format!("{ty}{kw}") } else { format!("{ty}{kw} [7:0]") };
        // a value whose top bit is always set
        let src = match w {
            8 => "(a | 8'h80)".to_string(),
            16 => "{(a | 8'h80), b}".to_string(),
            32 => "{(a | 8'h80), b, a, b}".to_string(),
            _ => "{(a | 8'h80), b, a, b, a, b, a, b}".to_string(),
        };
        sign_decls.push((site.to_string(), ty.to_string(), sg.to_string()));
        if site == "farg" {
            let fname = fresh("fs");
            let fr = fresh("fr");
            decls.push_str(&format!(
                "    function automatic logic [{}:0] {fname}(input {tytext} p);\n        return {{(p + {}'sd0)}} ^ {{8'd0, (p >>> 2)}} ^ {{{}'d0, (p <= {w}'sd3)}} ^ {{8'd0, (p / {w}'sd2)}};\n    endfunction\n",
                w + 7,
                w + 8,
                w + 7
            ));
            decls.push_str(&format!("    logic [{}:0] {fr};\n", w + 7));
            body.push_str(&format!("    assign {fr} = {fname}({src});\n"));
            y1_terms.push(format!("{fr}[{}:{}]", w + 7, w));
            y1_terms.push(format!("{fr}[{}:{}]", w - 1, w - 8));
            y1_terms.push(format!("{fr}[7:0]"));
            sign_uses += 4;
            continue;
        }
        let x = if site == "port" { fresh("up") } else { fresh("x") };
        match site {
            "port" => {
                extra_ports.push_str(&format!("    input  {tytext} {x},\n"));
                inputs.push(port(&x, w, sg == "signed", false));
            }
            "var" => {
                decls.push_str(&format!("    {tytext} {x};\n"));
                body.push_str(&format!("    assign {x} = {src};\n"));
            }
            "param" => {
                let v = g.rng.next_u64() | (1u64 << (w - 1));
                let v = if w == 64 { v } else { v & ((1u64 << w) - 1) };
                decls.push_str(&format!("    localparam {tytext} {x} = {w}'h{v:x};\n"));
            }
            _ => {
                let v = (g.rng.next_u64() & 0xff) | 0x80;
                hdr_params.push(format!("parameter {tytext} {x} = 8'h{v:x}"));
            }
        }
        let (tw, sh, dv, mx) = (fresh("tw"), fresh("sh"), fresh("dv"), fresh("mx"));
        decls.push_str(&format!("    logic [{}:0] {tw};\n    logic [{}:0] {sh};\n    logic [{}:0] {dv};\n    logic [{}:0] {mx};\n", w + 7, w - 1, w - 1, w - 1));
        body.push_str(&format!("    assign {tw} = ({x} + {}'sd0);\n", w + 8)); // widening: sign- or zero-extension of the object
        body.push_str(&format!("    assign {sh} = ({x} >>> 2);\n")); // arithmetic only for a signed object
        body.push_str(&format!("    assign {dv} = ({x} / {w}'sd2);\n")); // signed or unsigned division
        body.push_str(&format!("    assign {mx} = ({x} + $signed(c));\n")); // c is sign-extended only next to a signed object
        y1_terms.push(format!("{tw}[{}:{}]", w + 7, w));
        y1_terms.push(format!("{sh}[{}:{}]", w - 1, w - 8));
        y1_terms.push(format!("{dv}[{}:{}]", w - 1, w - 8));
        y1_terms.push(format!("{mx}[7:0]"));
        y1_terms.push(format!("{{7'd0, ({x} <= {w}'sd3)}}")); // signed or unsigned comparison
        sign_uses += 5;
    }

    // ---- outputs
    let y0 = g.safe(&env8, 2);
    body.push_str(&format!("    assign y0 = {y0};\n"));
    if !y1_driven {
        let e = if y1_terms.is_empty() { g.safe(&env8, 1) } else { y1_terms.join(" ^ ") };
        body.push_str(&format!("    assign y1 = {e};\n"));
        y1_driven = true;
    }
    let _ = y1_driven;

    let params = if hdr_params.is_empty() { String::new() } else { format!("#({}) ", hdr_params.join(", ")) };
    let mut text = String::new();
    text.push_str(&pre);
    text.push_str(&format!("module m {params}(\n    input  logic clk,\n    input  logic rst,\n    input  {a_ty} a,\n    input  logic [7:0] b,\n    input  logic [3:0] c,\n"));
    text.push_str(&extra_ports);
    text.push_str("    output logic [7:0] y0,\n    output logic [7:0] y1\n);\n");
    text.push_str(&decls);
    text.push_str(&body);
    text.push_str("endmodule\n");

    SvModule {
        text,
        top: "m".into(),
        inputs,
        outputs: vec![port("y0", 8, false, true), port("y1", 8, false, true)],
        clock,
        features: features.iter().map(|s| s.to_string()).collect(),
        sign_decls,
        sign_uses,
    }
}
