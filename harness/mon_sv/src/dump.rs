//! SVDUMP — development probe: print a generated design and its emitted SV.

use vcommon::pipeline::{analyze_one, metadata_from_toml};
use vcommon::pool::{STACK_64M, fresh_thread};
use vcommon::{Args, Rng};

pub fn main(args: Args) {
    let i: u64 = args.get("i").unwrap_or("0").parse().unwrap();
    let mode = args.get("mode").unwrap_or("basic").to_string();
    let build = args.get("build").unwrap_or("").replace(';', "\n");
    let seed = args.seed;
    let file = args.get("file").map(|s| s.to_string());
    let r = fresh_thread(STACK_64M, move || {
        let text = match file {
            Some(f) => std::fs::read_to_string(f).unwrap(),
            None => {
                let mut rng = Rng::for_case(seed, "C01", i);
                let opts = crate::c01::opts_for(&mode, &mut rng);
                vgen::generate(&mut rng, &opts).text
            }
        };
        let md = metadata_from_toml(&build, "");
        println!("{}", text);
        match analyze_one(&text, &md) {
            Err(e) => println!("PARSE ERROR {e:?}"),
            Ok(a) => {
                println!("// codes: {:?}", a.all_codes());
                println!("{}", a.emit(0));
            }
        }
    });
    if let Err(p) = r {
        println!("panic {p:?}");
    }
}

/// SVDIFF — development probe: run one Veryl file (DesignGen layout: module Top, i_clk, i_rst)
/// under one configuration with a random stimulus on both sides and print the first mismatch.
pub fn diff(args: Args) {
    let file = args.get("file").expect("--set file=").to_string();
    let cfg = args.get("cfg").unwrap_or("posedge/async_low").to_string();
    let cycles: usize = args.get("cycles").unwrap_or("40").parse().unwrap();
    let show_sv = args.get("sv").is_some();
    let seed = args.seed;
    let text = std::fs::read_to_string(&file).unwrap();
    let d = vgen::Design::from_text(&text);
    let mut rng = Rng::for_case(seed, "SVDIFF", 0);
    let stim = vgen::sim::stimulus(&d, &mut rng, cycles);
    let (c, r) = cfg.split_once('/').unwrap();
    let (c, r) = (c.to_string(), r.to_string());
    let o = fresh_thread(STACK_64M, move || crate::c01::run_config(&d, &stim, &c, &r, false, None));
    match o {
        Err(p) => println!("panic {p:?}"),
        Ok(o) => {
            if show_sv {
                println!("{}", o.sv);
            }
            println!("status={} detail={} codes={:?} compared={} xmasked={} xz={:?}", o.status, o.detail, o.codes, o.cmp.compared, o.cmp.xmasked, o.xz_vars);
            match o.cmp.mismatch {
                Some(m) => println!("MISMATCH {}", serde_json::to_string(&m).unwrap()),
                None => println!("no mismatch"),
            }
        }
    }
}
