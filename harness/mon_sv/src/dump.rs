//! SVDUMP — development probe: print a generated design and its emitted SV.

use vcommon::pipeline::{analyze_one, metadata_from_toml};
use vcommon::pool::{STACK_64M, fresh_thread};
use vcommon::{Args, Rng};

pub fn main(args: Args) {
    let i: u64 = args.get("i").unwrap_or("0").parse().unwrap();
    let mode = args.get("mode").unwrap_or("basic").to_string();
    let build = args.get("build").unwrap_or("").replace(';', "\n");
    let seed = args.seed;
    let file = args.get("file").map(|s| s.to_string());
    let r = fresh_thread(STACK_64M, move || {
        let text = match file {
            Some(f) => std::fs::read_to_string(f).unwrap(),
            None => {
                let mut rng = Rng::for_case(seed, "C01", i);
                let opts = crate::c01::opts_for(&mode, &mut rng);
                vgen::generate(&mut rng, &opts).text
            }
        };
        let md = metadata_from_toml(&build, "");
        println!("{}", text);
        match analyze_one(&text, &md) {
            Err(e) => println!("PARSE ERROR {e:?}"),
            Ok(a) => {
                println!("// codes: {:?}", a.all_codes());
                println!("{}", a.emit(0));
            }
        }
    });
    if let Err(p) = r {
        println!("panic {p:?}");
    }
}
