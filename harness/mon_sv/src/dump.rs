//! SVDUMP — development probe: print a generated design and its emitted SV.

use vcommon::pipeline::{analyze_one, metadata_from_toml};
use vcommon::pool::{STACK_64M, fresh_thread};
use vcommon::{Args, Rng};

pub fn main(args: Args) {
    let i: u64 = args.get("i").unwrap_or("0").parse().unwrap();
    let mode = args.get("mode").unwrap_or("basic").to_string();
    let build = args.get("build").unwrap_or("").replace(';', "\n");
    let seed = args.seed;
    let file = args.get("file").map(|s| s.to_string());
    let r = fresh_thread(STACK_64M, move || {
        let text = match file {
            Some(f) => std::fs::read_to_string(f).unwrap(),
            None => {
                let mut rng = Rng::for_case(seed, "C01", i);
                let opts = crate::c01::opts_for(&mode, &mut rng);
                vgen::generate(&mut rng, &opts).text
            }
        };
        let md = metadata_from_toml(&build, "");
        println!("{}", text);
        match analyze_one(&text, &md) {
            Err(e) => println!("PARSE ERROR {e:?}"),
            Ok(a) => {
                println!("// codes: {:?}", a.all_codes());
                println!("{}", a.emit(0));
            }
        }
    });
    if let Err(p) = r {
        println!("panic {p:?}");
    }
}

/// SVDIFF — development probe: run one Veryl file (DesignGen layout: module Top, i_clk, i_rst)
/// under one configuration with a random stimulus on both sides and print the first mismatch.
pub fn diff(args: Args) {
    let file = args.get("file").expect("--set file=").to_string();
    let cfg = args.get("cfg").unwrap_or("posedge/async_low").to_string();
    let cycles: usize = args.get("cycles").unwrap_or("40").parse().unwrap();
    let show_sv = args.get("sv").is_some();
    let seed = args.seed;
    let text = std::fs::read_to_string(&file).unwrap();
    let d = vgen::Design::from_text(&text);
    let mut rng = Rng::for_case(seed, "SVDIFF", 0);
    let stim = vgen::sim::stimulus(&d, &mut rng, cycles);
    let (c, r) = cfg.split_once('/').unwrap();
    let (c, r) = (c.to_string(), r.to_string());
    let o = fresh_thread(STACK_64M, move || crate::c01::run_config(&d, &stim, &c, &r, false, None));
    match o {
        Err(p) => println!("panic {p:?}"),
        Ok(o) => {
            if show_sv {
                println!("{}", o.sv);
            }
            println!("status={} detail={} codes={:?} compared={} xmasked={} xz={:?}", o.status, o.detail, o.codes, o.cmp.compared, o.cmp.xmasked, o.xz_vars);
            match o.cmp.mismatch {
                Some(m) => println!("MISMATCH {}", serde_json::to_string(&m).unwrap()),
                None => println!("no mismatch"),
            }
        }
    }
}

/// SVNEUT — development probe: apply one triage rewrite to a replay file's design and show the diff lines + analyzer verdict.
pub fn neut(args: Args) {
    let rp = args.get("file").expect("--set file=<replay json>").to_string();
    let which = args.get("class").unwrap_or("c17-R8").to_string();
    let v: vcommon::Json = serde_json::from_str(&std::fs::read_to_string(&rp).unwrap()).unwrap();
    let text = v["case"]["design"].as_str().unwrap().to_string();
    for k in crate::triage::classes() {
        if k.name != which {
            continue;
        }
        let t = (k.rewrite)(&text);
        for (a, b) in text.lines().zip(t.lines()) {
            if a != b {
                println!("- {a}\n+ {b}");
            }
        }
        if let Some(o) = args.get("out") {
            std::fs::write(o, &t).unwrap();
        }
        let t2 = t.clone();
        let r = fresh_thread(STACK_64M, move || {
            let md = metadata_from_toml("", "");
            match analyze_one(&t2, &md) {
                Err(e) => format!("PARSE ERROR {e:?}"),
                Ok(a) => format!("codes {:?} errors {:?}", a.all_codes(), a.errors.iter().filter(|e| e.is_error()).map(|e| e.to_string()).take(3).collect::<Vec<_>>()),
            }
        });
        println!("{r:?}");
    }
}
