//! `--replay <file>` for C01 (and `--set reduce=1` to shrink the witness).

use crate::c01::{CfgOut, run_config};
use crate::drive;
use std::path::Path;
use vcommon::pool::{STACK_64M, fresh_thread};
use vcommon::{Args, Json, Run, json};
use vgen::Design;

fn run_one(d: &Design, stim: &vgen::sim::Stimulus, cfg: &str, allowed: Option<Vec<String>>) -> Option<CfgOut> {
    let (c, r) = cfg.split_once('/')?;
    let (d2, s2, c, r) = (d.clone(), stim.clone(), c.to_string(), r.to_string());
    fresh_thread(STACK_64M, move || run_config(&d2, &s2, &c, &r, false, allowed.as_deref())).ok()
}

pub fn c01(run: &Run, rp: &Path, args: &Args) {
    let v: Json = serde_json::from_str(&std::fs::read_to_string(rp).expect("replay file")).expect("replay json");
    let case = &v["case"];
    let text = case["design"].as_str().expect("design").to_string();
    let cfg = case["config"].as_str().expect("config").to_string();
    let d = Design::from_text(&text);
    let stim = drive::stim_from_json(&case["stimulus"]).expect("stimulus");
    run.eval();
    let Some(o) = run_one(&d, &stim, &cfg, None) else {
        run.inconclusive("replay panicked".into());
        return;
    };
    println!("replay: status={} detail={} compared={} xmasked={}", o.status, o.detail, o.cmp.compared, o.cmp.xmasked);
    run.count("programs", 1);
    run.count("disagreements_checked", o.cmp.compared as i64);
    if let Some(m) = &o.cmp.mismatch {
        println!("replay: mismatch {}", serde_json::to_string(m).unwrap());
        run.violation(
            v["signature"].as_str().unwrap_or("replay"),
            &format!("replayed: svref and the Veryl simulator disagree under {cfg} at cycle {} on {}", m["cycle"], m["output"]),
            json!({"case_index": case["case_index"], "config": cfg, "mismatch": m, "design": text, "sv": o.sv, "stimulus": case["stimulus"], "codes": o.codes}),
        );
    }
    if o.status == "gate" {
        run.violation(
            v["signature"].as_str().unwrap_or("replay"),
            &format!("replayed: emitted SV rejected by sv-parser: {}", o.detail.lines().next().unwrap_or("")),
            json!({"case_index": case["case_index"], "config": cfg, "design": text, "sv": o.sv, "stimulus": case["stimulus"], "codes": o.codes}),
        );
    }
    if args.get("reduce").is_some() && (o.cmp.mismatch.is_some() || o.status == "gate") {
        let allowed = o.codes.clone();
        let want_gate = o.status == "gate";
        let mut keep = |t: &str| -> bool {
            let mut d2 = Design::from_text(t);
            d2.text = t.to_string();
            if d2.inputs.len() != d.inputs.len() || d2.outputs.len() != d.outputs.len() {
                return false;
            }
            match run_one(&d2, &stim, &cfg, Some(allowed.clone())) {
                Some(o2) => {
                    if want_gate {
                        o2.status == "gate"
                    } else {
                        o2.status == "ok" && o2.cmp.mismatch.is_some()
                    }
                }
                None => false,
            }
        };
        let small = vgen::reduce::reduce(&text, &mut keep, 2500);
        let out = rp.with_extension("reduced.veryl");
        std::fs::write(&out, &small).unwrap();
        println!("reduced witness ({} -> {} lines) written to {}\n{}", text.lines().count(), small.lines().count(), out.display(), small);
        if let Some(o3) = run_one(&Design::from_text(&small), &stim, &cfg, None) {
            println!("--- emitted SV of the reduced witness ---\n{}", o3.sv);
            if let Some(m) = &o3.cmp.mismatch {
                println!("--- mismatch: {}", serde_json::to_string(m).unwrap());
            }
        }
    }
}
