//! Small hand-written Veryl programs with holes, aimed at the elaboration limits
//! and at width / size / count / shift arithmetic.  `{N}`, `{M}`, `{K}` are
//! replaced by numbers near and beyond every limit (see `shapes::EDGE_NUMBERS`)
//! or by small numbers (a substitution that no longer parses is counted and skipped).

use crate::shapes::{EDGE_NUMBERS, EDGE_NUMBERS_TIGHT};
use vcommon::Rng;

pub const TEMPLATES: &[(&str, &str)] = &[
    // --- recursion: modules ---
    ("rec_module_self", "module A {\n    inst u: A;\n}\n"),
    ("rec_module_mutual", "module A {\n    inst u: B;\n}\nmodule B {\n    inst u: A;\n}\n"),
    ("rec_module_param_up", "module A #(\n    param X: u32 = 1,\n) {\n    inst u: A #( X: X + {N} );\n}\n"),
    ("rec_module_param_down", "module A #(\n    param X: u32 = {N},\n) {\n    if X >: 0 :g {\n        inst u: A #( X: X - 1 );\n    }\n}\nmodule Top {\n    inst t: A #( X: {M} );\n}\n"),
    ("rec_module_binary_tree", "module A #(\n    param D: u32 = {N},\n) {\n    if D >: 0 :g {\n        inst l: A #( D: D - 1 );\n        inst r: A #( D: D - 1 );\n    }\n}\n"),
    ("rec_module_generic", "module A::<W: u32> {\n    inst u: A::<W>;\n}\nmodule Top {\n    inst t: A::<{N}>;\n}\n"),
    ("rec_module_array", "module B {\n    var a: logic;\n    assign a = 0;\n}\nmodule A {\n    inst u: B [{N}];\n}\n"),
    ("fanout_gen_for", "module B {\n    var a: logic;\n    assign a = 0;\n}\nmodule A {\n    for i in 0..{N} :g {\n        inst u: B;\n    }\n}\n"),
    ("fanout_gen_for_nested", "module B {}\nmodule A {\n    for i in 0..{N} :g {\n        for j in 0..{M} :h {\n            inst u: B;\n        }\n    }\n}\n"),
    ("fanout_gen_for_vars", "module A {\n    for i in 0..{N} :g {\n        var a: logic<{M}>;\n        assign a = i;\n    }\n}\n"),
    ("gen_for_step", "module A {\n    for i in {N}..{M} step += {K} :g {\n        var a: logic;\n        assign a = 0;\n    }\n}\n"),
    ("gen_for_step_mul", "module A {\n    for i in {N}..{M} step *= {K} :g {\n        var a: logic;\n        assign a = 0;\n    }\n}\n"),
    ("gen_for_rev", "module A {\n    for i in rev {N}..={M} :g {\n        var a: logic;\n        assign a = 0;\n    }\n}\n"),
    ("gen_if_const_huge", "module A #(\n    param P: u64 = {N},\n) {\n    if P == {M} :g {\n        var a: logic<P>;\n        assign a = 0;\n    } else if P >: {K} {\n        var b: logic;\n        assign b = 0;\n    }\n}\n"),
    // --- recursion: functions ---
    ("rec_function_self", "module A {\n    function f (\n        x: input u32,\n    ) -> u32 {\n        return f(x + 1);\n    }\n    const X: u32 = f({N});\n}\n"),
    ("rec_function_bounded", "module A {\n    function f (\n        x: input u32,\n    ) -> u32 {\n        if x == 0 {\n            return 0;\n        } else {\n            return f(x - 1) + 1;\n        }\n    }\n    const X: u32 = f({N});\n    var a: logic<32>;\n    assign a = X;\n}\n"),
    ("rec_function_mutual", "package P {\n    function f (\n        x: input u32,\n    ) -> u32 {\n        return g(x);\n    }\n    function g (\n        x: input u32,\n    ) -> u32 {\n        return f(x);\n    }\n    const X: u32 = f({N});\n}\n"),
    ("rec_function_comb", "module A (\n    i: input  logic<8>,\n    o: output logic<8>,\n) {\n    function f (\n        x: input logic<8>,\n    ) -> logic<8> {\n        return f(x);\n    }\n    assign o = f(i);\n}\n"),
    ("function_loop_huge", "module A {\n    function f (\n        x: input u32,\n    ) -> u32 {\n        var s: u32;\n        s = 0;\n        for i: u32 in 0..{N} {\n            s += i;\n        }\n        return s;\n    }\n    const X: u32 = f(1);\n}\n"),
    ("function_generic_rec", "package P {\n    function f::<N: u32> () -> u32 {\n        return f::<N>();\n    }\n    const X: u32 = f::<{N}>();\n}\n"),
    // --- recursion: types / consts ---
    ("rec_struct_self", "package P {\n    struct S {\n        x: S,\n    }\n}\nmodule A {\n    var s: P::S;\n    assign s = 0;\n}\n"),
    ("rec_struct_mutual", "package P {\n    struct S {\n        x: T,\n    }\n    struct T {\n        y: S,\n    }\n}\nmodule A {\n    var s: P::S;\n    assign s = 0;\n    let w: u32 = $bits(P::S);\n}\n"),
    ("rec_type_alias", "package P {\n    type T = T;\n    type U = V;\n    type V = U;\n}\nmodule A {\n    var a: P::T;\n    var b: P::U;\n    assign a = 0;\n    assign b = 0;\n}\n"),
    ("rec_type_array", "package P {\n    type T = T [{N}];\n}\nmodule A {\n    var a: P::T;\n}\n"),
    ("rec_const_self", "package P {\n    const X: u32 = X + 1;\n    const A: u32 = B;\n    const B: u32 = A;\n}\nmodule M {\n    var a: logic<P::X>;\n    var b: logic<P::A>;\n    assign a = 0;\n    assign b = 0;\n}\n"),
    ("rec_param_self", "module A #(\n    param X: u32 = X,\n    param Y: u32 = Z,\n    param Z: u32 = Y,\n) {\n    var a: logic<X>;\n    assign a = Y;\n}\n"),
    ("rec_enum_base", "package P {\n    enum E: E {\n        A,\n    }\n    enum F: logic<F::A> {\n        A,\n    }\n}\n"),
    ("rec_union", "package P {\n    union U {\n        a: U,\n        b: logic<{N}>,\n    }\n}\nmodule A {\n    var u: P::U;\n    assign u = 0;\n}\n"),
    ("rec_generic_type", "package P::<T: type> {\n    type X = T;\n}\nmodule A {\n    var a: P::<P::<logic>::X>::X;\n    assign a = 0;\n}\n"),
    ("rec_interface_self", "interface I {\n    inst i: I;\n}\nmodule A {\n    inst i: I;\n}\n"),
    ("rec_proto", "proto module P;\nmodule A::<T: P> for P {\n    inst u: T;\n}\nmodule B {\n    inst a: A::<A::<B>>;\n}\n"),
    ("rec_alias", "module A {}\nalias module B = B;\nalias module C = D;\nalias module D = C;\nmodule T {\n    inst b: B;\n    inst c: C;\n}\n"),
    ("rec_import_self", "package P {\n    import P::*;\n    const X: u32 = 1;\n}\npackage Q {\n    import R::*;\n}\npackage R {\n    import Q::*;\n}\n"),
    // --- widths / sizes ---
    ("wide_var", "module A {\n    var a: logic<{N}>;\n    assign a = 0;\n}\n"),
    ("wide_var_2d", "module A {\n    var a: logic<{N}, {M}>;\n    assign a = 0;\n}\n"),
    ("wide_array", "module A {\n    var a: logic<{M}> [{N}];\n    assign a = '{default: 0};\n}\n"),
    ("wide_array_2d", "module A {\n    var a: logic [{N}, {M}];\n    assign a = '{default: '{default: 0}};\n}\n"),
    ("wide_array_index", "module A {\n    var a: logic<8> [{N}];\n    assign a[{M}] = 1;\n    let b: logic<8> = a[{K}];\n}\n"),
    ("wide_port", "module A (\n    i: input  logic<{N}>,\n    o: output logic<{N}>,\n) {\n    assign o = ~i + 1;\n}\n"),
    ("wide_const", "module A {\n    const X: bit<{N}> = {M};\n    var a: logic<{N}>;\n    assign a = X;\n}\n"),
    ("wide_ops", "module A {\n    const X: bit<{N}> = '1;\n    const Y: bit<{N}> = X * X + (X << {M}) - (X >> {K}) + (X / 3) + (X % 7);\n    var a: logic<{N}>;\n    assign a = Y;\n}\n"),
    ("width_expr", "module A #(\n    param W: u32 = {N},\n) {\n    var a: logic<W * {M}>;\n    var b: logic<W - {K}>;\n    var c: logic<$clog2(W)>;\n    assign a = 0;\n    assign b = 0;\n    assign c = 0;\n}\n"),
    ("width_negative", "module A {\n    var a: logic<0 - {N}>;\n    var b: logic<{M} - {M}>;\n    var c: logic [0 - {K}];\n    assign a = 0;\n    assign b = 0;\n}\n"),
    ("width_bits_of", "module A {\n    var a: logic<{N}> [{M}];\n    const B: u64 = $bits(a);\n    const S: u64 = $size(a);\n    var c: logic<B>;\n    assign c = S;\n}\n"),
    ("struct_wide", "package P {\n    struct S {\n        a: logic<{N}>,\n        b: logic<{M}>,\n    }\n}\nmodule A {\n    var s: P::S;\n    assign s.a = 0;\n    assign s.b = 0;\n    let w: u64 = $bits(P::S);\n}\n"),
    ("enum_huge_value", "package P {\n    enum E: logic<{K}> {\n        A = {N},\n        B = {M},\n        C,\n    }\n}\nmodule A {\n    var e: P::E;\n    assign e = P::E::C;\n}\n"),
    ("enum_many", "package P {\n    enum E: logic<1> {\n        A,\n        B,\n        C,\n        D,\n    }\n    enum F {\n        X = {N},\n    }\n}\n"),
    // --- replication / concatenation / shifts / power ---
    ("repeat_huge", "module A {\n    let a: logic = {1'b1 repeat {N}};\n}\n"),
    ("repeat_nested", "module A {\n    let a: logic<8> = {{1'b1 repeat {N}} repeat {M}};\n}\n"),
    ("repeat_negative", "module A {\n    var c: logic;\n    assign c = 1;\n    let a: logic<8> = {c repeat 0 - {N}};\n    let b: logic<8> = {c repeat 'x};\n    let d: logic<8> = {c repeat c};\n}\n"),
    ("array_literal_repeat", "module A {\n    var a: logic<8> [4];\n    assign a = '{1 repeat {N}};\n}\n"),
    ("shift_huge", "module A {\n    const X: u64 = 1 << {N};\n    const Y: u64 = {M} >> {N};\n    const Z: i64 = -1 >>> {N};\n    const W: u64 = 1 <<< {K};\n    var a: logic<64>;\n    assign a = X + Y + Z + W;\n}\n"),
    ("shift_wide", "module A {\n    const X: bit<{K}> = 1;\n    const Y: bit<{K}> = X << {N};\n    var a: logic<{K}>;\n    assign a = Y >> {M};\n}\n"),
    ("shift_var", "module A (\n    i: input  logic<{K}>,\n    o: output logic<{K}>,\n) {\n    assign o = (i << {N}) | (i >> {M}) | (i >>> {N}) | (i <<< {M});\n}\n"),
    ("pow_huge", "module A {\n    const X: u64 = 2 ** {N};\n    const Y: u64 = {M} ** {K};\n    var a: logic<64>;\n    assign a = X + Y;\n}\n"),
    ("pow_wide", "module A {\n    const X: bit<{K}> = 3;\n    const Y: bit<{K}> = X ** {N};\n    var a: logic<{K}>;\n    assign a = Y;\n}\n"),
    ("pow_negative", "module A {\n    const X: i64 = 2 ** (0 - {N});\n    const Y: i64 = 0 ** (0 - 1);\n    const Z: i64 = (0 - 1) ** {M};\n    var a: logic<64>;\n    assign a = X + Y + Z;\n}\n"),
    ("div_zero", "module A {\n    const X: u32 = {N} / 0;\n    const Y: u32 = {N} % 0;\n    const Z: i64 = (0 - 9223372036854775807 - 1) / (0 - 1);\n    const W: i64 = (0 - 9223372036854775807 - 1) % (0 - 1);\n    const V: i32 = (0 - 2147483647 - 1) / (0 - 1);\n    var a: logic<64>;\n    assign a = X + Y + Z + W + V;\n}\n"),
    ("arith_overflow", "module A {\n    const X: u64 = {N} * {M};\n    const Y: u64 = {N} + {M};\n    const Z: i64 = {N} - {M};\n    const U: u32 = {N};\n    const I: i32 = {M};\n    var a: logic<64>;\n    assign a = X + Y + Z + U + I;\n}\n"),
    ("clog2_edge", "module A {\n    const X: u32 = $clog2({N});\n    const Y: u32 = $clog2(0);\n    const Z: u32 = $clog2(0 - 1);\n    const W: u32 = $onehot({M});\n    var a: logic<X + 1>;\n    assign a = Y + Z + W;\n}\n"),
    ("cast_edge", "module A {\n    const X: u64 = {N} as u8;\n    const Y: u64 = {N} as {M};\n    var a: logic<64>;\n    assign a = (X as i32) + ({K} as 0) + Y;\n}\n"),
    ("number_literals", "module A {\n    var a: logic<64>;\n    assign a = {N} + {M} + {K} + {N}'hff + 0'd0 + 1'd3;\n}\n"),
    // --- selects ---
    ("select_edge", "module A {\n    var a: logic<8>;\n    var b: logic<8>;\n    assign a = 0;\n    assign b = {a[{N}], a[{M}:{K}], a[{K}+:{N}], a[{M}-:{K}], a[{N} step {M}]};\n}\n"),
    ("select_assign", "module A {\n    var a: logic<{K}>;\n    assign a[{N}] = 1;\n    assign a[{M}:{N}] = 0;\n}\n"),
    ("select_msb_lsb", "module A {\n    var a: logic<{N}, {M}>;\n    assign a = 0;\n    let b: logic = a[msb][lsb];\n    let c: logic = a[msb - {K}][lsb + {K}];\n}\n"),
    ("select_on_scalar", "module A {\n    const X: u32 = 5;\n    let a: logic = X[{N}];\n    let b: logic<4> = X[{M}:{K}];\n    let c: logic = 1[0];\n}\n"),
    // --- statements ---
    ("stmt_for_huge", "module A (\n    o: output logic<32>,\n) {\n    always_comb {\n        o = 0;\n        for i: u32 in 0..{N} {\n            o += i;\n        }\n    }\n}\n"),
    ("stmt_for_step", "module A (\n    o: output logic<32>,\n) {\n    always_comb {\n        o = 0;\n        for i: u32 in {N}..{M} step += {K} {\n            o += 1;\n        }\n    }\n}\n"),
    ("stmt_for_step_mul", "module A (\n    o: output logic<32>,\n) {\n    always_comb {\n        o = 0;\n        for i: i32 in {N}..{M} step *= {K} {\n            o += 1;\n        }\n    }\n}\n"),
    ("stmt_for_rev", "module A (\n    o: output logic<32>,\n) {\n    always_comb {\n        o = 0;\n        for i: u8 in rev {N}..={M} {\n            o += 1;\n        }\n    }\n}\n"),
    ("stmt_for_nested", "module A (\n    o: output logic<32>,\n) {\n    always_comb {\n        o = 0;\n        for i: u32 in 0..{N} {\n            for j: u32 in 0..{M} {\n                o += 1;\n            }\n        }\n    }\n}\n"),
    ("stmt_for_break", "module A (\n    o: output logic<32>,\n) {\n    always_comb {\n        o = 0;\n        for i: u32 in 0..{N} {\n            if i == {M} {\n                break;\n            }\n            o = i;\n        }\n    }\n}\n"),
    ("stmt_case_ranges", "module A (\n    i: input  logic<{K}>,\n    o: output logic<8>,\n) {\n    always_comb {\n        case i {\n            0..={N}: o = 1;\n            {N}..{M}: o = 2;\n            {M}    : o = 3;\n            default: o = 0;\n        }\n    }\n}\n"),
    ("expr_inside", "module A (\n    i: input  logic<{K}>,\n    o: output logic,\n) {\n    assign o = inside i {0..={N}, {M}, {N}..{M}} || outside i {{M}..={N}};\n}\n"),
    ("comb_loop_array", "module A {\n    var a: logic<{N}>;\n    for i in 0..{M} :g {\n        assign a[i] = a[i + 1];\n    }\n}\n"),
    ("ff_wide", "module A (\n    clk: input  clock,\n    rst: input  reset,\n    o  : output logic<{N}>,\n) {\n    always_ff {\n        if_reset {\n            o = {M};\n        } else {\n            o = o + {K};\n        }\n    }\n}\n"),
    ("ff_array", "module A (\n    clk: input clock,\n    rst: input reset,\n) {\n    var m: logic<{K}> [{N}];\n    always_ff {\n        if_reset {\n            m = '{default: 0};\n        } else {\n            for i: u32 in 0..{M} {\n                m[i] = m[i] + 1;\n            }\n        }\n    }\n}\n"),
    // --- interfaces / generics ---
    ("interface_array", "interface I {\n    var a: logic<{M}>;\n    modport m {\n        a: input,\n    }\n}\nmodule A {\n    inst i: I [{N}];\n}\n"),
    ("generic_const_huge", "module B::<W: u64> {\n    var a: logic<W>;\n    assign a = 0;\n}\nmodule A {\n    inst u: B::<{N}>;\n    inst v: B::<{M}>;\n}\n"),
    ("generic_many", "module B::<W: u32> {\n    var a: logic<W + 1>;\n    assign a = 0;\n}\nmodule A {\n    for i in 0..{N} :g {\n        inst u: B::<{M}>;\n    }\n}\n"),
    ("param_override_huge", "module B #(\n    param W: u32 = 1,\n    param D: u32 = 1,\n) {\n    var a: logic<W> [D];\n}\nmodule A {\n    inst u: B #( W: {N}, D: {M} );\n}\n"),
    ("string_param", "module B #(\n    param S: string = \"a\",\n) {\n    var a: logic<8>;\n    assign a = S;\n}\nmodule A {\n    inst u: B #( S: {N} );\n    let x: logic<8> = \"abc\" + {M};\n}\n"),
    ("sv_namespace", "module A {\n    inst u: $sv::Foo #( W: {N} ) ( a: {M} );\n    let x: logic<8> = $sv::pkg::X[{K}];\n}\n"),
    ("test_attr", "#[test(t)]\nmodule t {\n    inst c: $tb::clock_gen;\n    inst r: $tb::reset_gen;\n    initial {\n        $finish();\n    }\n}\n#[test(t)]\nmodule u {}\n"),
    ("embed_inline", "module A {\n    embed (inline) sv{{{\n        wire x;\n    }}}\n}\nembed (inline) sv{{{\n    module B; endmodule\n}}}\n"),
];

fn small(rng: &mut Rng) -> String {
    (*rng.pick(&["0", "1", "2", "3", "4", "7", "8", "16", "24", "25", "31", "32", "33", "63", "64", "65", "100", "127", "128", "129", "130", "255", "256", "1000"])).to_string()
}

/// Fill the holes.  `mode` 0: all small numbers (the program mostly analyses
/// cleanly), 1: one hole gets an edge number, 2: all holes get edge numbers.
pub fn instantiate(text: &str, rng: &mut Rng, mode: u64, tight: bool) -> String {
    let edges = if tight { EDGE_NUMBERS_TIGHT } else { EDGE_NUMBERS };
    let holes = ["{N}", "{M}", "{K}"];
    let present: Vec<&str> = holes.iter().copied().filter(|h| text.contains(h)).collect();
    let edge_one = if present.is_empty() { "" } else { *rng.pick(&present) };
    let mut s = text.to_string();
    for h in present {
        let v = match mode {
            0 => small(rng),
            1 if h != edge_one => small(rng),
            _ => (*rng.pick(edges)).to_string(),
        };
        s = s.replace(h, &v);
    }
    s
}
