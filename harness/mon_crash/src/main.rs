//! mon_crash — crash monitors C10 (parser) and C11 (analysis/emission/formatting); dispatches on --prop.
//! `--prop C10WORKER` / `--prop C11WORKER` are the hidden subprocess-worker modes (see sub.rs).

mod c10;
mod c11;
mod shapes;
mod sub;
mod templates;

use vcommon::Args;

fn main() {
    vcommon::pool::install_panic_hook();
    let args = Args::parse();
    match args.prop.as_str() {
        "C10" => c10::main(args),
        "C10WORKER" => c10::worker(args),
        "C11" => c11::main(args),
        "C11WORKER" => c11::worker(args),
        p => {
            eprintln!("mon_crash: unknown property {p}");
            std::process::exit(2);
        }
    }
}
